"""
C08 — only an event's author can delete it (NIP-09).
Tie: real add_event on both backends vs the Lean models, α = stored ids / key list after every event.
Search: for every accepted kind-5 event d — frame: everything that disappears was published by d's
pubkey and is referenced by an e tag of d; completeness: every stored event of d's pubkey that d
references and that is older than d disappears; afterwards it is served neither by get_event
(/e/<id>) nor by a query for its id.
"""
import random

from lib import common, gen
from lib.hist import KVStore, SQLStore, address
from lib.kvimpl import model_event

THEOREMS_TIED = ["C08_kv_delete_frame", "C08_kv_delete_complete", "C08_kv_delete_complete_reachable", "C08_sql_delete_exact", "C08_sql_delete_frame", "C08_sql_delete_complete"]

AUTH = gen.AUTHORS[2:5]
T0 = gen.T0


def ref_ids(d):
    """ids an e tag names (64 hex digits, as the property means it)"""
    out = set()
    for t in d["tags"]:
        if len(t) >= 2 and t[0] == "e" and isinstance(t[1], str):
            v = t[1].strip().lower()
            if len(v) == 64 and all(c in "0123456789abcdef" for c in v):
                out.add(v)
    return out


def malformed(d):
    for t in d["tags"]:
        if t and t[0] == "e":
            if len(t) < 2 or not isinstance(t[1], str):
                return True
            try:
                bytes.fromhex(t[1])
            except ValueError:
                return True
    return False


def gen_history(rng, n):
    evs = []
    for i in range(n):
        r = rng.random()
        targets = [e for e in evs if e["kind"] != 5]
        if r < 0.55 or not targets:
            e = gen.gen_event(rng, known_ids=[x["id"] for x in evs], authors=AUTH, kinds=[1, 7, 4, 1],
                              times=[T0, T0 + 1, T0 + 2, T0 + 50])
            e["tags"] = [t for t in e["tags"] if t and t[0] not in ("expiration", "d")]
            if rng.random() < 0.2:
                # replaceable kinds: what a NIP-09 address tag ("a", "<kind>:<pubkey>:<d>") can name
                e["kind"] = rng.choice([0, 10002, 30000, 30000])
                if e["kind"] == 30000:
                    e["tags"].insert(0, ["d", rng.choice(["x", "y", ""])])
            if rng.random() < 0.15:
                # published under a NIP-26 delegation: the delegator is *not* the author of this event
                e["tags"].append(["delegation", rng.choice([a for a in AUTH if a != e["pubkey"]] or AUTH), "kind=1", "00" * 64])
            evs.append(e)
        else:
            tgt = rng.choice(targets)
            refs = [tgt["id"]]
            for _ in range(rng.choice([0, 0, 1, 2])):
                refs.append(rng.choice(targets)["id"])
            if rng.random() < 0.2:
                refs.append(gen.mkid(rng))
            tags = [["e", x] for x in refs]
            if rng.random() < 0.2:
                # a deletion with no usable e reference at all: no tags, only NIP-09 address tags, only malformed ids, p tags
                tags = rng.choice([[], [["a", "1:%s:" % tgt["pubkey"]]], [["e", "zz"]], [["e"]], [["p", tgt["pubkey"]]],
                                   [["e", tgt["id"][:40]]], [["a", "30000:%s:x" % tgt["pubkey"]], ["e", ""]]])
            if rng.random() < 0.3:
                # NIP-09 address tags: the coordinates of stored replaceable events, of the deletion's own author and of others
                for c in rng.sample(targets, min(len(targets), rng.choice([1, 2]))):
                    a = address(c)
                    if a is not None:
                        tags.append(["a", "%d:%s:%s" % (a[1], a[0], a[2] or "")])
            rr = rng.random()
            if rr < 0.07:
                tags.insert(rng.randrange(len(tags) + 1), ["e", "zz"])
            elif rr < 0.12:
                tags.insert(rng.randrange(len(tags) + 1), ["e"])
            elif rr < 0.17:
                tags.append(["e", tgt["id"].upper()])
            elif rr < 0.25:
                tags.append(["p", tgt["pubkey"]])
            who = tgt["pubkey"] if rng.random() < 0.65 else rng.choice(AUTH)
            # (only a well-formed key can sign a deletion: an event with any other pubkey is never admitted)
            delegators = [t[1] for t in tgt["tags"] if t and t[0] == "delegation" and len(t) > 1 and t[1] in AUTH]
            if delegators and rng.random() < 0.6:
                who = delegators[0]          # the delegator tries to delete the delegatee's event
            evs.append({"id": gen.mkid(rng), "pubkey": who, "created_at": tgt["created_at"] + rng.choice([-1, 0, 1, 1, 2, 100]),
                        "kind": 5, "tags": tags, "content": "", "sig": "00" * 64})
    return evs


def run_history(report, drv, store, evs, tag):
    store.reset()
    lines = [{"op": "kv.reset"}] if store.backend == "kv" else [{"op": "sql.reset"}]
    expect = ["ok"]
    by_id = {}
    in_model = True
    prefix = []
    for n in evs:
        prefix.append(n)
        before = store.ids()
        res = store.add(n)
        after = store.ids()
        by_id.setdefault(n["id"], n)
        me = model_event(n)
        if me is None:
            in_model = False
        if in_model:
            if store.backend == "kv":
                lines.append({"op": "kv.task", "task": {"t": "add", "ev": me}})
                expect.append(None)
                lines.append({"op": "kv.dump"})
                expect.append(store.dump())
            else:
                lines.append({"op": "sql.add", "ev": me})
                expect.append("raises" if res["exc"] else ("ok:true" if res["ok"] else "ok:false"))
                lines.append({"op": "sql.dump"})
                expect.append(store.dump())
        payload = {"backend": store.backend, "events": list(prefix)}
        removed = {i for i in before - after if i != n["id"]}
        if n["kind"] != 5:
            # (a replaceable event may supersede the older versions of its own address: C09's business)
            foreign = {r for r in removed if address(n) is None or r not in by_id or address(by_id[r]) != address(n)}
            if foreign:
                report.property_failure("%s: a kind-%d event removed %d events" % (store.backend, n["kind"], len(foreign)), payload, None)
            continue
        refs = ref_ids(n)
        coords = {tuple(t[1].split(":", 2)) for t in n["tags"] if len(t) >= 2 and t[0] == "a" and isinstance(t[1], str) and t[1].count(":") >= 2}
        # frame: whatever goes was published by the deletion's author and is referenced by it (by id, or — NIP-09 allows it, the
        # relay does not do it — by its address)
        for r in removed:
            ev = by_id.get(r)
            a = address(ev) if ev else None
            by_addr = a is not None and (str(a[1]), a[0], a[2] or "") in coords
            if ev is None or ev["pubkey"] != n["pubkey"] or not (r in refs or by_addr):
                report.property_failure(
                    "%s: deletion %s by %s.. removed %s (author %s.., referenced: %s)"
                    % (store.backend, n["id"][:8], n["pubkey"][:6], r[:8], ev["pubkey"][:6] if ev else "?", r in refs),
                    payload, None)
        # completeness (only when the deletion was accepted as a new event)
        if res["ok"]:
            owed = {i for i in before if i in by_id and by_id[i]["pubkey"] == n["pubkey"] and i in refs
                    and by_id[i]["created_at"] < n["created_at"] and i != n["id"]}
            left = owed & after
            if left:
                cls = None
                if store.backend == "kv":
                    if malformed(n):
                        cls = "kv-deletion-aborted-by-malformed-ref"
                    elif all(by_id[i]["created_at"] == n["created_at"] - 1 and i.startswith("ff") for i in left):
                        cls = "kv-deletion-seek-sentinel"
                report.property_failure(
                    "%s: accepted deletion %s left %d referenced older event(s) of its own author stored"
                    % (store.backend, n["id"][:8], len(left)), payload, cls)
            # no longer served by any path
            for i in owed - after:
                if store.get(i) is not None:
                    report.property_failure("%s: deleted event %s still served by get_event" % (store.backend, i[:8]), payload, None)
                got = store.query([{"ids": [i]}])
                if got:
                    report.property_failure("%s: deleted event %s still returned by a query" % (store.backend, i[:8]), payload, None)
            report.count("deletions_accepted_" + store.backend)
            if owed:
                report.count("deletions_with_owed_targets_" + store.backend)
    got = drv.batch(lines)
    for i, (g, e) in enumerate(zip(got, expect)):
        if e is not None and g != e:
            report.correspondence_break("%s add_event (kind 5)" % store.backend,
                                        {"backend": store.backend, "events": evs, "line": lines[i]}, summarize(e), summarize(g))
            break
    report.case((store.backend, tag, repr([(e["kind"], e["created_at"], e["pubkey"][:4], e["tags"]) for e in evs])),
                nontrivial=any(e["kind"] == 5 for e in evs),
                sample={"backend": store.backend, "events": [(e["kind"], e["created_at"], e["pubkey"][:4], len(e["tags"])) for e in evs[:8]]})
    report.count("histories_" + store.backend)


def summarize(x):
    if isinstance(x, list) and len(x) > 10:
        return {"n": len(x), "head": x[:4]}
    if isinstance(x, dict):
        return {k: summarize(v) for k, v in x.items()}
    return x


def run(report, tier, seed):
    rng = random.Random(seed)
    drv = common.Driver()
    stores = [KVStore(), SQLStore()]
    report.coverage["rule"] = (
        "histories of 3-10 events over 3 authors (deletions also with no usable e reference: none, only a / p tags, only malformed ids): regular events (ids starting 00/ff/random, 4 timestamps) and kind-5 "
        "deletions referencing own / foreign / unknown / several / malformed ('zz', bare e tag, upper-case hex) ids, "
        "created -1/0/+1/+2/+100 s relative to the target, events published under a NIP-26 delegation tag and deletions signed by "
        "the delegator (who is not the author), in generated arrival order, on both backends; non-trivial = "
        "the history contains a deletion")
    report.assumptions += ["validators disabled (synthetic unsigned events)"]
    try:
        for e in report.known:
            r = common.load_finding_replay(e)
            for st in stores:
                if st.backend == r["backend"]:
                    run_history(report, drv, st, r["events"], "finding:" + e["id"])
        for i in range(150 if tier == "quick" else 3000):
            evs = gen_history(rng, rng.randint(3, 10))
            for st in stores:
                run_history(report, drv, st, evs, i)
    finally:
        for st in stores:
            st.close()
        drv.close()


def replay(report, path):
    import json

    data = json.load(open(path))
    drv = common.Driver()
    stores = {"kv": KVStore(), "sql": SQLStore()}
    try:
        for it in (data.get("violations") or []) + (data.get("correspondence_breaks") or []):
            r = it.get("replay") or it.get("input")
            if "backend" in r:
                run_history(report, drv, stores[r["backend"]], r["events"], "replay")
    finally:
        for st in stores.values():
            st.close()
        drv.close()
