"""
C08 — only an event's author can delete it (NIP-09).
Tie: real add_event on both backends vs the Lean models, α = stored ids / key list after every event.
Search: for every accepted kind-5 event d — frame: everything that disappears was published by d's
pubkey and is referenced by an e tag of d; completeness: every stored event of d's pubkey that d
references and that is older than d disappears; afterwards it is served neither by get_event
(/e/<id>) nor by a query for its id.
"""
import random

from lib import common, gen
from lib.hist import KVStore, SQLStore, address
from lib.kvimpl import model_event

THEOREMS_TIED = ["C08_kv_delete_frame", "C08_kv_delete_complete", "C08_kv_delete_complete_reachable", "C08_sql_delete_exact", "C08_sql_delete_frame", "C08_sql_delete_complete"]

AUTH = gen.AUTHORS[2:5]
T0 = gen.T0


def ref_ids(d):
    """ids an e tag names (64 hex digits, as the property means it)"""
    out = set()
    for t in d["tags"]:
        if len(t) >= 2 and t[0] == "e" and isinstance(t[1], str):
            v = t[1].strip().lower()
            if len(v) == 64 and all(c in "0123456789abcdef" for c in v):
                out.add(v)
    return out


def malformed(d):
    for t in d["tags"]:
        if t and t[0] == "e":
            if len(t) < 2 or not isinstance(t[1], str):
                return True
            try:
                bytes.fromhex(t[1])
            except ValueError:
                return True
    return False


def gen_history(rng, n):
    evs = []
    for i in range(n):
        r = rng.random()
        targets = [e for e in evs if e["kind"] != 5]
        if r < 0.55 or not targets:
            e = gen.gen_event(rng, known_ids=[x["id"] for x in evs], authors=AUTH, kinds=[1, 7, 4, 1],
                              times=[T0, T0 + 1, T0 + 2, T0 + 50])
            e["tags"] = [t for t in e["tags"] if t and t[0] not in ("expiration", "d")]
            if rng.random() < 0.2:
                # replaceable kinds: what a NIP-09 address tag ("a", "<kind>:<pubkey>:<d>") can name
                e["kind"] = rng.choice([0, 10002, 30000, 30000])
                if e["kind"] == 30000:
                    e["tags"].insert(0, ["d", rng.choice(["x", "y", ""])])
            if rng.random() < 0.15:
                # published under a NIP-26 delegation: the delegator is *not* the author of this event
                e["tags"].append(["delegation", rng.choice([a for a in AUTH if a != e["pubkey"]] or AUTH), "kind=1", "00" * 64])
            evs.append(e)
        else:
            tgt = rng.choice(targets)
            refs = [tgt["id"]]
            for _ in range(rng.choice([0, 0, 1, 2])):
                refs.append(rng.choice(targets)["id"])
            if rng.random() < 0.2:
                refs.append(gen.mkid(rng))
            tags = [["e", x] for x in refs]
            if rng.random() < 0.2:
                # a deletion with no usable e reference at all: no tags, only NIP-09 address tags, only malformed ids, p tags
                tags = rng.choice([[], [["a", "1:%s:" % tgt["pubkey"]]], [["e", "zz"]], [["e"]], [["p", tgt["pubkey"]]],
                                   [["e", tgt["id"][:40]]], [["a", "30000:%s:x" % tgt["pubkey"]], ["e", ""]]])
            if rng.random() < 0.3:
                # NIP-09 address tags: the coordinates of stored replaceable events, of the deletion's own author and of others
                for c in rng.sample(targets, min(len(targets), rng.choice([1, 2]))):
                    a = address(c)
                    if a is not None:
                        tags.append(["a", "%d:%s:%s" % (a[1], a[0], a[2] or "")])
            rr = rng.random()
            if rr < 0.07:
                tags.insert(rng.randrange(len(tags) + 1), ["e", "zz"])
            elif rr < 0.12:
                tags.insert(rng.randrange(len(tags) + 1), ["e"])
            elif rr < 0.17:
                tags.append(["e", tgt["id"].upper()])
            elif rr < 0.25:
                tags.append(["p", tgt["pubkey"]])
            who = tgt["pubkey"] if rng.random() < 0.65 else rng.choice(AUTH)
            # (only a well-formed key can sign a deletion: an event with any other pubkey is never admitted)
            delegators = [t[1] for t in tgt["tags"] if t and t[0] == "delegation" and len(t) > 1 and t[1] in AUTH]
            if delegators and rng.random() < 0.6:
                who = delegators[0]          # the delegator tries to delete the delegatee's event
            evs.append({"id": gen.mkid(rng), "pubkey": who, "created_at": tgt["created_at"] + rng.choice([-1, 0, 1, 1, 2, 100]),
                        "kind": 5, "tags": tags, "content": "", "sig": "00" * 64})
    return evs


# ---- deletion requests as real clients write them -------------------------------------------------------------------------
# NIP-09 says what a relay must do with the e (and a) references of a kind-5 event; everything else a client puts next to them
# is advisory: "k" tags naming the kinds of the targets, p tags, an alt text, relay hints and markers inside the e tags, and
# whatever single-letter tag a client invents. The property does not depend on any of it: an own, older, e-referenced event goes
# whatever the other tags say (present or not, right or wrong, in whatever order, repeated, unparsable), and nothing else goes.
# Targets are of several different kinds at once, because that is when the advisory tags carry several values.
CLIENT_KINDS = [1, 1, 1, 6, 7, 7, 4, 16, 1063, 1111, 9735, 30023, 30000, 0, 3, 10002, 40, 42, 1984, 9999, 10000, 40000, 65535]
# values that are no kind number, or that only a lenient parser takes for one (blanks, sign, underscore, leading zeros, non-ASCII
# digits), or that are out of the 16-bit range
K_ODD = ["", " ", "abc", "-1", "+7", "1.0", "1e0", " 1", "7 ", "0x1", "1_0", "007", "\u0661", "65536", "4294967296", "99999999999999999999", "-0",
             "1,7", "kind:1", "null"]
LETTERS = "abcdfghijlmnoqrstuvwxyzABCDEKPQ"


def k_tags(rng, target_kinds, style):
    """the "k" tags of one deletion request; target_kinds = kinds of the referenced events (with repetitions)"""
    distinct = sorted(set(target_kinds))
    others = [k for k in (0, 1, 5, 6, 7, 1063, 9735, 30023, 65535) if k not in distinct]
    if style == "none":
        ks = []
    elif style == "exact":                      # one per distinct kind
        ks = list(distinct)
    elif style == "per_target":                 # one per e tag: duplicates
        ks = list(target_kinds)
    elif style == "subset":                     # the client names only some of the kinds
        ks = rng.sample(distinct, rng.randint(1, max(1, len(distinct) - 1)))
    elif style == "wrong":                      # none of the named kinds is the kind of a target
        ks = rng.sample(others, rng.randint(1, 3))
    elif style == "superset":
        ks = distinct + rng.sample(others, rng.randint(1, 3))
    elif style == "garbage":                    # nothing parsable
        ks = [rng.choice(K_ODD) for _ in range(rng.randint(1, 3))]
    else:                                       # "mixed": right, wrong and unparsable values together
        ks = distinct + rng.sample(others, rng.randint(0, 2)) + [rng.choice(K_ODD) for _ in range(rng.randint(1, 2))]
    order = rng.choice(["asc", "desc", "shuffled", "as_is"])
    if order == "asc":
        ks.sort(key=lambda k: (not isinstance(k, int), k if isinstance(k, int) else 0))
    elif order == "desc":
        ks.sort(key=lambda k: (not isinstance(k, int), -k if isinstance(k, int) else 0))
    elif order == "shuffled":
        rng.shuffle(ks)
    tags = []
    for k in ks:
        t = ["k", str(k) if isinstance(k, int) else k]
        if rng.random() < 0.08:
            t.append(rng.choice(["", "x", "1"]))    # a further item after the value
        tags.append(t)
    if style != "none" and rng.random() < 0.1:
        tags.insert(rng.randrange(len(tags) + 1), ["k"])   # bare
    return tags


K_STYLES = ["none", "exact", "exact", "per_target", "subset", "wrong", "superset", "superset", "garbage", "mixed", "mixed"]


def gen_client_history(rng, n_regular, n_deletions, report=None):
    """regular events of many kinds by three authors, then (interleaved with a few more regular events) deletion requests whose
    e references point at own events of several different kinds (also at foreign and unknown ones) and which carry the advisory
    tags clients add. Sizes are generous on general grounds: up to 6 references of up to 6 distinct kinds and up to 8 k values per
    request, so that anything that switches on "more than one / more than a few" values is reached."""
    evs = []
    t = T0

    def regular():
        nonlocal t
        t += rng.choice([0, 1, 1, 2, 3])
        k = rng.choice(CLIENT_KINDS)
        tags = []
        if 30000 <= k < 40000:
            tags.append(["d", rng.choice(["x", "y", ""])])
        prev = [x for x in evs if x["kind"] != 5]
        if prev and rng.random() < 0.4:
            o = rng.choice(prev)
            tags.append(["e", o["id"]] + rng.choice([[], ["wss://r.example"], ["", "reply"]]))
            tags.append(["p", o["pubkey"]])
            if k in (6, 7, 16, 9735) and rng.random() < 0.5:
                tags.append(["k", str(o["kind"])])          # reactions / reposts carry a k tag of their own (NIP-25 / NIP-18)
        if rng.random() < 0.2:
            tags.append(["t", rng.choice(["a", "ab", "nostr"])])
        return {"id": gen.mkid(rng), "pubkey": rng.choice(AUTH), "created_at": t, "kind": k, "tags": tags,
                "content": rng.choice(["", "hello", "+"]), "sig": "00" * 64}

    for _ in range(n_regular):
        evs.append(regular())
    for _ in range(n_deletions):
        if rng.random() < 0.35:
            evs.append(regular())
        stored = [x for x in evs if x["kind"] != 5]
        who = rng.choice(stored)["pubkey"] if rng.random() < 0.85 else rng.choice(AUTH)
        own = [x for x in stored if x["pubkey"] == who]
        # references: own events chosen kind by kind first (so that a request with n references tends to span n kinds), then anything
        want = rng.choice([1, 2, 2, 3, 3, 4, 5, 6])
        by_kind = {}
        for x in own:
            by_kind.setdefault(x["kind"], []).append(x)
        kinds_first = list(by_kind)
        rng.shuffle(kinds_first)
        targets = [rng.choice(by_kind[k]) for k in kinds_first[:want]]
        while len(targets) < want and own and rng.random() < 0.7:
            targets.append(rng.choice(own))
        tags = []
        for x in targets:
            tags.append(["e", x["id"]] + rng.choice([[], [], ["wss://r.example"], ["", "mention"]]))
        target_kinds = [x["kind"] for x in targets]
        if rng.random() < 0.3:                  # somebody else's event among the references (its kind may or may not be named)
            foreign = [x for x in stored if x["pubkey"] != who]
            if foreign:
                f = rng.choice(foreign)
                tags.append(["e", f["id"]])
                if rng.random() < 0.5:
                    target_kinds.append(f["kind"])
        if rng.random() < 0.15:
            tags.append(["e", gen.mkid(rng)])   # never seen
        style = rng.choice(K_STYLES)
        if not target_kinds and style in ("exact", "per_target", "subset"):
            style = "wrong"
        ktags = k_tags(rng, target_kinds, style)
        extra = []
        if rng.random() < 0.35:
            for x in rng.sample(stored, min(len(stored), rng.choice([1, 2]))):
                a = address(x)
                if a is not None:
                    extra.append(["a", "%d:%s:%s" % (a[1], a[0], a[2] or "")])
        if rng.random() < 0.3:
            extra.append(["p", rng.choice(stored)["pubkey"]])
        if rng.random() < 0.3:
            extra.append(["alt", "deletion request"])
        for _ in range(rng.choice([0, 0, 0, 1, 2])):
            # any other single-letter tag, with values that look like kinds, ids, keys or words
            v = rng.choice([str(rng.choice(CLIENT_KINDS)), rng.choice(stored)["id"], who, "x", ""])
            extra.append([rng.choice(LETTERS), v])
        layout = rng.choice(["e_k_rest", "k_first", "shuffled", "shuffled"])
        if layout == "e_k_rest":
            tags = tags + ktags + extra
        elif layout == "k_first":
            tags = ktags + tags + extra
        else:
            tags = tags + ktags + extra
            rng.shuffle(tags)
        newest = max([x["created_at"] for x in targets] or [t])
        # mostly after every target; sometimes in between, so that some references are not older than the request
        when = newest + rng.choice([1, 1, 2, 5, 100]) if rng.random() < 0.85 else rng.choice([x["created_at"] for x in targets] or [t]) + rng.choice([0, 1])
        evs.append({"id": gen.mkid(rng), "pubkey": who, "created_at": when, "kind": 5, "tags": tags,
                    "content": rng.choice(["", "posted by accident"]), "sig": "00" * 64})
        if report is not None:
            report.count("client_deletions_k_" + style)
            report.count("client_deletions_target_kinds_%d" % min(len({x["kind"] for x in targets}), 4))
            nk = len({tg[1] for tg in ktags if len(tg) > 1 and tg[1].isascii() and tg[1].isdigit() and int(tg[1]) < 65536})
            report.count("client_deletions_distinct_valid_k_%s" % (nk if nk < 3 else "3+"))
    return evs


# ---- references that are text, not ids ------------------------------------------------------------------------------------
# The value of an e tag is whatever text the client sent: nothing before the storage layer demands that it be an id, and it is
# stored verbatim. A backend that puts such a value into the TEXT of a statement, a pattern or a format string instead of passing
# it as a datum lets the client rewrite the deletion. The values below are built the way such text is always built: leave the
# context the value is believed to sit in (a quoted string, a hex / blob literal x'..', a LIKE pattern, a double-quoted name, each
# bare or inside one or two parentheses — a function call, an IN list), add a clause of one's own, and make the rest of the
# original text harmless: comment it out, or re-open the very context that was left so that it still parses. Whatever a deletion
# carrying such a value does — be refused, or be accepted with the value ignored — it may remove only own, older events named
# by a well-formed id: the frame and completeness clauses of run_history are the oracle, unchanged.
QUOTE_CONTEXTS = [
    # (name, what closes the context, what re-opens it)
    ("string", "'", "'"),
    ("blob", "'", "x'00"),
    ("blob_empty", "'", "x'"),
    ("like", "%'", "'%"),
    ("name", "\"", "\""),
    ("escaped", "\\'", "'"),
    ("doubled", "''", "'"),
    ("nul", "\x00'", "'"),
    ("bare", "", ""),
]
# heads: the value may have to look like the beginning of a proper literal for the text to parse (an even number of hex digits)
# join / clause: every way of widening or narrowing a WHERE clause, or of lengthening a list
JOINS = [" OR ", " OR ", " OR ", " or ", "\nOR\t", " OR NOT ", " AND ", " AND NOT ", "||", " UNION SELECT ", "; ", ", ", ","]
COMMENTS = [" --", "--", " -- ", " /*", "/*", " #", ";--", "\x00"]
# text that means something to Python (%-formatting, str.format, escapes) or to a pattern language rather than to SQL
PY_VALUES = ["%s", "%d", "%(id)s", "%%", "%", "{}", "{0}", "{id}", "{{", "}", "\\x00", "\\", "\\\\", "\n", "\r\n", "\t", "\x00", "*", "?", ".*", "[", "$",
             "None", "null", "NaN", "0", "-1", " ", ""]


def hostile_value(rng, own, foreign, who, report=None):
    """one e-tag value that is text rather than an id. own / foreign: stored events of the deletion's author / of the others"""
    r = rng.random()
    if r < 0.12:
        from lib.qscen import ADV_VALUES       # C01's pool of values that are adversarial for SQL text

        if report is not None:
            report.count("hostile_values_pool_sql")
        return rng.choice(ADV_VALUES)
    if r < 0.22:
        if report is not None:
            report.count("hostile_values_pool_python")
        v = rng.choice(PY_VALUES)
        # alone, or right after something that looks like an id (never exactly one stray character after an own id: whether
        # that still names the id is a reading the property leaves open — the LMDB backend says yes, the SQL backend refuses)
        if own + foreign and len(v) != 1 and rng.random() < 0.4:
            v = rng.choice(own + foreign)["id"] + v
        return v
    def some(pool):
        return rng.choice(pool)["id"] if pool else gen.mkid(rng)

    # head: the text may have to begin like a proper literal for the whole to parse (an even number of hex digits, a whole id)
    head = rng.choice(["", "", "00", "00", "ab", "0", some(own), some(foreign), gen.mkid(rng), some(own).upper(), some(own)[:40]])
    name, close, reopen = rng.choice(QUOTE_CONTEXTS)
    depth = rng.choice([0, 1, 1, 1, 2])
    join = rng.choice(JOINS)
    if report is not None:
        report.count("hostile_values_context_" + name)
        report.count("hostile_values_depth_%d" % depth)
    if join.strip() in (",", ";", "||", "UNION SELECT"):
        # a further list element / operand / statement: a literal naming somebody else's event or an own one that is not referenced
        clause = rng.choice(["x'%s'" % some(foreign), "x'%s'" % some(own), "'%s'" % some(foreign), "id FROM events", "DELETE FROM events",
                             "DELETE FROM tags", "1", "''"])
        if clause.endswith("'") and close.endswith("'") and rng.random() < 0.6:
            # the closing quote of the original text ends the new literal: nothing is left over
            if report is not None:
                report.count("hostile_values_tail_list_element")
            return head + close + join + clause[:-1]
    else:
        # every column of the events table, in clauses that hold for all rows, for some rows, for rows of other authors
        clause = rng.choice(["1=1", "1", "true", "kind = 1", "kind >= 0", "kind IS NOT NULL", "id IS NOT NULL", "created_at > 0",
                             "pubkey IS NOT NULL", "id NOT IN (x'00')", "pubkey != x'%s'" % who, "pubkey <> x''", "content = ''",
                             "id = x'%s'" % some(foreign), "id = x'%s'" % some(own), "id IN (x'%s', x'%s')" % (some(foreign), some(own)),
                             "hex(id) LIKE '%'", "id LIKE '%'", "''=''"])
    tail_kind = rng.choice(["comment", "reopen", "reopen", "none"])
    if tail_kind == "comment":
        tail = rng.choice(COMMENTS)
    elif tail_kind == "reopen":
        # one more clause, which ends inside the context that was left, at the parenthesis depth that was left
        if depth:
            opener = rng.choice(["id IN ", "id NOT IN ", "id NOT IN ", "'' IN ", "x'' = ", "'' = ", "1 = length", "'' = hex"])
        else:
            opener = rng.choice(["x'' = ", "'' = ", "id != ", "'' || "])
        tail = rng.choice([" OR ", " AND ", " OR NOT ", " AND NOT "]) + opener + "(" * depth + reopen
    else:
        tail = ""
    if report is not None:
        report.count("hostile_values_tail_" + tail_kind)
    return head + close + ")" * depth + join + clause + tail


def gen_hostile_history(rng, n_regular, n_deletions, report=None):
    """regular events by three authors, then kind-5 events whose e tags hold hostile text — alone, several at once, and next to
    well-formed references to own older / own newer / foreign / unknown events. Several deletions per history (on an
    implementation that refuses or ignores the text the store hardly changes, so every one of them meets a full store)."""
    evs = []
    t = T0
    for _ in range(n_regular):
        t += rng.choice([0, 1, 1, 2])
        k = rng.choice([1, 1, 1, 7, 4, 6, 30000, 10002, 0])
        tags = [["d", rng.choice(["x", "y"])]] if k == 30000 else []
        if evs and rng.random() < 0.3:
            o = rng.choice(evs)
            tags += [["e", o["id"]], ["p", o["pubkey"]]]
        if rng.random() < 0.2:
            tags.append(["t", rng.choice(["a", "ab", "'"])])
        evs.append({"id": gen.mkid(rng), "pubkey": rng.choice(AUTH), "created_at": t, "kind": k, "tags": tags,
                    "content": rng.choice(["", "hello", "it's"]), "sig": "00" * 64})
    for _ in range(n_deletions):
        stored = [x for x in evs if x["kind"] != 5]
        who = rng.choice(stored)["pubkey"] if rng.random() < 0.9 else rng.choice(AUTH)
        own = [x for x in stored if x["pubkey"] == who]
        foreign = [x for x in stored if x["pubkey"] != who]
        hostile = [["e", hostile_value(rng, own, foreign, who, report)] for _ in range(rng.choice([1, 1, 1, 2, 3]))]
        good = []
        shape = rng.choice(["alone", "alone", "with_own", "with_own", "with_own", "with_foreign", "with_mixed", "with_mixed"])
        if shape in ("with_own", "with_mixed") and own:
            good += [["e", x["id"]] for x in rng.sample(own, min(len(own), rng.choice([1, 1, 2, 3])))]
        if shape in ("with_foreign", "with_mixed") and foreign:
            good += [["e", x["id"]] for x in rng.sample(foreign, min(len(foreign), rng.choice([1, 2])))]
        if shape == "with_mixed" and rng.random() < 0.5:
            good.append(["e", gen.mkid(rng)])
        if not good:
            shape = "alone"
        tags = good + hostile
        if rng.random() < 0.7:
            rng.shuffle(tags)
        if rng.random() < 0.2:
            # the same text where other references live: relay hint of a good e tag, an address, a p / k tag
            v = hostile[0][1]
            tags.append(rng.choice([["e", rng.choice(stored)["id"], v], ["a", "1:%s:%s" % (who, v)], ["a", v], ["p", v], ["k", v]]))
        when = t + rng.choice([1, 1, 2, 100]) if rng.random() < 0.85 else rng.choice(stored)["created_at"]
        evs.append({"id": gen.mkid(rng), "pubkey": who, "created_at": when, "kind": 5, "tags": tags,
                    "content": "", "sig": "00" * 64})
        if report is not None:
            report.count("hostile_deletions")
            report.count("hostile_deletions_" + shape)
    return evs


def run_history(report, drv, store, evs, tag, served=False):
    """served: after every kind-5 event also ask for every event that has to stay, by get_event and by a query by id"""
    store.reset()
    lines = [{"op": "kv.reset"}] if store.backend == "kv" else [{"op": "sql.reset"}]
    expect = ["ok"]
    by_id = {}
    in_model = True
    prefix = []
    for n in evs:
        prefix.append(n)
        before = store.ids()
        res = store.add(n)
        after = store.ids()
        by_id.setdefault(n["id"], n)
        me = model_event(n)
        if me is None:
            in_model = False
        if in_model:
            if store.backend == "kv":
                lines.append({"op": "kv.task", "task": {"t": "add", "ev": me}})
                expect.append(None)
                lines.append({"op": "kv.dump"})
                expect.append(store.dump())
            else:
                lines.append({"op": "sql.add", "ev": me})
                expect.append("raises" if res["exc"] else ("ok:true" if res["ok"] else "ok:false"))
                lines.append({"op": "sql.dump"})
                expect.append(store.dump())
        payload = {"backend": store.backend, "events": list(prefix)}
        if served:
            payload["served"] = True
        removed = {i for i in before - after if i != n["id"]}
        if n["kind"] != 5:
            # (a replaceable event may supersede the older versions of its own address: C09's business)
            foreign = {r for r in removed if address(n) is None or r not in by_id or address(by_id[r]) != address(n)}
            if foreign:
                report.property_failure("%s: a kind-%d event removed %d events" % (store.backend, n["kind"], len(foreign)), payload, None)
            continue
        refs = ref_ids(n)
        coords = {tuple(t[1].split(":", 2)) for t in n["tags"] if len(t) >= 2 and t[0] == "a" and isinstance(t[1], str) and t[1].count(":") >= 2}
        # frame: whatever goes was published by the deletion's author and is referenced by it (by id, or — NIP-09 allows it, the
        # relay does not do it — by its address)
        for r in removed:
            ev = by_id.get(r)
            a = address(ev) if ev else None
            by_addr = a is not None and (str(a[1]), a[0], a[2] or "") in coords
            if ev is None or ev["pubkey"] != n["pubkey"] or not (r in refs or by_addr):
                report.property_failure(
                    "%s: deletion %s by %s.. removed %s (author %s.., referenced: %s)"
                    % (store.backend, n["id"][:8], n["pubkey"][:6], r[:8], ev["pubkey"][:6] if ev else "?", r in refs),
                    payload, None)
        if served:
            # what the deletion had no right to remove is still there for a reader: by get_event (/e/<id>) and by a query by id
            stay = sorted(i for i in before & after if i in by_id
                          and not (by_id[i]["pubkey"] == n["pubkey"] and i in refs))
            answered = {e.id for e in store.query([{"ids": stay}])} if stay else set()
            for i in stay:
                missing = [w for w, there in (("get_event", store.get(i) is not None), ("a query by id", i in answered)) if not there]
                if missing:
                    report.property_failure(
                        "%s: after deletion %s by %s.., event %s (author %s.., referenced: %s) is stored but not served by %s"
                        % (store.backend, n["id"][:8], n["pubkey"][:6], i[:8], by_id[i]["pubkey"][:6], i in refs, " nor by ".join(missing)),
                        payload, None)
            report.count("deletions_%s_%s" % ("refused" if res["exc"] else "accepted" if res["ok"] else "not_new", store.backend))
        # completeness (only when the deletion was accepted as a new event)
        if res["ok"]:
            owed = {i for i in before if i in by_id and by_id[i]["pubkey"] == n["pubkey"] and i in refs
                    and by_id[i]["created_at"] < n["created_at"] and i != n["id"]}
            left = owed & after
            if left:
                cls = None
                if store.backend == "kv":
                    if malformed(n):
                        cls = "kv-deletion-aborted-by-malformed-ref"
                    elif all(by_id[i]["created_at"] == n["created_at"] - 1 and i.startswith("ff") for i in left):
                        cls = "kv-deletion-seek-sentinel"
                report.property_failure(
                    "%s: accepted deletion %s left %d referenced older event(s) of its own author stored"
                    % (store.backend, n["id"][:8], len(left)), payload, cls)
            # no longer served by any path
            for i in owed - after:
                if store.get(i) is not None:
                    report.property_failure("%s: deleted event %s still served by get_event" % (store.backend, i[:8]), payload, None)
                got = store.query([{"ids": [i]}])
                if got:
                    report.property_failure("%s: deleted event %s still returned by a query" % (store.backend, i[:8]), payload, None)
            report.count("deletions_accepted_" + store.backend)
            if owed:
                report.count("deletions_with_owed_targets_" + store.backend)
    got = drv.batch(lines)
    for i, (g, e) in enumerate(zip(got, expect)):
        if e is not None and g != e:
            report.correspondence_break("%s add_event (kind 5)" % store.backend,
                                        {"backend": store.backend, "events": evs, "line": lines[i]}, summarize(e), summarize(g))
            break
    report.case((store.backend, tag, repr([(e["kind"], e["created_at"], e["pubkey"][:4], e["tags"]) for e in evs])),
                nontrivial=any(e["kind"] == 5 for e in evs),
                sample={"backend": store.backend, "events": [(e["kind"], e["created_at"], e["pubkey"][:4], len(e["tags"])) for e in evs[:8]]})
    report.count("histories_" + store.backend)


def summarize(x):
    if isinstance(x, list) and len(x) > 10:
        return {"n": len(x), "head": x[:4]}
    if isinstance(x, dict):
        return {k: summarize(v) for k, v in x.items()}
    return x


def run(report, tier, seed):
    rng = random.Random(seed)
    drv = common.Driver()
    stores = [KVStore(), SQLStore()]
    report.coverage["rule"] = (
        "histories of 3-10 events over 3 authors (deletions also with no usable e reference: none, only a / p tags, only malformed ids): regular events (ids starting 00/ff/random, 4 timestamps) and kind-5 "
        "deletions referencing own / foreign / unknown / several / malformed ('zz', bare e tag, upper-case hex) ids, "
        "created -1/0/+1/+2/+100 s relative to the target, events published under a NIP-26 delegation tag and deletions signed by "
        "the delegator (who is not the author), in generated arrival order, on both backends; non-trivial = "
        "the history contains a deletion; "
        "client-shaped deletion requests: 4-12 regular events of ~20 kinds (regular, replaceable, addressable) by 3 authors, then 1-4 "
        "kind-5 events with 1-6 e references (relay hints / markers) to own events of up to 6 different kinds, foreign and unknown ids, "
        "and advisory tags: NIP-09 k tags (none / exactly the target kinds / one per target / a subset / only wrong kinds / a superset / "
        "unparsable / mixed; ascending, descending, shuffled; bare; extra items), a coordinates, p, alt, arbitrary single-letter tags, "
        "in e-k-rest, k-first or shuffled layout, created after all / between the targets; "
        "references that are hostile text: 4-9 regular events by 3 authors, then 4-8 kind-5 events whose e tags hold 1-3 values built to "
        "leave a quoting context (string, x'..' blob literal, LIKE pattern, double-quoted name, escaped / doubled / NUL-preceded quote, bare; "
        "inside 0-2 parentheses), add a clause (OR / AND / NOT over every column, a further list element naming a foreign or an unreferenced own id, "
        "a second statement, UNION) and neutralise the rest (comment, re-opened context, nothing), C01's adversarial SQL values and Python "
        "format / escape / pattern text; alone, or next to well-formed references to own / foreign / unknown ids, also repeated in relay-hint, "
        "a, p and k positions; after each such deletion every event that has to stay is also read back by get_event and by a query by id")
    report.assumptions += ["validators disabled (synthetic unsigned events)"]
    try:
        for e in report.known:
            r = common.load_finding_replay(e)
            for st in stores:
                if st.backend == r["backend"]:
                    run_history(report, drv, st, r["events"], "finding:" + e["id"])
        for i in range(150 if tier == "quick" else 3000):
            evs = gen_history(rng, rng.randint(3, 10))
            for st in stores:
                run_history(report, drv, st, evs, i)
        # deletion requests with the advisory tags of real clients (k, a, p, alt, single letters) over targets of several kinds
        for i in range(70 if tier == "quick" else 1500):
            evs = gen_client_history(rng, rng.randint(4, 12), rng.randint(1, 4), report)
            for st in stores:
                run_history(report, drv, st, evs, "client:%d" % i)
            report.count("client_histories")
        # e tags whose value is hostile text rather than an id. Volume on general grounds: nine quoting contexts x three parenthesis
        # depths x four ways of ending the text = ~100 shapes of which an implementation that splices text is open to a few, so
        # several hundred values per run (4-8 deletions with 1-3 values each per history)
        for i in range(60 if tier == "quick" else 1500):
            evs = gen_hostile_history(rng, rng.randint(4, 9), rng.randint(4, 8), report)
            for st in stores:
                run_history(report, drv, st, evs, "hostile:%d" % i, served=True)
            report.count("hostile_histories")
    finally:
        for st in stores:
            st.close()
        drv.close()


def replay(report, path):
    import json

    data = json.load(open(path))
    drv = common.Driver()
    stores = {"kv": KVStore(), "sql": SQLStore()}
    try:
        for it in (data.get("violations") or []) + (data.get("correspondence_breaks") or []):
            r = it.get("replay") or it.get("input")
            if "backend" in r:
                run_history(report, drv, stores[r["backend"]], r["events"], "replay", served=bool(r.get("served")))
    finally:
        for st in stores.values():
            st.close()
        drv.close()
