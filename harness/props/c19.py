"""
C19 — No client input can crash, wedge or leak a connection, or disturb others.
Tie: (a) the real web.validate_message vs the Lean `gate` on generated JSON values; (b) the real except-ladder of
start_client vs the Lean `ladder` / `eventLadder`, by injecting each exception class at storage.subscribe /
unsubscribe / add_event / ws_recv and observing what the connection does; (c) for every frame of the grammar the
kind of answer observed must be one the Lean `allowed` table lists for its command.
Search: a grammar of well-formed commands with typed mutations (every JSON type at every position of
EVENT/REQ/CLOSE/AUTH and of event and filter objects), raw non-JSON texts, deep and large values, validly signed
events with hostile field types, through the real start_client on both backends, with and without NIP-42; after
each hostile frame the same connection (if it was kept open) and a second, well-behaved connection must still get
a REQ answered, a fresh valid EVENT accepted and that event pushed to a watcher; no exception may escape the
handler; closing is clean; afterwards the registry is empty and no task of the connection is left.  A subscriber that stops
reading its socket: while stored answers are owed to it (stalled_reader), and while thousands of live pushes are owed to it
(stalled_live_flood: events x live subscriptions); the others are served throughout and after it has gone.  Connections whose
state changes in mid-life (midlife_sessions): with NIP-42 on, AUTH (valid, invalid, repeated, as another identity) arrives at
random points of sessions of REQ / CLOSE / EVENT / disconnect on several connections; after every step the registry holds exactly
what the clients opened and did not close, pushes go to exactly the open matching subscriptions, nothing goes to an ended connection.
Slow consumers that resume (slow_consumer_resumes): a client stops reading while stored answers, live pushes, an OK or a NOTICE are
owed to it, stays like that for 1500 s of the loop's clock (advanced by the harness), reads again and keeps using the connection:
the relay has closed the connection, or every later REQ gets its EOSE, every later EVENT its OK, later live events arrive.
"""
import asyncio
import copy
import json
import random
from collections import Counter

from lib import common
from lib.proto import Relay, Conn, DISCONNECT

THEOREMS_TIED = ["C19_gate_spec", "C19_gate_rejects_non_arrays", "C19_ladder_no_escape", "C19_own_errors_continue",
                 "C19_event_always_answered", "C19_allowed_nonempty", "C19_req_not_silent", "C19_open_conn_never_wedged",
                 "C19_others_undisturbed", "C19_disconnect_drops_all"]

VALS = [None, True, False, 0, -1, 1.5, 2 ** 70, -2 ** 70, 1e308, "", "x", "0" * 64, "é\u0000\ud83d\ude00", [], [[]], [[[]]], {}, {"a": 1},
        ["x"], ["x", "y"], [1], [None], {"ids": 1}]
URL = "ws://localhost:6969"
T0 = 1700000000


def rand_json(rng, depth=0):
    r = rng.random()
    if depth > 3 or r < 0.45:
        return rng.choice([None, True, 0, 1.5, "", "x", "REQ", "EVENT", "CLOSE", "AUTH", "req", 7, -3])
    if r < 0.8:
        return [rand_json(rng, depth + 1) for _ in range(rng.choice([0, 1, 2, 2, 3, 4]))]
    return {rng.choice(["a", "ids", "kinds", "id"]): rand_json(rng, depth + 1) for _ in range(rng.randint(0, 2))}


def gate_corr(report, drv, rng, n):
    from nostr_relay import web

    msgs = [rand_json(rng) for _ in range(n)]
    msgs += [[c, 1] for c in ("EVENT", "REQ", "CLOSE", "AUTH", "NOTICE", "OK", "EOSE", "COUNT", "event", "")]
    msgs += [[c] for c in ("EVENT", "REQ", "CLOSE", "AUTH")] + [[["REQ"], 1], [{"REQ": 1}, 1], [None, None], ["REQ", None, None, None]]
    res = drv.batch([{"op": "hd.gate", "msg": m} for m in msgs])
    passed = 0
    for m, r in zip(msgs, res):
        got = bool(web.validate_message(m))
        mv = r["cmd"] != "none"
        if got != mv or (got and r["cmd"] != m[0]):
            report.correspondence_break("web.validate_message", {"message": m}, got, r)
        passed += got
        report.case(("gate", json.dumps(m)), nontrivial=got, sample={"message": m, "passes": got})
    report.count("gate_messages", len(msgs))
    report.count("gate_passed", passed)


# ------------------------------------------------------------------------------------------------------------
def exc_instances():
    import falcon
    from nostr_relay import web
    from nostr_relay.errors import StorageError, AuthenticationError

    def cce():
        try:
            return web.ConnectionClosedError(None, None)
        except TypeError:
            return web.ConnectionClosedError("closed")

    def cco():
        try:
            return web.ConnectionClosedOK(None, None)
        except TypeError:
            return web.ConnectionClosedOK("closed")

    def jde():
        try:
            web.json_loads("{")
        except Exception as e:
            return e

    return [
        ("StorageError", lambda: StorageError("injected")),
        ("AuthenticationError", lambda: AuthenticationError("injected")),
        ("WebSocketDisconnected", lambda: falcon.WebSocketDisconnected()),
        ("ConnectionClosedError", cce),
        ("ConnectionClosedOK", cco),
        ("JSONDecodeError", jde),
        ("TimeoutError", lambda: asyncio.TimeoutError()),
        ("ValueError", lambda: ValueError("injected")),
        ("KeyError", lambda: KeyError("injected")),
        ("TypeError", lambda: TypeError("injected")),
        ("RecursionError", lambda: RecursionError("injected")),
        ("MemoryError", lambda: MemoryError("injected")),
        ("UnicodeDecodeError", lambda: UnicodeDecodeError("utf-8", b"\xff", 0, 1, "injected")),
        ("OSError", lambda: OSError("injected")),
        ("BaseException", lambda: asyncio.CancelledError()),
    ]


def observe(conn, n0):
    """what the connection did after the injected fault: the ladder's outcome as the model names it"""
    fr = conn.frames(n0)
    notice = any(isinstance(f, list) and f and f[0] == "NOTICE" for f in fr)
    if conn.exc is not None:
        return "escape"
    if conn.done:
        return "end" if conn.closed_with is None else "end:%d" % conn.closed_with
    return "continue+notice" if notice else "continue"


def ladder_corr(report, drv, backend):
    for name, make in exc_instances():
        for site in ("subscribe", "unsubscribe", "recv", "add_event"):
            relay = Relay(backend)
            try:
                st = relay.storage
                other = Conn(relay)
                other.send(["REQ", "w", {"kinds": [1]}])
                c = Conn(relay)
                fired = {"n": 0}

                def boom(*a, **k):
                    fired["n"] += 1
                    raise make()

                if site == "subscribe":
                    orig = st.subscribe

                    async def sub(client_id, sub_id, *a, **k):
                        if sub_id == "boom":
                            boom()
                        return await orig(client_id, sub_id, *a, **k)
                    st.subscribe = sub
                    msg = ["REQ", "boom", {"kinds": [1]}]
                elif site == "unsubscribe":
                    orig_u = st.unsubscribe

                    async def unsub(client_id, sub_id=None):
                        if sub_id == "boom":
                            boom()
                        return await orig_u(client_id, sub_id)
                    st.unsubscribe = unsub
                    msg = ["CLOSE", "boom"]
                elif site == "add_event":
                    orig_a = st.add_event

                    async def add(ev, **k):
                        if isinstance(ev, dict) and ev.get("content") == "boom":
                            boom()
                        return await orig_a(ev, **k)
                    st.add_event = add
                    msg = ["EVENT", relay.signed_event(KEYS[0], content="boom")]
                n0 = len(c.out)
                if site == "recv":
                    c.inbox.put_nowait(("RAISE", make()))
                    relay.settle()
                else:
                    c.send(msg)
                got = observe(c, n0)
                if not c.done:
                    n1 = len(c.out)
                    c.send(["REQ", "probe", {"kinds": [99]}])
                    if not any(isinstance(f, list) and f[0] == "EOSE" for f in c.frames(n1)):
                        report.property_failure("%s: after %s at %s the connection was kept open but no longer answers a REQ"
                                                % (backend, name, site), {"backend": backend, "exc": name, "site": site}, None)
                if site == "add_event":
                    mv = drv.call({"op": "hd.eventLadder", "exc": name})
                    oks = [f for f in c.frames(n0) if isinstance(f, list) and f[0] == "OK"]
                    ok_agrees = (len(oks) == 0) if mv[0] is None else (len(oks) == 1 and oks[0][2] is mv[0])
                    if got != mv[1] or not ok_agrees:
                        report.correspondence_break("%s start_client EVENT branch: %s from add_event" % (backend, name),
                                                    {"backend": backend, "exc": name, "site": site}, [got, oks], mv)
                else:
                    mv = drv.call({"op": "hd.ladder", "exc": name})
                    if got != mv:
                        report.correspondence_break("%s start_client except-ladder: %s at %s" % (backend, name, site),
                                                    {"backend": backend, "exc": name, "site": site}, got, mv)
                # the property: nothing escapes (BaseException is the event loop's own cancellation, not client input)
                if name != "BaseException" and c.exc is not None:
                    report.property_failure("%s: %s raised at %s escaped the connection handler" % (backend, name, site),
                                            {"backend": backend, "exc": name, "site": site}, None)
                # the other connection is not disturbed
                n2 = len(other.out)
                pub = relay.signed_event(KEYS[1], content="after %s %s" % (name, site))
                ok = other.send_event(pub)
                pushed = any(isinstance(f, list) and f[0] == "EVENT" and f[2]["id"] == pub["id"] for f in other.frames(n2))
                if not ok or not pushed:
                    report.property_failure("%s: after %s at %s another connection's EVENT was %s" % (
                        backend, name, site, "refused" if not ok else "not pushed to its own matching subscription"),
                        {"backend": backend, "exc": name, "site": site}, None)
                if not c.done:
                    c.close()
                if c.exc is not None and name != "BaseException":
                    report.property_failure("%s: closing after %s escaped: %r" % (backend, name, c.exc), {"backend": backend, "exc": name}, None)
                other.close()
                if any(v for v in relay.open_subscriptions().values()):
                    report.property_failure("%s: subscriptions survive their connections after %s at %s" % (backend, name, site),
                                            {"backend": backend, "exc": name, "site": site}, None)
                report.case(("ladder", backend, name, site), nontrivial=True, sample={"exc": name, "site": site, "outcome": got})
                report.count("ladder_" + got.split(":")[0])
            finally:
                relay.close()


# ------------------------------------------------------------------------------------------------------------
def odd_signed(relay, sk, field, value):
    """a validly signed event one of whose fields has a hostile type: the id and signature cover it"""
    from aionostr.event import Event

    kw = dict(pubkey=sk.public_key.hex(), content="odd %s" % field, kind=1, tags=[], created_at=T0 + 77)
    kw[field] = value
    try:
        ev = Event(**kw)
        ev.sign(sk.hex())
        return ev.to_json_object()
    except Exception:
        return None


def grammar(rng, relay, keys, auth):
    good = relay.signed_event(keys[0], kind=1, content="good")
    out = []
    for v in VALS:
        out.append(("whole", v))
        out.append(("cmd-pos", [v, "x"]))
        out.append(("req-filter", ["REQ", "s", v]))
        out.append(("req-2nd-filter", ["REQ", "s", {"kinds": [1]}, v]))
    for cmd in ("REQ", "CLOSE", "EVENT", "AUTH"):
        for v in VALS:
            out.append(("%s-arg" % cmd, [cmd, v]))
    for fld in ("ids", "authors", "kinds", "since", "until", "limit", "#e", "#p", "search", "#ee", "tags", "x"):
        for v in VALS:
            out.append(("filter-field", ["REQ", "s", {fld: v}]))
    for target in ("EVENT", "AUTH"):
        for fld in ("id", "pubkey", "created_at", "kind", "tags", "content", "sig"):
            for v in VALS:
                e = copy.deepcopy(good)
                e[fld] = v
                out.append(("%s-field" % target.lower(), [target, e]))
            e = copy.deepcopy(good)
            del e[fld]
            out.append(("%s-missing" % target.lower(), [target, e]))
    for v in VALS:
        e = copy.deepcopy(good)
        e["tags"] = [v]
        out.append(("event-tag", ["EVENT", e]))
        e = copy.deepcopy(good)
        e["tags"] = [["e", v]]
        out.append(("event-tag-item", ["EVENT", e]))
    for field, value in [("created_at", str(T0 + 77)), ("created_at", T0 + 77.5), ("created_at", -5), ("created_at", 2 ** 63), ("kind", "1"),
                         ("kind", 1.0), ("kind", -1), ("kind", 2 ** 40), ("content", 5), ("content", None), ("content", ["a"]),
                         ("tags", [["e"]]), ("tags", [[]]), ("tags", [["e", 5]]), ("tags", [["expiration", "soon"]]), ("tags", [["d", None]]),
                         ("tags", [["t", "v"] * 300]), ("content", "x" * 200000), ("tags", [["t", "%d" % i] for i in range(3000)])]:
        ev = odd_signed(relay, keys[2], field, value)
        if ev is not None:
            out.append(("hostile-signed", ["EVENT", ev]))
    # validly signed events that pass the validators and then make the *storage* step fail (the SQL transaction / the LMDB
    # pre-check raises): a deletion whose reference is not an id, tags without a value where the backend indexes one, tag
    # values that are arrays / objects, integers beyond 64 bits.  Several of them in a row: whatever a failed insert holds
    # (a slot, a lock, a transaction) must have been given back, or the relay stops taking events from anybody
    from aionostr.event import Event
    for kw in [dict(kind=5, tags=[["e", "zz"]]), dict(kind=5, tags=[["e"]]), dict(kind=5, tags=[["e", ""]]), dict(kind=1, tags=[["expiration"]]),
               dict(kind=1, tags=[["delegation"]]), dict(kind=2 ** 63, tags=[]), dict(kind=1, tags=[["t", ["a", "b"]]]),
               dict(kind=1, tags=[["t", {"a": 1}]]), dict(kind=1, tags=[["n", 2 ** 70]]), dict(kind=30000, tags=[["d", ["x"]]]),
               dict(kind=5, tags=[["e", "zz"], ["e", 5]]), dict(kind=1, tags=[["expiration"], ["t"]])]:
        try:
            ev = Event(pubkey=keys[2].public_key.hex(), content="storage-hostile", created_at=T0 + 78, **kw)
            ev.sign(keys[2].hex())
            out.append(("hostile-signed", ["EVENT", ev.to_json_object()]))
        except Exception:
            pass
    deep = "[" * 3000 + "]" * 3000
    raws = ["", " ", "{", "[", "nul", "[\"REQ\"", "\x00", "\ufffe", "[\"REQ\",\"s\",{\"kinds\":[1]}] trailing", "NaN", "[\"REQ\",\"s\",{\"since\":NaN}]",
            "[\"REQ\",\"s\",{\"since\":1e400}]", "[\"REQ\",\"s\",{\"limit\":1e2}]", "[\"REQ\",\"\\ud800\",{\"kinds\":[1]}]", deep,
            "[\"REQ\",\"s\"," + "{\"kinds\":" * 500 + "1" + "}" * 500 + "]", "[\"REQ\",\"s\",{\"kinds\":[1],\"kinds\":[\"x\"]}]",
            "[\"REQ\",\"" + "s" * 100000 + "\",{\"kinds\":[1]}]", "[\"REQ\",\"s\"" + ",{\"kinds\":[1]}" * 600 + "]",
            "[\"EVENT\"," + json.dumps(good)[:-1] + ",\"extra\":" + "[" * 200 + "]" * 200 + "}]"]
    for t in raws:
        out.append(("raw-text", t))
    if auth:
        out.append(("auth-replayed-elsewhere", ["AUTH", relay.signed_event(keys[0], kind=22242, tags=[["relay", URL], ["challenge", "nope"]])]))
    return out


def response_class(conn, n0):
    fr = conn.frames(n0)
    kinds = [f[0] if isinstance(f, list) and f else "UNPARSABLE" for f in fr]
    if "OK" in kinds:
        kinds = [k for k in kinds if k != "EVENT"]       # the sender's own open subscriptions may be pushed the event it published
    if conn.done:
        return "closed", kinds
    if "UNPARSABLE" in kinds:
        return "unparsable", kinds
    if not kinds:
        return "silent", kinds
    if kinds == ["OK"]:
        return "ok", kinds
    if kinds == ["NOTICE"]:
        return "notice", kinds
    if kinds[-1] == "EOSE" and all(k == "EVENT" for k in kinds[:-1]):
        return "served", kinds
    return "other:" + ",".join(kinds), kinds


def robustness(report, drv, backend, auth, rng, tier):
    from nostr_relay import web

    relay = Relay(backend, authentication={"enabled": True, "relay_urls": [URL], "actions": {}} if auth else None)
    base_tasks = None
    try:
        watcher = Conn(relay, remote_addr="8.8.8.8")
        watcher.send(["REQ", "live", {"kinds": [1], "since": 5}])
        watcher.send(["REQ", "all", {"kinds": [1, 7]}])
        good_conn = Conn(relay, remote_addr="7.7.7.7")
        items = grammar(rng, relay, KEYS, auth)
        if tier == "quick":
            keep = [x for x in items if x[0] in ("raw-text", "hostile-signed", "whole", "cmd-pos")]
            rest = [x for x in items if x not in keep]
            rng.shuffle(rest)
            items = keep + rest[:400]
        gate_lines = []
        victim = Conn(relay)
        seq = 0
        wedged = False
        classes = Counter()
        for label, m in items:
            if victim.done:
                victim = Conn(relay)
            text = m if isinstance(m, str) else json.dumps(m)
            payload = {"backend": backend, "auth": auth, "label": label, "frame": text if len(text) < 2000 else text[:2000] + "...(%d chars)" % len(text)}
            n0 = len(victim.out)
            victim.send(text)
            cls, kinds = response_class(victim, n0)
            classes[cls] += 1
            report.count("answer_" + cls.split(":")[0])
            report.count("label_" + label)
            if victim.exc is not None:
                report.property_failure("%s: an exception escaped the connection handler: %r" % (backend, victim.exc), payload, None)
            if cls == "closed" and victim.closed_with is None and victim.exc is None:
                report.property_failure("%s: the handler ended without closing the websocket" % backend, payload, None)
            if cls.startswith("other") or cls == "unparsable":
                report.property_failure("%s: a frame was answered with %s" % (backend, cls), payload, None)
            # model: the kind of answer must be allowed for the command the gate sees
            try:
                decoded = web.json_loads(text)          # the relay's own decoder decides what is JSON (rapidjson refuses lone surrogates)
                is_json = True
            except Exception:
                decoded, is_json = None, False
            if is_json:
                try:
                    json.dumps(decoded, allow_nan=False)
                    r = drv.call({"op": "hd.gate", "msg": decoded})
                    allowed = r["allowed"]
                    if r["cmd"] == "AUTH" and not auth:
                        allowed = ["silent"]
                    if cls not in allowed:
                        report.correspondence_break("%s start_client answer kind vs Handler.allowed (%s)" % (backend, r["cmd"]), payload, cls, allowed)
                except ValueError:
                    pass
            elif cls not in ("silent", "closed"):
                report.property_failure("%s: a non-JSON text was answered with %s" % (backend, cls), payload, None)
            # probes: the same connection (if kept) and the well-behaved one still work; fan-out is alive
            seq += 1
            for who, cn in (("same", victim), ("other", good_conn)):
                if cn.done or (who == "other" and tier == "quick" and seq % 3):
                    continue
                n1 = len(cn.out)
                cn.send(["REQ", "probe", {"kinds": [99]}])
                if not any(isinstance(f, list) and f[0] == "EOSE" and f[1] == "probe" for f in cn.frames(n1)):
                    report.property_failure("%s: after the frame the %s connection no longer answers a REQ" % (backend, who), payload, None)
                    wedged = True
                    break
                cn.send(["CLOSE", "probe"])
                if who == "same":
                    cn.send(["CLOSE", "s"])
            if seq % 3 == 0 or label in ("hostile-signed", "raw-text"):
                pub = relay.signed_event(KEYS[1], kind=1, content="probe %d %s" % (seq, backend), created_at=T0 + 1000 + seq)
                nw = len(watcher.out)
                ok = good_conn.send_event(pub)
                got_live = [f[1] for f in watcher.frames(nw) if isinstance(f, list) and f[0] == "EVENT" and f[2]["id"] == pub["id"]]
                if ok is not True:
                    report.property_failure("%s: after the frame a fresh valid EVENT on another connection was %s"
                                            % (backend, "refused" if ok is False else "not answered at all"), payload, None)
                    wedged = wedged or ok is None
                elif sorted(got_live) != ["all", "live"]:
                    report.property_failure("%s: after the frame a fresh event accepted on another connection was pushed to %r instead of "
                                            "the watcher's two matching subscriptions" % (backend, got_live), payload, None)
            report.case((backend, auth, label, text[:300], len(text)), nontrivial=cls != "silent", sample={"label": label, "answer": cls})
            if wedged:
                # the relay has stopped answering: the violation is recorded; every further frame would only wait for its timeout
                report.count("configurations_abandoned_after_the_relay_stopped_answering")
                break
        # ---- endings ------------------------------------------------------------------------------------
        for cn in (victim, good_conn, watcher):
            if not cn.done:
                cn.close()
            if cn.exc is not None:
                report.property_failure("%s: closing a connection escaped: %r" % (backend, cn.exc), {"backend": backend, "auth": auth}, None)
        if any(v for v in relay.open_subscriptions().values()):
            report.property_failure("%s: subscriptions survive their connections: %r" % (backend, relay.open_subscriptions()),
                                    {"backend": backend, "auth": auth}, None)
        relay.settle()
        left = [t for t in asyncio.all_tasks(relay.loop) if not t.done()]
        names = [getattr(t.get_coro(), "__qualname__", str(t)) for t in left]
        leaked = [n for n in names if any(k in n for k in ("start_client", "send_subscriptions", "run_query", "notify", "_main"))]
        if leaked:
            report.property_failure("%s: tasks of ended connections are still pending: %r" % (backend, leaked), {"backend": backend, "auth": auth}, None)
        report.count("robustness_runs")
    finally:
        relay.close()


def stalled_reader(report, backend):
    """one subscriber stops reading its socket while more events than max_limit match its subscription; everybody else
    must keep being served, and the relay must be fine after the stalled client has gone"""
    relay = Relay(backend)
    try:
        w = Conn(relay, remote_addr="6.6.6.6")
        w.send(["REQ", "firehose", {"kinds": [1]}])
        q = Conn(relay, remote_addr="5.5.5.5")
        q.send(["REQ", "mine", {"kinds": [1]}])
        p = Conn(relay, remote_addr="4.4.4.4")
        w.stalled = True
        n = common.MAX_LIMIT + 12
        payload = {"backend": backend, "case": "stalled-reader", "events": n}
        for i in range(n):
            ev = relay.signed_event(KEYS[1], kind=1, content="flood %d %s" % (i, backend), created_at=T0 + 5000 + i)
            nq = len(q.out)
            ok = p.send_event(ev)
            got = any(isinstance(f, list) and f[0] == "EVENT" and f[2]["id"] == ev["id"] for f in q.frames(nq))
            if ok is not True or not got:
                report.property_failure("%s: while another subscriber was not reading its socket, EVENT #%d of a well-behaved connection was %s"
                                        % (backend, i, "not answered / refused" if ok is not True else "not pushed to a reading subscriber"),
                                        payload, None)
                break
        w.inbox.put_nowait(DISCONNECT)
        relay.settle()
        ev = relay.signed_event(KEYS[1], kind=1, content="after the stalled client left " + backend, created_at=T0 + 9000)
        nq = len(q.out)
        ok = p.send_event(ev)
        if ok is not True or not any(isinstance(f, list) and f[0] == "EVENT" and f[2]["id"] == ev["id"] for f in q.frames(nq)):
            report.property_failure("%s: after the stalled client disconnected, a fresh EVENT was not accepted and pushed" % backend, payload, None)
        w._unstall.set()
        relay.settle()
        for cn in (p, q):
            cn.close()
        if not w.done:
            report.property_failure("%s: the handler of the stalled client did not end after its disconnect" % backend, payload, None)
        if any(v for v in relay.open_subscriptions().values()):
            report.property_failure("%s: subscriptions survive their connections (stalled reader)" % backend, payload, None)
        report.case(("stalled", backend), nontrivial=True, sample={"case": "stalled-reader", "backend": backend, "events": n})
        report.count("stalled_reader_runs")
    finally:
        relay.close()


def _until_quiet(relay, idle_s=8.0, cap_s=300.0, at_rest=None):
    """Run the loop until nothing is in flight (Relay.quiescent — or the caller's `at_rest`, a scenario that knows more about
    one of its connections —, then the LMDB writer drained, as Relay.settle does).  Unlike
    Relay.settle this is not a time budget for the work: a burst of hundreds of frames may take long on a loaded machine and is
    waited for as long as *something moves* (a frame sent, a message consumed, a queue growing, a connection ending).  It gives
    up — returns False — only when nothing at all has moved for idle_s although work is outstanding: that is what "wedged" means.
    idle_s is longer than the longest time the storage may rightly sit still between two visible steps (SQLite's busy timeout of
    5 s; opening several pooled connections at once, which in a process that has set up many storages takes seconds, because
    db.py registers its PRAGMA listener on the Engine *class* once per storage)."""
    from lib.proto import _real_sleep

    def moved():
        return tuple((len(c.out), c.inbox.qsize(), c.idle, c.done, c._queue.qsize() if c._queue is not None else -1) for c in relay.conns)

    async def go():
        loop = relay.loop
        stable, last, t_last, t0 = 0, moved(), loop.time(), loop.time()
        while stable < 2:
            await _real_sleep(0.002)
            now, cur = loop.time(), moved()
            if cur != last:
                last, t_last = cur, now
            stable = stable + 1 if (at_rest or relay.quiescent)() else 0
            if not stable and (now - t_last > idle_s or now - t0 > cap_s):
                return False
        return True

    quiet = relay.run(go())
    if quiet and relay.backend == "kv":
        relay.store.quiesce()
        quiet = relay.run(go())
    return quiet


EPHEMERAL = 20001


def stalled_live_flood(report, backend, rng, n_events, n_subs, tag):
    """The live-push side of a reader that has stopped reading, at scale.  One connection holds `n_subs` live subscriptions,
    reads their EOSEs and then never reads its socket again (its ws_send does not return, as a websocket send does once the peer's
    window and the server's buffer are full); two or three other connections publish `n_events` events that match all of them, in
    bursts.  What the relay owes that client and cannot deliver (n_events * n_subs messages) grows along both axes; whatever the
    relay does about it — buffer, drop, disconnect — is its business, but: every EVENT of every other connection gets its OK,
    a reading subscriber gets every event exactly once, a REQ gets its EOSE, throughout; when the silent client disconnects its
    handler ends; afterwards the others are served as before, every handler ends on its disconnect, the registry is empty and
    no task is left.
    The sizes are not tuned to any particular buffer: several thousand undelivered messages is more than any plausible
    per-connection or per-subscription allowance (websocket write buffers, queue bounds and batch sizes are of the order of
    10^2..10^3), and the thorough tier goes an order of magnitude further.  Most events are ephemeral (20000 <= kind < 30000: pushed
    live like any other, never written by LMDB), every 16th is a stored kind-1 note: the volume is in the live path, which is the one
    under test, and the run time stays small."""
    relay = Relay(backend)
    conns = []
    payload = {"backend": backend, "case": "stalled-live-flood", "events": n_events, "subscriptions_of_the_silent_client": n_subs, "tag": tag}

    def fail(what, **more):
        report.property_failure("%s: %s" % (backend, what), dict(payload, **more), None)

    def connect(addr):
        c = Conn(relay, remote_addr=addr, start=False)
        c.task = relay.loop.create_task(c._main())
        conns.append(c)
        return c

    def eose_for(c, n0, sub_id):
        return any(isinstance(f, list) and len(f) > 1 and f[0] == "EOSE" and f[1] == sub_id for f in c.frames(n0))

    try:
        author = KEYS[1].public_key.hex()
        w = connect("6.6.6.6")
        q = connect("5.5.5.5")
        pubs = [connect("4.4.4.%d" % (i + 1)) for i in range(rng.choice([2, 3]))]
        payload["publishers"] = len(pubs)
        shapes = [{"kinds": [1, EPHEMERAL]}, {"authors": [author]}, {"since": T0 + 5999}, {"kinds": [EPHEMERAL, 1, 7], "authors": [author]}]
        for j in range(n_subs):          # one after the other: the setup is not the scenario
            w.send(["REQ", "live%d" % j, dict(shapes[j % len(shapes)])], settle=False)
            _until_quiet(relay)
        q.send(["REQ", "mine", {"kinds": [1, EPHEMERAL]}], settle=False)
        _until_quiet(relay)
        silent = ["live%d" % j for j in range(n_subs) if not eose_for(w, 0, "live%d" % j)] + ([] if eose_for(q, 0, "mine") else ["mine"])
        if silent:
            fail("%d REQ(s) on an idle relay got no EOSE" % len(silent), subscriptions=silent, frames=[t[:200] for t in w.out[:40]])
        w.stalled = True          # from here on the client does not read
        events = []
        for i in range(n_events):
            events.append(relay.signed_event(KEYS[1], kind=1 if i % 16 == 0 else EPHEMERAL, content="flood %d %s %s" % (i, backend, tag),
                                             created_at=T0 + 6000 + i))
        wedged = False
        i, burst_no = 0, 0
        while i < n_events and not wedged:
            burst = events[i:i + rng.randint(1, max(2, n_events // 12))]
            sent = {id(p): [] for p in pubs}
            marks = {id(p): len(p.out) for p in pubs}
            nq = len(q.out)
            for ev in burst:
                p = pubs[rng.randrange(len(pubs))]
                sent[id(p)].append(ev)
                p.send(["EVENT", ev], settle=False)
            quiet = _until_quiet(relay)
            # every EVENT of every publisher: answered, in order, with OK true
            for no, p in enumerate(pubs):
                oks = [f for f in p.frames(marks[id(p)]) if isinstance(f, list) and f and f[0] == "OK"]
                for k, ev in enumerate(sent[id(p)]):
                    if k >= len(oks) or oks[k][1] != ev["id"] or oks[k][2] is not True:
                        at = i + burst.index(ev)
                        fail("while another client with %d live subscription(s) was not reading its socket (%d event(s) published since "
                             "it stopped), EVENT #%d of a well-behaved connection was %s" % (
                                 n_subs, at, at, "not answered" if k >= len(oks) else "answered %r" % (oks[k],)),
                             failed_at_event=at, event=ev, publisher=no)
                        wedged = True
                        break
                if wedged:
                    break           # one failing input is enough: the later EVENTs of the burst wait behind it
                if len(oks) > len(sent[id(p)]):
                    fail("a connection got more OK frames than it sent EVENTs", burst=burst_no)
            if not wedged:
                got = Counter(f[2]["id"] for f in q.frames(nq) if isinstance(f, list) and len(f) > 2 and f[0] == "EVENT" and f[1] == "mine")
                if got != Counter(ev["id"] for ev in burst):
                    missing = [ev["id"] for ev in burst if ev["id"] not in got]
                    fail("while another client was not reading its socket, a reading subscriber was pushed %d of the %d events of a burst "
                         "(%d missing, %d more than once)" % (len(got), len(burst), len(missing), sum(1 for v in got.values() if v > 1)),
                         burst=burst_no, first_event=i, missing=missing[:5])
                    wedged = wedged or bool(missing)
            if not quiet and not wedged:
                fail("the relay did not come to rest after a burst of %d EVENTs (nothing moved for 8 s with work outstanding)" % len(burst),
                     burst=burst_no, first_event=i)
                wedged = True
            i += len(burst)
            burst_no += 1
            if not wedged and burst_no % 3 == 0:
                p = pubs[rng.randrange(len(pubs))]
                n0 = len(p.out)
                p.send(["REQ", "probe", {"kinds": [99]}], settle=False)
                answered = _until_quiet(relay) and eose_for(p, n0, "probe")
                p.send(["CLOSE", "probe"], settle=False)      # (after the answer: a CLOSE that overtakes the query may rightly silence it)
                if not answered:
                    fail("while another client was not reading its socket (%d events published), a REQ of a well-behaved connection "
                         "got no EOSE" % i, events_published=i)
                    wedged = True
        report.count("live_flood_events_published", i)
        report.count("live_flood_messages_owed_to_the_silent_client", i * n_subs)
        # ---- the silent client goes away ---------------------------------------------------------------
        patience = 3.0 if wedged else 8.0        # once a failure is recorded the remaining waits only add detail to it
        w.inbox.put_nowait(DISCONNECT)
        _until_quiet(relay, patience)
        if not w.done:
            fail("the handler of the client that had stopped reading did not end after its disconnect")
        if w.exc is not None:
            fail("%s escaped the handler of the client that had stopped reading: %r" % (type(w.exc).__name__, w.exc))
        ev = relay.signed_event(KEYS[2], kind=1, content="after the silent client left %s %s" % (backend, tag), created_at=T0 + 9500)
        p, r = pubs[0], pubs[-1]
        n0, n1, nq = len(p.out), len(r.out), len(q.out)
        p.send(["EVENT", ev], settle=False)
        r.send(["REQ", "after", {"kinds": [1], "limit": 1}], settle=False)
        _until_quiet(relay, patience)
        ok = [f for f in p.frames(n0) if isinstance(f, list) and len(f) > 2 and f[0] == "OK" and f[1] == ev["id"]]
        if not ok or ok[0][2] is not True:
            fail("after the client that had stopped reading disconnected, a fresh EVENT of another connection was %s"
                 % ("not answered" if not ok else "refused"), event=ev)
        elif not any(isinstance(f, list) and len(f) > 2 and f[0] == "EVENT" and f[2]["id"] == ev["id"] for f in q.frames(nq)):
            fail("after the client that had stopped reading disconnected, a fresh EVENT was not pushed to a reading subscriber", event=ev)
        if not eose_for(r, n1, "after"):
            fail("after the client that had stopped reading disconnected, a REQ of another connection got no EOSE")
        # ---- endings -----------------------------------------------------------------------------------
        for c in conns:
            if not c.done:
                c.inbox.put_nowait(DISCONNECT)
        _until_quiet(relay, patience)
        if any(not c.done for c in conns):
            fail("the handler(s) of connection(s) %s did not end on their disconnect" % ", ".join(c.remote_addr for c in conns if not c.done))
        for c in conns:
            if c.done and c.exc is not None:
                fail("closing connection %s escaped: %r" % (c.remote_addr, c.exc))
        if any(v for v in relay.open_subscriptions().values()):
            fail("subscriptions survive their connections (silent client, live flood): %r" % relay.open_subscriptions())
        left = [t for t in asyncio.all_tasks(relay.loop) if not t.done()]
        names = sorted(getattr(t.get_coro(), "__qualname__", str(t)) for t in left)
        leaked = [n for n in names if any(k in n for k in ("start_client", "send_subscriptions", "run_query", "notify", "_main"))]
        if leaked:
            fail("%d task(s) of ended connections are still pending: %r" % (len(leaked), sorted(set(leaked))))
        report.case(("live-flood", backend, n_events, n_subs, tag), nontrivial=True,
                    sample={"case": "stalled-live-flood", "backend": backend, "events": n_events, "subscriptions_of_the_silent_client": n_subs,
                            "publishers": len(pubs), "bursts": burst_no})
        report.count("live_flood_runs")
    finally:
        # a relay that has stopped moving would make Relay.close wait for each handler in turn: end them here
        # (and whatever they left pending, or it is reported once more, as noise, when the closed loop is collected)
        stuck = [c for c in conns if not c.done]
        rest = [c.task for c in stuck] + [t for t in asyncio.all_tasks(relay.loop) if not t.done() and any(
            k in getattr(t.get_coro(), "__qualname__", "") for k in ("send_subscriptions", "run_query", "notify"))]
        for t in rest:
            t.cancel()
        if rest:
            relay.run(asyncio.wait(rest, timeout=2.0))
        for c in stuck:
            c.done = True
        relay.close()


def pipelined_disconnect(report, backend, rng, tag):
    """a client that pipelines its last command and its disconnect: both are already buffered when the handler reads, so the
    connection ends before the sender task (or a query task) has run a single step.  Nothing may escape the handler, the
    subscriptions go, and everybody else is served as before."""
    relay = Relay(backend)
    try:
        watcher = Conn(relay, remote_addr="7.7.7.7")
        watcher.send(["REQ", "w", {"kinds": [1]}])
        stored = relay.signed_event(KEYS[0], kind=1, content="stored before %s %s" % (backend, tag), created_at=T0 + 100)
        watcher.send_event(stored)
        firsts = [["REQ", "s", {"kinds": [1]}], ["REQ", "s", {"kinds": [1]}, {"authors": ["zz"]}], ["REQ", "s", {"ids": ["nothex"]}],
                  ["EVENT", relay.signed_event(KEYS[1], kind=1, content="last words %s %s" % (backend, tag), created_at=T0 + 200)],
                  ["CLOSE", "nothing"], ["REQ", "a", {"kinds": [1]}], "not json"]
        rng.shuffle(firsts)
        for first in firsts[:4]:
            c = Conn(relay, remote_addr="8.8.8.%d" % rng.randrange(1, 250), start=False)
            burst = [first]
            if rng.random() < 0.4:
                burst.append(["REQ", "b", {"kinds": [1, 7]}])
            for m in burst:
                c.inbox.put_nowait(m if isinstance(m, str) else json.dumps(m))
            c.inbox.put_nowait(DISCONNECT)          # already there when the handler starts reading
            c.task = relay.loop.create_task(c._main())
            relay.settle()
            payload = {"backend": backend, "case": "pipelined-disconnect", "burst": burst}
            if c.exc is not None:
                report.property_failure("%s: %s escaped the connection handler of a client that sent %r and disconnected at once"
                                        % (backend, type(c.exc).__name__, [b if isinstance(b, str) else b[0] for b in burst]), payload, None)
            if not c.done:
                report.property_failure("%s: the handler of a client that disconnected at once did not end" % backend, payload, None)
            subs = relay.open_subscriptions()
            left = [k for k, v in subs.items() if v and "w" not in v]
            if left:
                report.property_failure("%s: subscriptions of a client that disconnected at once survive it: %r" % (backend, subs), payload, None)
            report.case(("pipelined", backend, tag, repr(burst)[:80]), nontrivial=True,
                        sample={"case": "pipelined-disconnect", "backend": backend, "first": burst[0] if isinstance(burst[0], str) else burst[0][0]})
            report.count("pipelined_disconnects")
        # the others are served as before
        ev = relay.signed_event(KEYS[2], kind=1, content="after the hasty clients %s %s" % (backend, tag), created_at=T0 + 300)
        p = Conn(relay, remote_addr="4.4.4.4")
        nw = len(watcher.out)
        ok = p.send_event(ev)
        if ok is not True or not any(isinstance(f, list) and f[0] == "EVENT" and f[2]["id"] == ev["id"] for f in watcher.frames(nw)):
            report.property_failure("%s: after clients that disconnected at once, a fresh EVENT was not accepted and pushed" % backend,
                                    {"backend": backend, "case": "pipelined-disconnect"}, None)
        pending = [t for t in asyncio.all_tasks(relay.loop) if not t.done() and "run_query" in getattr(t.get_coro(), "__qualname__", "")]
        if pending:
            report.property_failure("%s: %d query task(s) of ended connections are still pending" % (backend, len(pending)),
                                    {"backend": backend, "case": "pipelined-disconnect"}, None)
        p.close()
        watcher.close()
    finally:
        relay.close()


def limited_connections(report, backend, rng, tag):
    """a relay with per-address rate limits for several commands, connections coming and going over a (simulated) long time:
    every disconnect runs the limiter's cleanup over whatever state the earlier traffic left — also over queues that an earlier
    cleanup emptied while keeping their address.  Nothing may escape any handler."""
    from nostr_relay import rate_limiter as rl

    clock = {"t": 1000.0}
    orig_pc = rl.perf_counter
    rl.perf_counter = lambda: clock["t"]
    relay = None
    try:
        relay = Relay(backend, rate_limits={"ip": {"EVENT": "5/second", "REQ": "5/second,50/minute", "CLOSE": "5/second"},
                                            "global": {"EVENT": "100/second"}})
        conns = []
        log = []
        for step in range(rng.randint(8, 14)):
            clock["t"] += rng.choice([0.0, 0.2, 1.5, 2.0, 30.0, 61.0, 100.0])
            r = rng.random()
            live = [c for c in conns if not c.done]
            if r < 0.3 or not live:
                c = Conn(relay, remote_addr="10.0.0.%d" % rng.randrange(1, 4))
                conns.append(c)
                log.append(("connect", c.remote_addr))
            elif r < 0.5:
                c = rng.choice(live)
                c.send_event(relay.signed_event(KEYS[rng.randrange(3)], kind=1, content="limited %s %d %s" % (backend, step, tag),
                                                created_at=T0 + 400 + step))
                log.append(("EVENT", c.remote_addr))
            elif r < 0.7:
                c = rng.choice(live)
                c.send(["REQ", "q%d" % step, {"kinds": [1], "limit": 2}])
                log.append(("REQ", c.remote_addr))
            elif r < 0.8:
                c = rng.choice(live)
                c.send(["CLOSE", "q0"])
                log.append(("CLOSE", c.remote_addr))
            else:
                c = rng.choice(live)
                c.close()
                log.append(("disconnect", c.remote_addr))
            payload = {"backend": backend, "case": "limited-connections", "log": log}
            for x in conns:
                if x.exc is not None:
                    report.property_failure("%s: %s (%s) escaped a connection handler of a rate-limited relay after %r"
                                            % (backend, type(x.exc).__name__, x.exc, log[-3:]), payload, None)
                    x.exc = None
        for c in conns:
            if not c.done:
                c.close()
        for x in conns:
            if x.exc is not None:
                report.property_failure("%s: %s (%s) escaped a connection handler of a rate-limited relay at its disconnect"
                                        % (backend, type(x.exc).__name__, x.exc), {"backend": backend, "case": "limited-connections", "log": log}, None)
        if any(v for v in relay.open_subscriptions().values()):
            report.property_failure("%s: subscriptions survive their connections (rate-limited relay)" % backend,
                                    {"backend": backend, "case": "limited-connections", "log": log}, None)
        report.case(("limited", backend, tag, repr(log)[:200]), nontrivial=True,
                    sample={"case": "limited-connections", "backend": backend, "steps": len(log)})
        report.count("limited_connection_runs")
    finally:
        rl.perf_counter = orig_pc
        if relay is not None:
            relay.close()


# ------------------------------------------------------------------------------------------------------------
# Connections whose state changes in mid-life while they hold resources.
AUTH_VARIANTS = ("wrong-challenge", "challenge-of-another-connection", "wrong-relay", "wrong-kind", "stale", "no-tags", "bad-signature")
# NIP-42 on; anonymous clients may query and save in every configuration (so that a connection can hold subscriptions *before* it
# authenticates), and so may every identity used below: what a client may do is C14's subject, here only what the relay keeps for it
MIDLIFE_CONFIGS = [
    {"enabled": True, "relay_urls": [URL], "actions": {}},
    {"enabled": True, "relay_urls": [URL], "actions": {"query": "a", "save": "a"}},
    {"enabled": True, "relay_urls": [URL], "actions": {"query": "ar", "save": "aw"}, "throttle": {"unauthenticated": 0.4, "a": 0.1, "w": 0.2}},
]
MIDLIFE_ROLES = [(None, None, None), (None, "ar", "aw"), ("arw", "a", None)]


def auth_answer(relay, sk, challenge, variant="valid", other_challenge=None):
    """a NIP-42 answer to this connection's challenge: fully valid, or wrong in exactly one respect"""
    import time

    now = int(time.time())
    kw = dict(kind=22242, tags=[["relay", URL], ["challenge", challenge]], created_at=now)
    if variant == "wrong-challenge":
        kw["tags"] = [["relay", URL], ["challenge", "00" * 16]]
    elif variant == "challenge-of-another-connection":
        kw["tags"] = [["relay", URL], ["challenge", other_challenge or "ff" * 16]]
    elif variant == "wrong-relay":
        kw["tags"] = [["relay", "ws://elsewhere.example"], ["challenge", challenge]]
    elif variant == "wrong-kind":
        kw["kind"] = 22243
    elif variant == "stale":
        kw["created_at"] = now - 3600
    elif variant == "no-tags":
        kw["tags"] = []
    ev = relay.signed_event(sk, **kw)
    if variant == "bad-signature":
        ev["sig"] = ev["sig"][:-2] + ("01" if ev["sig"].endswith("00") else "00")
    return ev


def _simple_match(f, ev):
    """the filters of midlife_sessions are conjunctions of kinds / authors / one tag: NIP-01 for that fragment"""
    if "kinds" in f and ev["kind"] not in f["kinds"]:
        return False
    if "authors" in f and ev["pubkey"] not in f["authors"]:
        return False
    if "#t" in f and not any(len(t) > 1 and t[0] == "t" and t[1] in f["#t"] for t in ev["tags"]):
        return False
    return True


class _Client:
    """what the harness knows of one connection from the messages it sent itself: the subscriptions it has opened and not
    closed (id -> filter).  Nothing here is read off the relay."""

    def __init__(self, conn, name):
        self.c, self.name, self.subs, self.dead, self.authed, self.before_auth = conn, name, {}, None, 0, set()

    def residue(self):
        q = self.c._queue
        return (len(self.c.out), q.qsize() if q is not None else 0)


def midlife_sessions(report, backend, rng, tag, n_steps):
    """Sessions of two to four connections on a relay with NIP-42 enabled, in which AUTH — fully valid, invalid in one respect,
    repeated, as another identity, with another connection's challenge — arrives at random points of the session grammar
    (connect, REQ with a new / re-used id, REQ without a usable filter, CLOSE of an open / unknown id, EVENT, disconnect) instead
    of only at the start: a connection's identity, roles and throttle change while it holds subscriptions, a sender task and
    queued messages; sometimes the AUTH and the next command are buffered together.  The oracle does not know what
    authentication does inside the relay; it states what holds whatever the identity of a connection is:
      * after every step the registry (storage.clients) holds exactly the subscriptions the clients opened and did not close:
        CLOSE ends that id, a disconnect ends all of the connection's, nothing else ends any;
      * every REQ gets its EOSE, every EVENT its OK true; a fresh event is pushed once to exactly the open subscriptions it
        matches, on every connection — none for a closed id, none missing;
      * nothing is sent to or queued for a connection that has ended, whoever publishes afterwards;
      * no exception escapes a handler, a handler that ends has closed its websocket or was disconnected, and at the end no task
        is left."""
    cfg = copy.deepcopy(MIDLIFE_CONFIGS[rng.randrange(len(MIDLIFE_CONFIGS))])
    roles = MIDLIFE_ROLES[rng.randrange(len(MIDLIFE_ROLES))]
    relay = Relay(backend, authentication=cfg)
    log = []
    payload = {"backend": backend, "case": "midlife-session", "authentication": cfg, "roles_of_the_three_keys": roles, "tag": tag, "steps": log}
    failed = []

    def fail(what, **more):
        failed.append(what)
        report.property_failure("%s: %s (NIP-42 on; step %d: %r)" % (backend, what, len(log), log[-1] if log else None),
                                dict(copy.deepcopy(payload), **more), None)

    try:
        for i, r in enumerate(roles):
            if r is not None:
                relay.set_roles(KEYS[i].public_key.hex(), r)
        clients = []
        fresh = {"n": 0}
        authors = [k.public_key.hex() for k in KEYS]

        def live():
            return [s for s in clients if s.dead is None]

        def connect():
            s = _Client(Conn(relay, remote_addr="9.9.%d.%d" % (len(clients) // 200, len(clients) % 200 + 1)), "c%d" % len(clients))
            clients.append(s)
            return s

        def new_filter():
            f = {}
            r = rng.random()
            if r < 0.7:
                f["kinds"] = rng.choice([[1], [7], [1, 7], [EPHEMERAL], [1, EPHEMERAL], [1, 7, EPHEMERAL]])
            if r > 0.5:
                f["authors"] = rng.sample(authors, rng.choice([1, 1, 2]))
            if rng.random() < 0.15:
                f["#t"] = [rng.choice(["x", "y"])]
            if rng.random() < 0.3:
                f["limit"] = rng.choice([1, 3, 50])
            return f

        def world(why):
            """the clauses that hold after every step"""
            for s in clients:
                if s.c.exc is not None:
                    fail("%s escaped the handler of connection %s: %r" % (type(s.c.exc).__name__, s.name, s.c.exc))
                    s.c.exc = None
                if s.dead is None and s.c.done:
                    # the relay ended the connection itself: its business (counted), but then it must have closed the socket
                    if s.c.closed_with is None:
                        fail("the handler of connection %s ended although the client neither disconnected nor was the websocket closed" % s.name)
                    report.count("midlife_connections_ended_by_the_relay")
                    s.subs.clear()
                    s.dead = s.residue()
            registry = sorted(v for v in relay.open_subscriptions().values() if v)
            expected = sorted(sorted(s.subs) for s in live() if s.subs)
            if registry != expected:
                fail("%s the registry holds the subscriptions %r, the clients have opened and not closed %r"
                     % (why, registry, expected), registry=relay.open_subscriptions(),
                     open_by_connection={s.name: sorted(s.subs) for s in live()}, ended=[s.name for s in clients if s.dead is not None])
            for s in clients:
                if s.dead is not None and s.residue() != s.dead:
                    fail("%s connection %s, which has ended, was sent or had queued for it %d frame(s) / %d message(s) more"
                         % (why, s.name, s.residue()[0] - s.dead[0], s.residue()[1] - s.dead[1]))
                    s.dead = s.residue()

        def publish(s, why):
            kind = rng.choice([1, 1, 7, EPHEMERAL])
            ev = relay.signed_event(KEYS[rng.randrange(3)], kind=kind, content="midlife %s %s %d" % (backend, tag, len(log)),
                                    tags=[["t", rng.choice(["x", "y", "z"])]] if rng.random() < 0.4 else [])
            log.append(["EVENT", s.name, {"kind": kind, "pubkey": ev["pubkey"], "tags": ev["tags"]}])
            marks = {t.name: len(t.c.out) for t in live()}
            ok = s.c.send_event(ev)
            if ok is not True:
                fail("%s a fresh valid EVENT of connection %s was %s" % (why, s.name, "not answered" if ok is None else "refused"), event=ev)
                return
            for t in clients:
                if t.name not in marks:
                    continue
                got = Counter(f[1] for f in t.c.frames(marks[t.name]) if isinstance(f, list) and len(f) > 2 and f[0] == "EVENT"
                              and isinstance(f[2], dict) and f[2].get("id") == ev["id"])
                want = sorted(sid for sid, f in t.subs.items() if _simple_match(f, ev))
                if sorted(got) != want or any(n != 1 for n in got.values()):
                    closed = sorted(set(got) - set(t.subs))
                    fail("%s an event published by %s was pushed to connection %s for the subscriptions %r; its open subscriptions that "
                         "match are %r%s" % (why, s.name, t.name, dict(got), want,
                                             (" — %r are closed" % closed) if closed else ""),
                         event=ev, open_subscriptions={k: v for k, v in t.subs.items()})

        for _ in range(rng.choice([2, 2, 3])):
            connect()
            log.append(["connect", clients[-1].name])
        pipelined = None          # the connection whose AUTH is still in its buffer: the next step is its own
        while len(log) < n_steps and not failed:
            lv = live()
            if not lv:
                connect()
                log.append(["connect", clients[-1].name])
                continue
            s = pipelined or rng.choice(lv)
            after_buffered, pipelined = pipelined is not None, None
            holds = bool(s.subs)
            r = rng.random()
            if r < 0.06 and len(lv) < 4:
                connect()
                log.append(["connect", clients[-1].name])
            elif r < 0.30:
                reuse = s.subs and rng.random() < 0.25
                sid = rng.choice(sorted(s.subs)) if reuse else "s%d" % fresh["n"]
                fresh["n"] += 1
                if len(s.subs) >= 8 and not reuse:
                    continue
                f = new_filter()
                log.append(["REQ", s.name, sid, f])
                n0 = len(s.c.out)
                s.c.send(["REQ", sid, f])
                s.subs[sid] = f
                s.before_auth.discard(sid)
                if not any(isinstance(x, list) and len(x) > 1 and x[0] == "EOSE" and x[1] == sid for x in s.c.frames(n0)):
                    fail("a REQ of connection %s (%s) got no EOSE" % (s.name, "authenticated %d time(s)" % s.authed if s.authed else "not authenticated"),
                         frames=[t[:200] for t in s.c.out[n0:n0 + 10]])
            elif r < 0.34:
                sid = "none%d" % fresh["n"]
                fresh["n"] += 1
                f = rng.choice([{"kinds": "x"}, {"ids": [5]}, {"authors": "me"}])
                log.append(["REQ", s.name, sid, f])
                n0 = len(s.c.out)
                s.c.send(["REQ", sid, f])
                if not s.c.done and len(s.c.out) == n0:
                    fail("a REQ without a usable filter on connection %s was met with silence" % s.name)
            elif r < 0.52:
                # CLOSE: mostly of an open subscription (the oldest first as often as any), sometimes of an id never / no longer open
                if s.subs and rng.random() < 0.85:
                    sid = sorted(s.subs, key=lambda k: int(k[1:]))[0] if rng.random() < 0.5 else rng.choice(sorted(s.subs))
                else:
                    sid = rng.choice(["s%d" % rng.randrange(max(1, fresh["n"])), "never"])
                log.append(["CLOSE", s.name, sid])
                s.c.send(["CLOSE", sid])
                if sid in s.subs:
                    report.count("midlife_close_of_a_subscription_opened_before_a_valid_auth" if sid in s.before_auth
                                 else "midlife_close_of_an_open_subscription")
                s.subs.pop(sid, None)
            elif r < 0.70:
                publish(s, "")
            elif r < 0.93:
                valid = rng.random() < (0.75 if holds else 0.5)
                variant = "valid" if valid else rng.choice(AUTH_VARIANTS)
                key = rng.randrange(3)
                others = [t.c.challenge() for t in lv if t is not s]
                ev = auth_answer(relay, KEYS[key], s.c.challenge(), variant, rng.choice(others) if others else None)
                buffered = rng.random() < 0.3
                log.append(["AUTH", s.name, variant, "key%d" % key, "buffered with the next command" if buffered else "alone"])
                n0 = len(s.c.out)
                s.c.send(["AUTH", ev], settle=not buffered)
                report.count("midlife_auth_" + variant)
                if valid:
                    s.authed += 1
                    s.before_auth = set(s.subs)
                    if holds:
                        report.count("midlife_valid_auth_of_a_connection_holding_subscriptions")
                    if s.authed > 1:
                        report.count("midlife_valid_auth_repeated_or_as_another_identity")
                if buffered:
                    pipelined = s
                    continue
                if after_buffered:
                    world("after the step")      # (a NOTICE now could be the answer to either of the two AUTHs)
                    continue
                notices = [x for x in s.c.frames(n0) if isinstance(x, list) and x and x[0] == "NOTICE"]
                report.count("midlife_auth_%s_%s" % ("valid" if valid else "invalid", "refused" if notices else "silent"))
            else:
                log.append(["disconnect", s.name])
                s.c.close()
                s.subs.clear()
                s.dead = s.residue()
                if not s.c.done:
                    fail("the handler of connection %s did not end on its disconnect" % s.name)
            world("after the step")
        # ---- endings: the connections leave one by one, somebody publishes in between ----------------------
        order = live()
        rng.shuffle(order)
        for s in order:
            if failed:
                break
            log.append(["disconnect", s.name])
            s.c.close()
            s.subs.clear()
            s.dead = s.residue()
            if not s.c.done:
                fail("the handler of connection %s did not end on its disconnect" % s.name)
            world("after the disconnect")
            rest = live()
            if rest and not failed:
                publish(rng.choice(rest), "after %s had gone," % s.name)
                world("after %s had gone and another connection published," % s.name)
        if not failed:
            late = connect()
            log.append(["connect", late.name])
            publish(late, "after all earlier connections had gone,")
            world("after all earlier connections had gone and a newcomer published,")
            log.append(["disconnect", late.name])
            late.c.close()
            late.dead = late.residue()
            world("at the end")
            relay.settle()
            left = [t for t in asyncio.all_tasks(relay.loop) if not t.done()]
            names = sorted(getattr(t.get_coro(), "__qualname__", str(t)) for t in left)
            leaked = [n for n in names if any(k in n for k in ("start_client", "send_subscriptions", "run_query", "notify", "_main"))]
            if leaked:
                fail("%d task(s) of ended connections are still pending: %r" % (len(leaked), sorted(set(leaked))))
        report.case(("midlife", backend, tag, json.dumps(log, sort_keys=True)[:4000]), nontrivial=True,
                    sample={"case": "midlife-session", "backend": backend, "steps": len(log), "connections": len(clients),
                            "valid_auths": sum(s.authed for s in clients), "first_steps": log[:6]})
        report.count("midlife_sessions")
        report.count("midlife_steps", len(log))
        for st in log:
            report.count("midlife_step_" + st[0])
    finally:
        relay.close()


# ------------------------------------------------------------------------------------------------------------
# Connections that nothing but their being different connections tells apart.
SAME_ID_LIMIT = 4
SUB_NAMES = ["a", "b", "c", "d", "e", "f", "g", ""]


def indistinguishable_connections(report, backend, rng, tag, n_steps):
    """Several connections that arrive with the SAME remote address (a relay behind a reverse proxy / NAT, one host opening many
    sockets) and whose connection ids have the same text as well: the relay's random source is replaced by one of very low entropy
    (a pool of 1 or 2 values, whatever length is asked for), which stands for the collision that a short random suffix makes a
    matter of a few hundred simultaneous connections.  All of them use the same few subscription ids, REQ / re-REQ / CLOSE them,
    burst past the subscription limit, publish, disconnect and are replaced by newcomers (again with an id text already in use).
    A connection is a connection, whatever its address and its id look like:
      * after every step the registry (storage.clients) holds, as a multiset, exactly the subscription sets the connections opened
        and did not close: a REQ / CLOSE / disconnect of one connection ends or replaces nothing of another, although the ids are equal;
      * a REQ of a connection that holds fewer than the limit ITSELF gets its EOSE (nobody is charged for another's subscriptions);
        a REQ beyond the own limit is answered, not obeyed;
      * a fresh event is pushed once to exactly the open matching subscriptions of every open connection;
      * nothing is sent to an ended connection; the registry is empty only after the last one left; no exception, no task left."""
    import secrets

    limit = SAME_ID_LIMIT
    pool = rng.choice([1, 1, 2])
    draws = {"n": 0}
    real_hex = secrets.token_hex

    def poor_hex(nbytes=None):
        draws["n"] += 1
        return ("%02x" % (draws["n"] % pool)) * (32 if nbytes is None else nbytes)

    log = []
    payload = {"backend": backend, "case": "indistinguishable-connections", "subscription_limit": limit, "tag": tag,
               "random_source": "token_hex pinned to a pool of %d value(s)" % pool, "steps": log}
    failed = []
    relay = None

    def fail(what, **more):
        failed.append(what)
        report.property_failure("%s: %s (all connections from one address, connection ids of equal text; step %d: %r)"
                                % (backend, what, len(log), log[-1] if log else None), dict(copy.deepcopy(payload), **more), None)

    try:
        relay = Relay(backend, subscription_limit=limit)
        secrets.token_hex = poor_hex
        clients = []
        authors = [k.public_key.hex() for k in KEYS]
        addr = "10.%d.%d.%d" % (rng.randrange(256), rng.randrange(256), rng.randrange(1, 255))

        def live():
            return [s for s in clients if s.dead is None]

        def connect():
            s = _Client(Conn(relay, remote_addr=addr), "c%d" % len(clients))
            clients.append(s)
            log.append(["connect", s.name])
            return s

        def new_filter():
            f = {}
            r = rng.random()
            if r < 0.8:
                f["kinds"] = rng.choice([[1], [7], [1, 7], [EPHEMERAL], [1, EPHEMERAL], [1, 7, EPHEMERAL]])
            if r > 0.6:
                f["authors"] = rng.sample(authors, rng.choice([1, 2]))
            if rng.random() < 0.3:
                f["limit"] = rng.choice([1, 3, 50])
            return f

        def registry():
            # (read as a multiset of subscription sets: the keys may well print alike here)
            return sorted(sorted(v.keys()) for v in list(relay.storage.clients.values()) if v)

        def world(why):
            for s in clients:
                if s.c.exc is not None:
                    fail("%s escaped the handler of connection %s: %r" % (type(s.c.exc).__name__, s.name, s.c.exc))
                    s.c.exc = None
                if s.dead is None and s.c.done:
                    fail("%s the handler of connection %s ended although the client did not disconnect (websocket closed with %r)"
                         % (why, s.name, s.c.closed_with))
                    s.subs.clear()
                    s.dead = s.residue()
            got = registry()
            expected = sorted(sorted(s.subs) for s in live() if s.subs)
            if got != expected:
                fail("%s the registry holds the subscription sets %r, the %d open connection(s) have opened and not closed %r"
                     % (why, got, len(live()), expected), open_by_connection={s.name: sorted(s.subs) for s in live()},
                     ended=[s.name for s in clients if s.dead is not None])
            for s in clients:
                if s.dead is not None and s.residue() != s.dead:
                    fail("%s connection %s, which has ended, was sent or had queued for it %d frame(s) / %d message(s) more"
                         % (why, s.name, s.residue()[0] - s.dead[0], s.residue()[1] - s.dead[1]))
                    s.dead = s.residue()

        def publish(s, why):
            kind = rng.choice([1, 1, 7, EPHEMERAL])
            ev = relay.signed_event(KEYS[rng.randrange(3)], kind=kind, content="same id %s %s %d" % (backend, tag, len(log)))
            log.append(["EVENT", s.name, {"kind": kind, "pubkey": ev["pubkey"]}])
            marks = {t.name: len(t.c.out) for t in live()}
            ok = s.c.send_event(ev)
            if ok is not True:
                fail("%s a fresh valid EVENT of connection %s was %s" % (why, s.name, "not answered" if ok is None else "refused"), event=ev)
                return
            for t in clients:
                if t.name not in marks:
                    continue
                got = Counter(f[1] for f in t.c.frames(marks[t.name]) if isinstance(f, list) and len(f) > 2 and f[0] == "EVENT"
                              and isinstance(f[2], dict) and f[2].get("id") == ev["id"])
                want = sorted(sid for sid, f in t.subs.items() if _simple_match(f, ev))
                if sorted(got) != want or any(n != 1 for n in got.values()):
                    fail("%s an event published by %s was pushed to connection %s for the subscriptions %r; its open subscriptions that "
                         "match are %r" % (why, s.name, t.name, dict(got), want), event=ev, open_subscriptions=dict(t.subs))
                if want:
                    report.count("same_id_pushes_due", len(want))

        def reqs(s, items):
            """one or several REQs of one connection (several: buffered together); the oracle counts only the connection's own"""
            n0 = len(s.c.out)
            refused = 0
            for i, (sid, f) in enumerate(items):
                log.append(["REQ", s.name, sid, f])
                s.c.send(["REQ", sid, f], settle=i == len(items) - 1)
            frames = s.c.frames(n0)
            eose = Counter(x[1] for x in frames if isinstance(x, list) and len(x) > 1 and x[0] == "EOSE")
            other = sum(1 for x in frames if isinstance(x, list) and x and x[0] in ("NOTICE", "CLOSED"))
            want = Counter()
            for sid, f in items:
                if sid in s.subs or len(s.subs) < limit:
                    s.subs[sid] = f
                    want[sid] += 1
                else:
                    refused += 1
            if refused:
                report.count("same_id_reqs_beyond_the_own_limit", refused)
            missing = sorted(k for k in want if eose[k] < want[k])
            if missing:
                fail("connection %s, which held fewer than the limit of %d subscriptions itself, got no EOSE for its REQ(s) %r "
                     "(%d other open connection(s) hold %r)" % (s.name, limit, missing, len(live()) - 1,
                                                               [sorted(t.subs) for t in live() if t is not s]),
                     frames=[t[:200] for t in s.c.out[n0:n0 + 12]])
            elif other < refused:
                fail("%d REQ(s) of connection %s beyond its limit of %d subscriptions were met with silence" % (refused - other, s.name, limit))

        for _ in range(rng.choice([2, 3, 4])):
            connect()
        # something stored, so that the REQs have an answer to carry to the right socket
        publish(clients[0], "at the start,")
        while len(log) < n_steps and not failed:
            lv = live()
            if not lv:
                connect()
                continue
            s = rng.choice(lv)
            r = rng.random()
            if r < 0.10 and len(lv) < 6:
                connect()
            elif r < 0.45:
                reqs(s, [(rng.choice(SUB_NAMES), new_filter())])
            elif r < 0.52:
                # a burst past the subscription limit, buffered together
                names = rng.sample(SUB_NAMES, limit + rng.choice([1, 2, 3]))
                reqs(s, [(sid, new_filter()) for sid in names])
                report.count("same_id_bursts_past_the_limit")
            elif r < 0.68:
                others = sorted(set(k for t in lv if t is not s for k in t.subs))
                sid = rng.choice(others) if others and rng.random() < 0.6 else rng.choice(SUB_NAMES)
                log.append(["CLOSE", s.name, sid])
                if sid not in s.subs and sid in others:
                    report.count("same_id_close_of_an_id_only_others_hold")
                s.c.send(["CLOSE", sid])
                s.subs.pop(sid, None)
            elif r < 0.88:
                publish(s, "")
            else:
                log.append(["disconnect", s.name])
                if any(t.subs for t in lv if t is not s):
                    report.count("same_id_disconnects_while_others_hold_subscriptions")
                s.c.close()
                s.subs.clear()
                s.dead = s.residue()
                if not s.c.done:
                    fail("the handler of connection %s did not end on its disconnect" % s.name)
            world("after the step")
        # ---- the connections leave one by one; the rest is served as before; empty only after the last ------
        if not failed and len(live()) < 2:
            connect()
        for s in live():
            if not failed and not s.subs:
                reqs(s, [(SUB_NAMES[0], {"kinds": [1, 7, EPHEMERAL]})])
        order = live()
        rng.shuffle(order)
        for s in order:
            if failed:
                break
            log.append(["disconnect", s.name])
            s.c.close()
            s.subs.clear()
            s.dead = s.residue()
            if not s.c.done:
                fail("the handler of connection %s did not end on its disconnect" % s.name)
            world("after the disconnect")
            rest = live()
            if rest and not failed:
                publish(rng.choice(rest), "after %s had gone," % s.name)
                world("after %s had gone and another connection published," % s.name)
        if not failed:
            if len(relay.storage.clients):
                fail("after the last connection left, the registry still has %d entr(ies)" % len(relay.storage.clients))
            relay.settle()
            left = [t for t in asyncio.all_tasks(relay.loop) if not t.done()]
            names = sorted(getattr(t.get_coro(), "__qualname__", str(t)) for t in left)
            leaked = [n for n in names if any(k in n for k in ("start_client", "send_subscriptions", "run_query", "notify", "_main"))]
            if leaked:
                fail("%d task(s) of ended connections are still pending: %r" % (len(leaked), sorted(set(leaked))))
        report.case(("same-id", backend, tag, json.dumps(log, sort_keys=True)[:4000]), nontrivial=True,
                    sample={"case": "indistinguishable-connections", "backend": backend, "steps": len(log), "connections": len(clients),
                            "id_pool": pool, "first_steps": log[:6]})
        report.count("same_id_sessions")
        report.count("same_id_steps", len(log))
        report.count("same_id_connections", len(clients))
        for st in log:
            report.count("same_id_step_" + st[0])
    finally:
        secrets.token_hex = real_hex
        if relay is not None:
            relay.close()


# ------------------------------------------------------------------------------------------------------------
# Slow consumers that resume.
class _LoopClock:
    """The clock of the relay's event loop with an offset that the harness advances: `advance(s)` lets s seconds pass at once for
    everything that measures time with the loop (asyncio.timeout / async_timeout, wait_for, call_later, call_at — every deadline
    that lies within the interval is due the next time the loop runs) without anybody having to wait for it.  Time only moves
    forward; the loop belongs to one Relay and goes with it."""

    def __init__(self, loop):
        real = loop.time
        self.offset = 0.0
        loop.time = lambda: real() + self.offset

    def advance(self, seconds):
        self.offset += seconds


class _Gate(asyncio.Event):
    """the event a send to a client that is not reading waits on (Conn._unstall), which also knows *which* tasks are parked in
    such a send: the connection's sender task (EVENT / EOSE of subscriptions) or its handler itself (OK / NOTICE / AUTH)"""

    def __init__(self):
        super().__init__()
        self.parked = set()

    async def wait(self):
        me = asyncio.current_task()
        self.parked.add(me)
        try:
            return await super().wait()
        finally:
            self.parked.discard(me)


# lib.proto.Conn starts every handler with this idle timeout (message_timeout, shipped default 1800 s): a client that sends nothing
# for that long is rightly disconnected by the relay, so the simulated time of one scenario stays below it
HARNESS_MESSAGE_TIMEOUT = 3600.0
# How long the slow client does not read, in seconds of the loop's clock.  Not tuned to any option: it is most of the shipped idle
# timeout (1800 s), and a bound on how long a send may take that is meant to act before the idle timeout does is shorter than that;
# operating-system and proxy write timeouts are of the order of 10..10^2 s.
STALL_S = 1500.0


def _event_matching(relay, rng, f, content):
    """a fresh event that the filter f (kinds / authors / one tag, as _simple_match reads it) matches"""
    authors = [k.public_key.hex() for k in KEYS]
    key = KEYS[authors.index(rng.choice(f["authors"]))] if "authors" in f else KEYS[rng.randrange(len(KEYS))]
    kind = rng.choice(f["kinds"]) if "kinds" in f else rng.choice([1, 7, EPHEMERAL])
    tags = [["t", rng.choice(f["#t"])]] if "#t" in f else ([["t", "z"]] if rng.random() < 0.2 else [])
    return relay.signed_event(key, kind=kind, content=content, tags=tags)


def slow_consumer_resumes(report, backend, rng, tag):
    """A slow consumer that resumes.  One connection stops reading its socket while something is owed to it — the stored answer
    of a REQ, live pushes of its subscriptions (both wait in its sender task), the OK of an EVENT or the NOTICE of an unusable REQ
    (the handler itself waits in the send) — goes on sending commands or not, stays like that for STALL_S seconds of the loop's clock
    (so that whatever bound the relay puts on a send, an idle period or a queue wait has long expired), then reads again and keeps
    using the connection; once or twice per session.  The stalled_* scenarios above never resume: they see what a non-reading client
    does to the others, this one sees what the relay has made of the connection itself.  What the relay does about a peer that does
    not read — wait, drop what it could not deliver, close the connection — is its business.  What must hold:
      * the relay either closed the connection (then its handler ends as soon as the transport reports the close, and its
        subscriptions are gone) or the connection works: every REQ sent after the client resumed gets its EOSE, every EVENT it sends
        its OK true, and an event published by another connection afterwards arrives for every subscription the client has opened
        and not closed and that matches it (before, during or after the stall) — never an open connection that has silently
        stopped answering;
      * throughout (client not reading, time passing, client reading again) every EVENT of another connection gets OK true and is
        pushed to a reading subscriber;
      * on the disconnect the handler ends, nothing escapes it, nothing is sent to it afterwards; at the end the registry is empty and
        no task is left.
    Whether the messages that fell due while the client was not reading are delivered afterwards is counted, not judged."""
    auth = rng.random() < 0.25
    relay = Relay(backend, authentication={"enabled": True, "relay_urls": [URL], "actions": {}} if auth else None)
    clock = _LoopClock(relay.loop)
    gate = _Gate()
    conns, log, failed = [], [], []
    payload = {"backend": backend, "case": "slow-consumer-resumes", "nip42": auth, "tag": tag, "seconds_not_reading": STALL_S, "steps": log}

    def fail(what, **more):
        failed.append(what)
        report.property_failure("%s: %s (step %d: %r)" % (backend, what, len(log), log[-1] if log else None),
                                dict(copy.deepcopy(payload), **more), None)

    def connect(addr, unstall=None):
        c = Conn(relay, remote_addr=addr, start=False)
        if unstall is not None:
            c._unstall = unstall
        c.task = relay.loop.create_task(c._main())
        conns.append(c)
        return c

    def eose_for(c, n0, sub_id):
        return any(isinstance(f, list) and len(f) > 1 and f[0] == "EOSE" and f[1] == sub_id for f in c.frames(n0))

    def ok_for(c, n0, ev):
        for f in c.frames(n0):
            if isinstance(f, list) and len(f) > 2 and f[0] == "OK" and f[1] == ev["id"]:
                return f[2]
        return None

    def pushed(c, n0, ev):
        return Counter(f[1] for f in c.frames(n0) if isinstance(f, list) and len(f) > 2 and f[0] == "EVENT" and isinstance(f[2], dict)
                       and f[2].get("id") == ev["id"])

    try:
        slow = connect("6.6.6.6", gate)
        pub = connect("4.4.4.4")
        watcher = connect("5.5.5.5")
        authors = [k.public_key.hex() for k in KEYS]
        subs = {}             # what the slow client has opened and not closed, from the messages it sent itself (id -> filter)
        fresh = {"n": 0}

        def at_rest():
            """Relay.quiescent, except that the handler of a client that is not reading may itself be waiting in a send (then it is not
            waiting for the next message, and the messages the client sends meanwhile stay in its buffer): that is rest, too"""
            if not slow.done and slow.stalled and slow.task in gate.parked:
                everybody = relay.conns
                relay.conns = [c for c in everybody if c is not slow]
                try:
                    return relay.quiescent()
                finally:
                    relay.conns = everybody
            return relay.quiescent()

        def rest(patience=8.0):
            return _until_quiet(relay, 3.0 if failed else patience, at_rest=at_rest)

        def new_filter():
            f = {}
            r = rng.random()
            if r < 0.7:
                f["kinds"] = rng.choice([[1], [7], [1, 7], [EPHEMERAL], [1, EPHEMERAL], [1, 7, EPHEMERAL]])
            if r > 0.5:
                f["authors"] = rng.sample(authors, rng.choice([1, 1, 2]))
            if rng.random() < 0.15:
                f["#t"] = [rng.choice(["x", "y"])]
            return f

        def req(why):
            sid = "s%d" % fresh["n"]
            fresh["n"] += 1
            f = new_filter()
            log.append(["REQ", "slow", sid, f, why])
            slow.send(["REQ", sid, f], settle=False)
            subs[sid] = f
            return sid

        def event_for_slow(content):
            """an event that at least one open subscription of the slow client matches (any event when it has none)"""
            fresh["n"] += 1
            f = subs[rng.choice(sorted(subs))] if subs else {}
            return _event_matching(relay, rng, f, "%s %d %s %s" % (content, fresh["n"], backend, tag))

        def others_served(why):
            """an EVENT of the well-behaved publisher: OK true, pushed to the reading subscriber.  -> the event"""
            ev = event_for_slow("published " + why)
            log.append(["EVENT", "publisher", {"kind": ev["kind"], "pubkey": ev["pubkey"], "tags": ev["tags"]}, why])
            n0, nw = len(pub.out), len(watcher.out)
            pub.send(["EVENT", ev], settle=False)
            rest()
            ok = ok_for(pub, n0, ev)
            if ok is not True:
                fail("%s, a fresh valid EVENT of another connection was %s" % (why, "not answered" if ok is None else "refused"), event=ev)
            elif not pushed(watcher, nw, ev):
                fail("%s, an event accepted from another connection was not pushed to a reading subscriber" % why, event=ev)
            return ev

        # ---- an ordinary beginning -------------------------------------------------------------------------
        rest()
        watcher.send(["REQ", "w", {"kinds": [1, 7, EPHEMERAL]}], settle=False)
        rest()
        for i in range(rng.randint(0, 4)):
            ev = relay.signed_event(KEYS[rng.randrange(3)], kind=rng.choice([1, 1, 7]), content="stored %d %s %s" % (i, backend, tag),
                                    tags=[["t", rng.choice(["x", "y", "z"])]] if rng.random() < 0.4 else [], created_at=T0 + 100 + i)
            pub.send(["EVENT", ev], settle=False)
        rest()
        n0 = len(slow.out)
        first = [req("before") for _ in range(rng.randint(1, 3))]
        rest()
        silent = [sid for sid in first if not eose_for(slow, n0, sid)]
        if silent:
            fail("%d REQ(s) on an idle relay got no EOSE" % len(silent), subscriptions=silent)

        # ---- the client stops reading, time passes, it reads again -----------------------------------------
        rounds = rng.choice([1, 1, 2])
        assert rounds * STALL_S < 0.9 * HARNESS_MESSAGE_TIMEOUT      # (the watcher sends nothing all the while)
        closed_by_relay = False
        for rnd in range(rounds):
            if failed:
                break
            gate.clear()
            slow.stalled = True
            log.append(["stops-reading", "slow"])
            during = []
            for k in range(rng.randint(1, 4)):
                # the first thing that happens falls due to the client (or its not reading is not noticeable at all)
                what = rng.choice(["req", "live", "live", "event", "notice"] if k == 0 else ["req", "live", "live", "event", "notice", "close", "close"])
                if what == "live" and not subs:
                    what = "req"
                if what == "req" and len(subs) < 8:
                    during.append(req("while not reading"))
                    rest()
                elif what == "live":
                    others_served("while another client was not reading its socket")
                elif what == "event":
                    ev = event_for_slow("own, while not reading")
                    log.append(["EVENT", "slow", {"kind": ev["kind"], "pubkey": ev["pubkey"], "tags": ev["tags"]}, "while not reading"])
                    slow.send(["EVENT", ev], settle=False)
                    rest()
                elif what == "notice":
                    fresh["n"] += 1
                    log.append(["REQ", "slow", "none%d" % fresh["n"], {"kinds": "x"}, "while not reading"])
                    slow.send(["REQ", "none%d" % fresh["n"], {"kinds": "x"}], settle=False)
                    rest()
                elif what == "close" and subs:
                    sid = rng.choice(sorted(subs))
                    log.append(["CLOSE", "slow", sid, "while not reading"])
                    slow.send(["CLOSE", sid], settle=False)
                    del subs[sid]
                    rest()
                report.count("slow_consumer_while_not_reading_" + what)
                if failed:
                    break
            if failed:
                break
            parked = {"sender": any(t is not slow.task for t in gate.parked), "handler": slow.task in gate.parked}
            for who, is_parked in parked.items():
                if is_parked:
                    report.count("slow_consumer_stalls_with_the_%s_waiting_in_a_send" % who)
            clock.advance(STALL_S)
            log.append(["time-passes", STALL_S])
            rest()
            if rng.random() < 0.6:
                others_served("%d s after another client had stopped reading its socket" % STALL_S)
                if failed:
                    break
            mark = len(slow.out)
            if slow.closed_with is not None and not slow.done:
                slow.inbox.put_nowait(DISCONNECT)       # the relay closed the websocket meanwhile: the transport says so
            slow.stalled = False
            gate.set()
            log.append(["reads-again", "slow"])
            rest()
            report.count("slow_consumer_stalls")
            if slow.exc is not None:
                fail("%s escaped the handler of a client that had not read its socket for %d s: %r" % (type(slow.exc).__name__, STALL_S, slow.exc))
                break
            if slow.done or slow.closed_with is not None:
                # the relay gave the connection up: allowed.  The transport tells the handler (as a real websocket's receive does
                # once the close went out); the handler must then end
                closed_by_relay = True
                report.count("slow_consumer_connections_closed_by_the_relay")
                if slow.done and slow.closed_with is None:
                    fail("the handler of the client that had not read its socket ended without closing the websocket")
                if not slow.done:
                    slow.inbox.put_nowait(DISCONNECT)
                    rest()
                subs.clear()
                break
            for sid in during:
                report.count("slow_consumer_eose_of_a_req_sent_while_not_reading_" + ("delivered" if eose_for(slow, mark, sid) else "not_delivered"))
            # -- the connection was kept: it works
            kept = "the relay kept the connection of a client open that had not read its socket for %d s and reads again, but " % STALL_S
            probes = ["req", "live"] + rng.sample(["req", "live", "event", "close"], rng.randint(0, 3))
            rng.shuffle(probes)
            for what in probes:
                if failed:
                    break
                if what == "req" and len(subs) < 8:
                    n0 = len(slow.out)
                    sid = req("after reading again")
                    rest()
                    report.count("slow_consumer_req_after_resuming")
                    if not eose_for(slow, n0, sid):
                        fail(kept + "a REQ it sent after it resumed got no EOSE", subscription=sid, filter=subs[sid],
                             frames_since=[t[:200] for t in slow.out[n0:n0 + 10]], messages_queued_for_it=slow._queue.qsize() if slow._queue else 0)
                elif what == "live" and subs:
                    n0 = len(slow.out)
                    ev = others_served("after the client that had not been reading resumed")
                    report.count("slow_consumer_live_event_after_resuming")
                    want = sorted(sid for sid, f in subs.items() if _simple_match(f, ev))
                    got = pushed(slow, n0, ev)
                    missing = [sid for sid in want if sid not in got]
                    if missing and not failed:
                        fail(kept + "an event published afterwards that matches its open subscription(s) %r was pushed for %r only" % (want, sorted(got)),
                             event=ev, open_subscriptions=dict(subs), missing=missing, messages_queued_for_it=slow._queue.qsize() if slow._queue else 0)
                elif what == "event":
                    ev = event_for_slow("own, after reading again")
                    log.append(["EVENT", "slow", {"kind": ev["kind"], "pubkey": ev["pubkey"], "tags": ev["tags"]}, "after reading again"])
                    n0 = len(slow.out)
                    slow.send(["EVENT", ev], settle=False)
                    rest()
                    report.count("slow_consumer_event_after_resuming")
                    ok = ok_for(slow, n0, ev)
                    if ok is not True:
                        fail(kept + "a fresh valid EVENT it sent after it resumed was %s" % ("not answered" if ok is None else "refused"), event=ev)
                elif what == "close" and subs:
                    sid = rng.choice(sorted(subs))
                    log.append(["CLOSE", "slow", sid, "after reading again"])
                    slow.send(["CLOSE", sid], settle=False)
                    del subs[sid]
                    rest()

        # ---- endings ---------------------------------------------------------------------------------------
        if slow.stalled:          # (only after a failure in mid-stall: what follows is the ordinary ending)
            slow.stalled = False
            gate.set()
        if not slow.done:
            log.append(["disconnect", "slow"])
            slow.inbox.put_nowait(DISCONNECT)
            rest()
        if not slow.done:
            fail("the handler of the client that had stopped reading and resumed did not end %s"
                 % ("after the relay closed its websocket" if closed_by_relay else "on its disconnect"))
        if slow.exc is not None:
            fail("%s escaped the handler of the client that had stopped reading and resumed: %r" % (type(slow.exc).__name__, slow.exc))
        residue = (len(slow.out), slow._queue.qsize() if slow._queue is not None else 0)
        if not failed:
            others_served("after the client that had stopped reading and resumed had gone")
            if slow.done and (len(slow.out), slow._queue.qsize() if slow._queue is not None else 0) != residue:
                fail("the connection of the slow client, which has ended, was sent or had queued for it something more")
        for c in conns:
            if not c.done:
                c.inbox.put_nowait(DISCONNECT)
        rest()
        if any(not c.done for c in conns if c is not slow):
            fail("the handler(s) of connection(s) %s did not end on their disconnect" % ", ".join(c.remote_addr for c in conns if not c.done))
        for c in conns:
            if c is not slow and c.done and c.exc is not None:
                fail("closing connection %s escaped: %r" % (c.remote_addr, c.exc))
        if all(c.done for c in conns):
            if any(v for v in relay.open_subscriptions().values()):
                fail("subscriptions survive their connections (slow consumer that resumed): %r" % relay.open_subscriptions())
            left = [t for t in asyncio.all_tasks(relay.loop) if not t.done()]
            names = sorted(getattr(t.get_coro(), "__qualname__", str(t)) for t in left)
            leaked = [n for n in names if any(k in n for k in ("start_client", "send_subscriptions", "run_query", "notify", "_main"))]
            if leaked:
                fail("%d task(s) of ended connections are still pending: %r" % (len(leaked), sorted(set(leaked))))
        report.case(("slow-resume", backend, tag, json.dumps(log, sort_keys=True)[:4000]), nontrivial=True,
                    sample={"case": "slow-consumer-resumes", "backend": backend, "nip42": auth, "stalls": rounds, "seconds_not_reading": STALL_S,
                            "steps": len(log), "closed_by_the_relay": closed_by_relay, "first_steps": log[:6]})
        report.count("slow_consumer_sessions")
        report.count("slow_consumer_steps", len(log))
        return not failed
    finally:
        # (as in stalled_live_flood: a relay that has stopped moving would make Relay.close wait for each handler in turn)
        stuck = [c for c in conns if not c.done]
        rest_tasks = [c.task for c in stuck] + [t for t in asyncio.all_tasks(relay.loop) if not t.done() and any(
            k in getattr(t.get_coro(), "__qualname__", "") for k in ("send_subscriptions", "run_query", "notify"))]
        for t in rest_tasks:
            t.cancel()
        if rest_tasks:
            relay.run(asyncio.wait(rest_tasks, timeout=2.0))
        for c in stuck:
            c.done = True
        relay.close()


KEYS = []
# (events, live subscriptions of the silent client) per backend: the two axes along which the undelivered messages grow.  An event
# costs a few ms on LMDB (ephemeral: no write) and tens of ms on SQLite (every insert is several round trips to the aiosqlite
# thread), so the quick tier takes the event axis far on LMDB and the subscription axis (30 of the 32 a connection may hold) on
# SQL; the code between the socket and the storage is the same for both.  2500 resp. 7500 undelivered messages in the quick tier.
LIVE_FLOODS = {"quick": {"kv": [(2500, 1)], "sql": [(250, 30)]},
               "thorough": {"kv": [(20000, 1), (3000, 8), (400, 30)], "sql": [(1500, 1), (300, 30), (600, 4)]}}


# (sessions, steps per session) of midlife_sessions: a step is one settled message, ~10 ms on LMDB and ~25 ms on SQLite
MIDLIFE = {"quick": {"sql": (10, 40), "kv": (12, 40)}, "thorough": {"sql": (80, 80), "kv": (120, 80)}}
# sessions of slow_consumer_resumes (1-2 stalls of STALL_S each, ~20-40 settled messages)
SLOW_RESUME = {"quick": {"sql": 16, "kv": 20}, "thorough": {"sql": 150, "kv": 250}}
# (sessions, steps per session) of indistinguishable_connections: a step is one settled message
SAME_ID = {"quick": {"sql": (6, 45), "kv": (8, 45)}, "thorough": {"sql": (80, 90), "kv": (120, 90)}}


def run(report, tier, seed):
    rng = random.Random(seed)
    drv = common.Driver()
    from aionostr.key import PrivateKey

    KEYS[:] = [PrivateKey(bytes([i + 1]) * 32) for i in range(3)]
    report.coverage["rule"] = (
        "gate: random JSON values + command-word corners; ladder: 15 exception classes injected at subscribe / unsubscribe / ws_recv / "
        "add_event on both backends; grammar: every JSON type (23 values) at the whole message, the command word, the argument of each "
        "command, each filter position and field, each event / AUTH-event field (also missing), tag and tag item positions; validly "
        "signed events with hostile field types and sizes; 20 raw texts (invalid JSON, NaN, 1e400, lone surrogate, 3000-deep nesting, "
        "100 kB id, 600 filters); with and without NIP-42; after every frame: probe REQ on the same and on a second connection, "
        "periodically a fresh EVENT that must be accepted and pushed to a watcher's two subscriptions; a subscriber that stops reading "
        "while max_limit+12 events match it; the live-push side of the same at scale: a client with 1..30 live subscriptions stops "
        "reading, 2-3 other connections publish 250..2500 matching events in bursts (2500..7500 undelivered messages; thorough: "
        "up to 20000 events), OK for every EVENT in order, every event pushed exactly once to a reading subscriber, EOSE for "
        "REQs in between, then the silent client disconnects (handler ends, others served, no task left); clients whose last command(s) and disconnect are buffered together, so that the "
        "connection ends before its sender or query task has run a step; a relay with per-address limits for three commands under a "
        "simulated clock, connections of three addresses coming and going with pauses of 0 s to 100 s (every disconnect runs the "
        "limiter's cleanup); sessions of 2-4 connections on a relay with NIP-42 on (three configurations of actions / throttle, three "
        "role assignments, anonymous may query and save) in which AUTH - fully valid, wrong in one of seven respects, repeated, as "
        "another identity, buffered together with the next command - arrives at random points between REQ (new / re-used id, no usable "
        "filter), CLOSE (open / unknown id), EVENT and disconnect: after every step the registry holds exactly the subscriptions "
        "opened and not closed, every fresh event is pushed once to exactly the open matching subscriptions of every connection, "
        "nothing is sent to or queued for an ended connection, at the end no task is left; slow consumers that resume: a client with "
        "1-3 subscriptions stops reading while 1-4 things fall due to it (stored answer of a REQ, live pushes, OK of an own EVENT, "
        "NOTICE; its sender task and / or its handler wait in the send), it may go on sending REQ / CLOSE / EVENT, 1500 s pass on the "
        "loop's clock (advanced, not waited for: longer than any bound on a send that is to act before the 1800 s idle timeout), it "
        "reads again, once or twice per session, with and without NIP-42: either the relay closed the connection (the handler ends) or "
        "every REQ sent afterwards gets its EOSE, every EVENT its OK true, an event published by another connection afterwards "
        "arrives for every open matching subscription; the others are served throughout; clean ending, empty registry, no task left; "
        "connections that nothing but their being different connections tells apart: 2-6 connections from ONE remote address on a "
        "relay whose random source has a pool of 1-2 values (so the connection ids have equal text), subscription limit 4, all using "
        "the same 8 subscription ids: REQ / re-REQ, bursts of limit+1..3 REQs buffered together, CLOSE (also of ids only others "
        "hold), EVENT, disconnect, newcomers; after every step the registry holds, as a multiset, exactly the subscription sets "
        "opened and not closed, a REQ under the OWN limit gets its EOSE, every event is pushed once to exactly the open matching "
        "subscriptions of every open connection, nothing goes to an ended one, the registry is empty only after the last left; "
        "non-trivial = the frame got an answer")
    report.assumptions += ["quiescence after every frame", "the websocket layer (falcon/uvicorn) is replaced by in-memory callables; "
                           "frame size limits of the real server are not in scope"]
    try:
        gate_corr(report, drv, rng, 300 if tier == "quick" else 20000)
        for backend in ("sql", "kv"):
            # (first: every storage set up in this process makes the next SQL connection slower to open, see _until_quiet)
            for n_events, n_subs in LIVE_FLOODS[tier if tier == "quick" else "thorough"][backend]:
                stalled_live_flood(report, backend, rng, n_events, n_subs, "%dx%d" % (n_events, n_subs))
            ladder_corr(report, drv, backend)
            stalled_reader(report, backend)
            for i in range(2 if tier == "quick" else 25):
                pipelined_disconnect(report, backend, rng, i)
            for i in range(4 if tier == "quick" else 60):
                limited_connections(report, backend, rng, i)
        for backend in ("sql", "kv"):
            for auth in ((False,) if tier == "quick" and backend == "kv" else (False, True)):
                robustness(report, drv, backend, auth, rng, tier)
        # (last: the random choices of the scenarios above stay what they were for a given seed)
        for backend in ("sql", "kv"):
            n_sessions, n_steps = MIDLIFE[tier if tier == "quick" else "thorough"][backend]
            for i in range(n_sessions):
                midlife_sessions(report, backend, rng, i, n_steps)
        # (drawn from a generator of its own, so that the random choices of the scenarios around it stay what they were for a seed)
        rng_same = random.Random("indistinguishable-connections-%s" % seed)
        for backend in ("sql", "kv"):
            n_sessions, n_steps = SAME_ID[tier if tier == "quick" else "thorough"][backend]
            for i in range(n_sessions):
                indistinguishable_connections(report, backend, rng_same, i, n_steps)
        for backend in ("sql", "kv"):
            for i in range(SLOW_RESUME[tier if tier == "quick" else "thorough"][backend]):
                if not slow_consumer_resumes(report, backend, rng, i):
                    # the failing session is recorded; every further one would wait for the same connection that no longer moves
                    report.count("slow_consumer_sessions_not_run_after_a_failing_one")
                    break
    finally:
        drv.close()


def replay(report, path):
    data = json.load(open(path))
    report.coverage["note"] = "replay re-runs the grammar with the recorded seed; the grammar is deterministic per seed"
    run(report, "quick", data.get("seed", 1))
