"""
C18 — rate limiter.  Tie: real nostr_relay.rate_limiter.RateLimiter under an injected integer clock
vs the Lean model (driver ops rl.*): every is_limited decision and the deque contents after every
operation.  Search: window bound / over-blocking / override / exemption / state bound evaluated on
the implementation's own decisions.
"""
import random
import ipaddress
import itertools

from lib import common

THEOREMS_TIED = ["C18_window_bound", "C18_refused_only_when_full", "C18_exempt", "C18_specific_precedence", "C18_cleanup_threshold_covers", "C18_window_bound_with_cleanup"]

INTERVAL_NAMES = {1: ["s", "second", "sec", "S"], 60: ["m", "minute", "min"], 3600: ["h", "hour", "hr"]}
ADDRS4 = ["1.2.3.4", "5.6.7.8", "10.0.0.1"]
ADDRS6 = ["::1", "2001:db8::1"]
CMDS = ["EVENT", "REQ", "ACCEPT"]


class Clock:
    def __init__(self):
        self.now = 0

    def __call__(self):
        return self.now


def make_impl(options, clock):
    from nostr_relay import rate_limiter as rl

    rl.perf_counter = clock
    clock.now = 0
    return rl.RateLimiter(options)


def gen_rule_string(rng, exempt_ok=True):
    parts = []
    rules = []
    for _ in range(rng.choice([1, 1, 2, 3])):
        interval = rng.choice([1, 1, 60, 60, 3600])
        freq = rng.choice([1, 1, 2, 2, 3, 5]) if not (exempt_ok and rng.random() < 0.12) else -1
        parts.append("%d/%s" % (freq, rng.choice(INTERVAL_NAMES[interval])))
        rules.append((interval, freq))
    rules.sort(reverse=True)
    return ",".join(parts), rules


def gen_config(rng, allow_v6_specific=True):
    options, parsed = {}, {"global": {}, "ip": {}, "specific": {}}
    if rng.random() < 0.6:
        options["global"] = {}
        for c in rng.sample(CMDS, rng.choice([1, 2])):
            s, r = gen_rule_string(rng, exempt_ok=False)
            options["global"][c] = s
            parsed["global"][c] = r
    if rng.random() < 0.7:
        options["ip"] = {}
        for c in rng.sample(CMDS, rng.choice([1, 2])):
            s, r = gen_rule_string(rng, exempt_ok=False)
            options["ip"][c] = s
            parsed["ip"][c] = r
    if rng.random() < 0.6:
        pool = ADDRS4 + (ADDRS6 if allow_v6_specific else [])
        for a in rng.sample(pool, rng.choice([1, 1, 2])):
            options[a] = {}
            parsed["specific"][a] = {}
            for c in rng.sample(CMDS, rng.choice([1, 2])):
                s, r = gen_rule_string(rng)
                options[a][c] = s
                parsed["specific"][a][c] = r
    if not options:
        options["ip"] = {"EVENT": "2/s"}
        parsed["ip"]["EVENT"] = [(1, 2)]
    return options, parsed


def gen_ops(rng, parsed, n):
    """arrival times are non-decreasing; gaps are drawn from the rule intervals themselves"""
    intervals = sorted({i for scope in ("global", "ip") for rs in parsed[scope].values() for (i, _) in rs}
                       | {i for d in parsed["specific"].values() for rs in d.values() for (i, _) in rs} | {1})
    gaps = [0, 0, 0, 1, 1, 2]
    for i in intervals:
        gaps += [i - 1, i, i + 1, i // 2 + 1]
    gaps.append(max(intervals) + 1)
    gaps.append(max(intervals) * 2 + 3)
    addrs = ADDRS4[:2] + [rng.choice(ADDRS6)] + list(parsed["specific"].keys())
    now, ops = 0, []
    cmds_used = sorted({c for scope in ("global", "ip") for c in parsed[scope]}
                       | {c for d in parsed["specific"].values() for c in d}) or ["EVENT"]
    focus = rng.choice(addrs)
    for _ in range(n):
        now += max(0, rng.choice(gaps))
        if rng.random() < 0.06:
            ops.append(("cleanup", now))
        else:
            a = focus if rng.random() < 0.6 else rng.choice(addrs)
            c = rng.choice(cmds_used) if rng.random() < 0.85 else rng.choice(CMDS)
            ops.append(("msg", a, c, now))
    return ops


def dump_impl(lim):
    out = {}
    for scope, cmds in lim.recent_commands.items():
        name = "global" if scope == "global" else str(ipaddress.ip_address(scope))
        for cmd, dq in cmds.items():
            if len(dq):
                out["%s|%s" % (name, cmd)] = list(dq)
    return out


def model_cfg(parsed):
    as_lists = lambda d: {c: [[i, f] for (i, f) in rs] for c, rs in d.items()}
    return {"global": as_lists(parsed["global"]), "ip": as_lists(parsed["ip"]),
            "specific": {a: as_lists(d) for a, d in parsed["specific"].items()}}


def norm_addr(a):
    return str(ipaddress.ip_address(a))


def run_case(report, drv, options, parsed, ops, tag, model=True, replay=None, key=None):
    """model=False: the implementation's decisions are judged by the oracle only (scenarios too large for the
    model's association lists); replay / key: a compact replayable description of a generated scenario"""
    clock = Clock()
    lim = make_impl(options, clock)
    # parse_option correspondence (sorted rule lists)
    impl_rules = {k: {c: [(i, f) for (i, f) in rs] for c, rs in v.items()} for k, v in lim.rules.items()}
    exp_rules = {}
    for k in ("global", "ip"):
        if parsed[k]:
            exp_rules[k] = parsed[k]
    exp_rules.update(parsed["specific"])
    if impl_rules != exp_rules:
        report.correspondence_break("rate_limiter.parse_option", {"options": options}, impl_rules, exp_rules)
        return
    lines = [{"op": "rl.reset", "cfg": model_cfg(parsed)}]
    impl_out = ["ok"]
    history = []  # (addr, cmd, now, limited)
    for op in ops:
        if op[0] == "cleanup":
            clock.now = op[1]
            lim.cleanup()
            lines.append({"op": "rl.cleanup", "now": op[1]})
            impl_out.append("ok")
        else:
            _, a, c, now = op
            clock.now = now
            try:
                r = bool(lim.is_limited(a, [c]))
            except Exception as e:  # noqa
                r = "raise"
            history.append((a, c, now, r))
            lines.append({"op": "rl.limited", "addr": norm_addr(a), "cmd": c, "now": now})
            impl_out.append(r)
        if model:
            lines.append({"op": "rl.dump"})
            impl_out.append(dump_impl(lim))
    model_out = drv.batch(lines) if model else []
    for i, (mo, io) in enumerate(zip(model_out, impl_out)):
        if mo != io:
            report.correspondence_break(
                "rate_limiter.is_limited/cleanup", {"options": options, "ops": ops[: (i + 1) // 2 + 1], "line": lines[i]},
                io, mo)
            break
    oracle(report, options, parsed, ops, history, lim, clock, replay=replay)
    report.case(key if key is not None else (tag, str(options), tuple(ops)), nontrivial=any(h[3] is True for h in history),
                sample={"options": options, "ops": ops[:8], "decisions": [h[3] for h in history][:8]})
    report.count("messages", len(history))
    report.count("refused", sum(1 for h in history if h[3] is True))
    report.count("cleanups", sum(1 for o in ops if o[0] == "cleanup"))


def applicable_rules(parsed, addr, cmd):
    """[(scope_key, rules, is_specific)] in evaluation order per the documented semantics:
    a specific-address rule overrides the generic ones."""
    sp = parsed["specific"].get(addr, {}).get(cmd)
    if sp is not None:
        return [("specific:" + addr, sp)]
    out = []
    if cmd in parsed["global"]:
        out.append(("global", parsed["global"][cmd]))
    if cmd in parsed["ip"]:
        out.append(("ip:" + addr, parsed["ip"][cmd]))
    return out


def oracle(report, options, parsed, ops, history, lim, clock, replay=None, note=""):
    """C18 evaluated on the implementation's own decisions: an independent sliding-window count, per rule scope,
    of the messages the limiter let through.  `note` is appended to what is reported (where the decisions were observed);
    lim=None: decisions only, no look at the limiter's state."""
    if replay is None:
        replay = {"options": options, "ops": ops}
    # canonical address names
    specific = {norm_addr(a): v for a, v in parsed["specific"].items()}
    p2 = {"global": parsed["global"], "ip": parsed["ip"], "specific": specific}
    admitted = {}  # scope_key -> cmd -> [times]   (messages the limiter let through)
    seen_by_global = {}  # cmd -> [times] every message that reached and passed the global rules
    cleanups = [o[1] for o in ops if o[0] == "cleanup"]
    for (a, c, now, limited) in history:
        a = norm_addr(a)
        v6_specific = ":" in a and c in specific.get(a, {})
        rules_here = applicable_rules(p2, a, c)
        if limited == "raise":
            report.property_failure("is_limited raised" + note, replay, None)
            continue
        if limited:
            # refused only when some applicable rule already passed n messages within its interval
            justified = False
            for key, rules in rules_here:
                for (interval, n) in rules:
                    if n < 0:
                        continue
                    cnt = sum(1 for t in admitted.get(key, {}).get(c, []) if now - t <= interval and t <= now)
                    if cnt >= n:
                        justified = True
            if not justified:
                cls = None
                if True:
                    # explained by refused messages that consumed global budget?
                    g = p2["global"].get(c)
                    if g and c not in specific.get(a, {}):
                        for (interval, n) in g:
                            cnt = sum(1 for t in seen_by_global.get(c, []) if now - t <= interval)
                            if n >= 0 and cnt >= n:
                                cls = "rl-refused-consumes-global"
                report.property_failure(
                    "message %s %s at t=%d refused although no applicable rule had passed n messages%s" % (a, c, now, note),
                    replay, cls)
        else:
            for key, rules in rules_here:
                lst = admitted.setdefault(key, {}).setdefault(c, [])
                lst.append(now)
                for (interval, n) in rules:
                    if n < 0:
                        continue
                    # window bound: the newest admitted message closes the worst window
                    cnt = sum(1 for t in lst if now - t < interval)
                    if cnt > n:
                        cls = None
                        report.property_failure(
                            "%d messages %s %s admitted within %d (limit %d) up to t=%d%s" % (cnt, a, c, interval, n, now, note),
                            replay, cls)
        # bookkeeping for the global-budget explanation: the message passes global if not refused by it
        if c in p2["global"] and not (c in specific.get(a, {})):
            if not limited:
                seen_by_global.setdefault(c, []).append(now)
            else:
                # refused: by global or by ip?  if the ip rules alone refuse it, global had inserted it
                ipr = p2["ip"].get(c)
                if ipr:
                    cnt_ok = True
                    for (interval, n) in p2["global"][c]:
                        cnt = sum(1 for t in seen_by_global.get(c, []) if now - t < interval)
                        if n >= 0 and cnt >= n:
                            cnt_ok = False
                    if cnt_ok:
                        seen_by_global.setdefault(c, []).append(now)
    # state bound: no deque entry older than the longest interval of its governing rules survives an insertion
    now = clock.now
    for scope, cmds in (lim.recent_commands.items() if lim is not None else ()):
        for cmd, dq in cmds.items():
            if scope == "global":
                rules = p2["global"].get(cmd)
            else:
                a = str(ipaddress.ip_address(scope))
                rules = specific.get(a, {}).get(cmd) or p2["ip"].get(cmd)
            if not rules or not len(dq):
                continue
            max_i = max(i for (i, _) in rules)
            budget = sum(max(n, 0) for (_, n) in rules) + 1
            if len(dq) > budget and (dq[0] - dq[-1]) > max_i:
                report.property_failure(
                    "deque for %s/%s holds %d entries spanning %d s (longest interval %d s): state grows with lifetime"
                    % (scope if scope == "global" else str(ipaddress.ip_address(scope)), cmd, len(dq), dq[0] - dq[-1], max_i),
                    replay, "rl-deque-never-pruned")


CORPUS = [
    # (options, ops) minimised cases kept from development; run first
    ({"ip": {"EVENT": "2/s"}}, [("msg", "1.2.3.4", "EVENT", 0), ("msg", "1.2.3.4", "EVENT", 0), ("msg", "1.2.3.4", "EVENT", 0),
                                ("msg", "1.2.3.4", "EVENT", 1), ("msg", "1.2.3.4", "EVENT", 1)]),
    ({"global": {"REQ": "1/s"}, "ip": {"REQ": "1/m"}},
     [("msg", "1.2.3.4", "REQ", 0), ("msg", "1.2.3.4", "REQ", 5), ("msg", "5.6.7.8", "REQ", 5), ("cleanup", 100),
      ("msg", "5.6.7.8", "REQ", 100)]),
    ({"1.2.3.4": {"EVENT": "-1/s"}, "ip": {"EVENT": "1/h"}},
     [("msg", "1.2.3.4", "EVENT", 0), ("msg", "1.2.3.4", "EVENT", 0), ("msg", "5.6.7.8", "EVENT", 1), ("msg", "5.6.7.8", "EVENT", 2)]),
]


def parsed_from_options(options):
    from nostr_relay import rate_limiter as rl

    lim = rl.RateLimiter(options)
    parsed = {"global": {}, "ip": {}, "specific": {}}
    for k, v in lim.rules.items():
        if k in ("global", "ip"):
            parsed[k] = {c: list(rs) for c, rs in v.items()}
        else:
            parsed["specific"][k] = {c: list(rs) for c, rs in v.items()}
    return parsed


# ---------------------------------------------------------------------------------------------------------------
# Many distinct addresses inside one window.
#
# "n per interval" is a bound per address, whatever else the relay serves meanwhile: the random cases above use a
# handful of addresses, so nothing in them depends on how the per-address state behaves when the NUMBER of
# addresses seen inside one window is large (IPv6 privacy addresses, proxies, a botnet).  A scenario of this
# family: a few "focus" addresses use up their allowance; a crowd of `size` other, pairwise distinct addresses
# (IPv4 and IPv6 mixed) sends one limited command each (a few send two), with cleanup() and probes of one focus
# address in between; still inside the window of their first admitted message the focus addresses come back
# (window bound: they must be refused), so do the earliest members of the crowd (n each, then refused); at the
# boundary and after the window everybody is admitted again (nobody is over-blocked).  All of it is judged by
# `oracle` (the sliding-window count of what the limiter itself let through), the smaller sizes additionally
# against the Lean model (its association-list state is quadratic in the number of addresses).
#
# Sizes: nothing in the property mentions a number of addresses, so the sizes are chosen on general grounds to span
# orders of magnitude up to what one relay process may plausibly see inside an hour: a /64 of privacy addresses or
# a mid-sized botnet, i.e. tens of thousands at the quick tier and more at the thorough one.
CROWD_MODEL_MAX = 300  # up to this many addresses every decision and every deque is also compared with the model
CROWD_SIZES = {"quick": [40, 300, 300, 2500, 25000, 25000, 25000, 60000],  # about 1 s per 20 000 addresses
               "thorough": [40, 40, 300, 300, 300, 2500, 2500, 25000, 25000, 25000, 60000, 60000, 150000, 400000]}
CROWD_FOCUS_SILENT = ["1.2.3.4", "2001:db8::1"]
CROWD_FOCUS_PROBING = ["5.6.7.8"]
# canonical spellings: a rule section is looked up by the text of the address
CROWD_SPECIFIC = ["10.0.0.1", "::1", "2001:db8::2"]


def gen_crowd_spec(rng, size):
    """a JSON-able description from which expand_crowd rebuilds the whole operation list"""
    cmd = rng.choice(CMDS)
    long_name = rng.choice(INTERVAL_NAMES[rng.choice([60, 3600, 3600])])
    rule = "%d/%s" % (rng.choice([1, 2, 2, 3, 5]), long_name)
    if rng.random() < 0.4:  # a burst rule next to the long one, in either order
        short = "%d/%s" % (rng.choice([1, 2, 5]), rng.choice(INTERVAL_NAMES[1]))
        rule = ",".join([short, rule] if rng.random() < 0.5 else [rule, short])
    options = {"ip": {cmd: rule}}
    focus = list(CROWD_FOCUS_SILENT)
    if rng.random() < 0.6:  # an address with its own allowance (same window length: one scenario, one window)
        a = rng.choice(CROWD_SPECIFIC)
        options[a] = {cmd: "%d/%s" % (rng.choice([1, 2, 3]), long_name)}
        focus.append(a)
    if size <= CROWD_MODEL_MAX and rng.random() < 0.5:
        # a global allowance nobody comes near (evaluating one is linear in the messages of the window, hence only
        # at the small sizes): the shared scope lives in the same table as the addresses
        options["global"] = {cmd: "%d/h" % (4 * size + 1000)}
    return {"options": options, "cmd": cmd, "size": size, "seed": rng.getrandbits(32),
            "focus": focus, "probing": list(CROWD_FOCUS_PROBING)}


def crowd_addresses(r, size, taken):
    """`size` pairwise distinct addresses, none of them in `taken` (packed forms): IPv4 in a run with a stride, IPv6 as
    random interface identifiers under a few /64 prefixes; now and then a non-canonical spelling of an IPv6 address"""
    out, seen = [], set(taken)
    base4 = (r.choice([11, 23, 45, 77, 100, 172, 198]) << 24) + r.randrange(1 << 16)
    stride = r.choice([1, 1, 3, 257])
    prefixes = [(0x20010DB8 << 96) | (r.getrandbits(32) << 64) for _ in range(r.choice([1, 4, 64]))]
    p6 = r.choice([0.0, 0.5, 0.5, 1.0])
    i4 = 0
    while len(out) < size:
        if r.random() < p6:
            ip = ipaddress.IPv6Address(r.choice(prefixes) | r.getrandbits(64))
            text = ip.exploded.upper() if r.random() < 0.02 else str(ip)
        else:
            ip = ipaddress.IPv4Address(base4 + i4 * stride)
            i4 += 1
            text = str(ip)
        if ip.packed in seen:
            continue
        seen.add(ip.packed)
        out.append(text)
    return out


def expand_crowd(spec, parsed):
    """the operation list of a crowd scenario; everything derives from spec (and its own seed)"""
    r = random.Random(spec["seed"])
    cmd, size = spec["cmd"], spec["size"]
    focus, probing = list(spec["focus"]), list(spec["probing"])
    specific = {norm_addr(a): d for a, d in parsed["specific"].items()}

    def rules_of(a):
        return specific.get(norm_addr(a), {}).get(cmd) or parsed["ip"][cmd]

    every = focus + probing
    window = max(i for a in every for (i, _) in rules_of(a))
    assert all(max(i for (i, _) in rules_of(a)) == window for a in every)
    allowance = {a: max(n for (i, n) in rules_of(a) if i == window) for a in every}
    ops = []
    # 1. the focus addresses use up their allowance: one message every 2 s (clear of any 1-second rule), two more
    #    than allowed, the addresses interleaved
    rounds = max(allowance.values()) + 2
    for k in range(rounds):
        for a in every:
            if k < allowance[a] + 2:
                ops.append(("msg", a, cmd, 2 * k))
    # 2. the crowd, spread evenly over the rest of the window of the very first message (t = 0): arrivals at
    #    t0 .. window-2, so that t = window-1 is still inside that window
    t0 = 2 * rounds + 1
    span = window - 2 - t0
    assert span >= 1
    crowd = crowd_addresses(r, size, {ipaddress.ip_address(a).packed for a in every})
    probe_at = {size // 4, size // 2, (3 * size) // 4}
    cleanup_at = {r.randrange(size) for _ in range(3)} | {size - 1}
    now = t0
    for i, a in enumerate(crowd):
        now = t0 + (i * span) // size
        ops.append(("msg", a, cmd, now))
        if r.random() < 0.05:
            ops.append(("msg", a, cmd, now))
        if i in probe_at:
            for p in probing:
                ops.append(("msg", p, cmd, now))
        if i in cleanup_at:
            ops.append(("cleanup", now))
    # 3. inside the same window: everybody who was there at the beginning comes back
    now = window - 1
    for a in every:
        ops.append(("msg", a, cmd, now))
        ops.append(("msg", a, cmd, now))
    early = crowd[: min(6, size)] + [crowd[r.randrange(size)] for _ in range(3)]
    for a in early:
        for _ in range(max(allowance.values()) + 1):
            ops.append(("msg", a, cmd, now))
    # 4. the boundary: the message of t = 0 is exactly `window` old
    now = window
    for a in every:
        ops.append(("msg", a, cmd, now))
    # 5. long after: nobody may still be blocked
    now = 2 * window + t0 + 5
    ops.append(("cleanup", now))
    for a in every + early[:3]:
        ops.append(("msg", a, cmd, now))
    return ops


def run_crowd(report, drv, spec, tag):
    options = spec["options"]
    parsed = parsed_from_options(options)
    ops = expand_crowd(spec, parsed)
    use_model = spec["size"] <= CROWD_MODEL_MAX
    run_case(report, drv, options, parsed, ops, tag, model=use_model,
             replay={"options": options, "crowd": spec, "ops_head": ops[:12], "n_ops": len(ops)},
             key=("crowd", repr(sorted(spec.items()))))
    report.count("crowd_scenarios")
    report.count("crowd_scenarios_with_model" if use_model else "crowd_scenarios_reference_only")
    report.count("crowd_distinct_addresses", spec["size"])
    report.coverage["crowd_largest"] = max(report.coverage.get("crowd_largest", 0), spec["size"])


# ---------------------------------------------------------------------------------------------------------------
# WHICH address is "the client address": the real websocket endpoint.
#
# Everything above hands the limiter an address.  The property says "per client address", so which address the relay
# takes for a connection is part of it: the address of the peer that opened the connection (the "client" of the ASGI
# scope), not anything the client writes into its own handshake.  A scenario of this family drives the real wiring
# (web.create_app with `rate_limits` configured -> NostrAPI.on_websocket -> start_client, behind falcon's ASGI
# conductor, the limiter under the injected integer clock) with a handful of connections of a few peer addresses inside
# one window.  Some connections carry the handshake headers a reverse proxy would add (X-Forwarded-For, Forwarded,
# X-Real-IP, in several spellings, one or two values) naming: another peer of the scenario (a bystander), addresses that
# never connect, an address that has a rule section of its own (an exemption or another allowance), the peer itself,
# or no address at all ('unknown', obfuscated identifiers, empty, malformed).
#   * one peer uses up its allowance, then returns on connections with such headers: still refused (window bound);
#   * a peer whose handshakes carry non-addresses sends exactly its allowance: all admitted, the connection stays up;
#   * the bystander, named in other peers' headers, connects plainly afterwards: its own allowance is untouched;
#   * two windows later everybody returns (with and without headers): admitted again.
# What is observed is what a client sees: the handshake accepted or not (the ACCEPT message), EOSE / OK true versus
# NOTICE rate-limited / OK false rate-limited, or the connection ended by the relay (counts as refused: nothing more
# gets through).  The decisions are attributed to the PEER address and judged by `oracle` (sliding-window count per
# address of what was let through; refused only when a rule applicable to that address is full) and compared with the
# Lean model's decisions for the same messages keyed by the peer address.
WS_PEERS = ["198.51.100.9", "203.0.113.40", "192.0.2.77", "2001:db8:77::9"]
WS_STRANGERS = ["203.0.113.7", "100.64.3.2", "10.9.8.7", "2001:db8::5"]
WS_NON_ADDRESSES = ["unknown", "_hidden", "_SEVKISEK", "", " ", "not-an-address", "1.2.3.4.5", "999.1.1.1", "1.2.3.4:80",
                    "[::1", "localhost", "0x7f.1"]
WS_SCENARIOS = {"quick": 10, "thorough": 120}


def ws_headers(rng, values):
    """handshake headers naming `values` (first = the client a proxy would claim to forward for)"""

    def fwd_node(v):
        v = "[%s]" % v if (":" in v and "." not in v and not v.startswith("[")) else v
        plain = v != "" and all(ch.isalnum() or ch in "._-" for ch in v)
        return v if (plain and rng.random() < 0.7) else '"%s"' % v

    form = rng.choice(["xff", "xff", "real", "fwd", "fwd", "xff+real", "all"])
    h = {}
    if form in ("xff", "xff+real", "all"):
        h["X-Forwarded-For"] = rng.choice([", ", ","]).join(values)
    if form in ("real", "xff+real", "all"):
        h["X-Real-IP"] = values[0]
    if form in ("fwd", "all"):
        elems = ["for=" + fwd_node(v) for v in values]
        if rng.random() < 0.4:
            elems[0] += rng.choice([";proto=https", ";by=10.0.0.9;proto=https", ";host=relay.example"])
        h["Forwarded"] = ", ".join(elems)
    if rng.random() < 0.25:
        h = {k.lower(): v for k, v in h.items()}
    return h


def gen_ws_spec(rng):
    """a JSON-able scenario: rule configuration, connections (peer, handshake headers, time) and the times of the
    messages sent on each; the whole of it is kept in the replay (it is small)"""
    cmd = rng.choice(["REQ", "REQ", "EVENT"])
    window = rng.choice([60, 3600, 3600])
    long_name = rng.choice(INTERVAL_NAMES[window])
    n = rng.choice([1, 2, 3])
    rule = "%d/%s" % (n, long_name)
    if rng.random() < 0.3:  # a burst rule next to it
        short = "%d/%s" % (rng.choice([2, 5]), rng.choice(INTERVAL_NAMES[1]))
        rule = ",".join([short, rule] if rng.random() < 0.5 else [rule, short])
    options = {"ip": {cmd: rule}}
    if rng.random() < 0.5:  # connections are limited too
        options["ip"]["ACCEPT"] = "%d/%s" % (rng.choice([2, 3, 4]), long_name)
    busy, bystander, odd = rng.sample(WS_PEERS, 3)
    allowance = {busy: n, bystander: n, odd: n}
    named = [bystander, bystander] + WS_STRANGERS
    u = rng.random()
    if u < 0.2:  # the busy peer has a tighter allowance of its own
        options[busy] = {cmd: "1/%s" % long_name}
        allowance[busy] = 1
    elif u < 0.4:  # an address that never connects is exempt
        a = rng.choice(WS_STRANGERS)
        options[a] = {cmd: "-1/s"}
        named += [a, a, a]
    elif u < 0.55:  # the bystander has a larger allowance of its own
        options[bystander] = {cmd: "%d/%s" % (n + 1, long_name)}
        allowance[bystander] = n + 1

    def some_addresses():
        vs = [rng.choice(named)]
        if rng.random() < 0.3:
            vs.append(rng.choice(named + [busy] + WS_NON_ADDRESSES[:2]))
        return vs

    def non_addresses():
        vs = [rng.choice(WS_NON_ADDRESSES)]
        if rng.random() < 0.3:
            vs.append(rng.choice(WS_STRANGERS + WS_NON_ADDRESSES))
        return vs

    # (peer, headers, number of messages)
    first = (busy, ws_headers(rng, some_addresses()) if rng.random() < 0.4 else None, allowance[busy] + 1)
    again = [(busy, ws_headers(rng, [bystander]), max(allowance.values()) + 1)]  # names the bystander on every message
    for _ in range(rng.choice([2, 3, 4])):
        again.append((busy, ws_headers(rng, some_addresses()), rng.choice([1, 2])))
    rng.shuffle(again)
    k = rng.choice([1, 2]) if allowance[odd] > 1 else 1
    share = [allowance[odd] // k + (1 if i < allowance[odd] % k else 0) for i in range(k)]
    odd_block = [(odd, ws_headers(rng, non_addresses()), m) for m in share] + [(odd, None, 1)]
    at = rng.randrange(len(again) + 1)
    plan = [first] + again[:at] + odd_block + again[at:] + [(bystander, None, allowance[bystander] + 1)]
    gaps = [0, 0, 1] if window == 60 else [0, 1, 2, 5]
    now, conns = 1, []
    for peer, headers, m in plan:
        now += rng.choice(gaps)
        c = {"peer": peer, "headers": headers, "t": now, "msgs": []}
        for _ in range(m):
            now += rng.choice(gaps)
            c["msgs"].append(now)
        conns.append(c)
    assert now < window - 1  # all of it inside the window of the very first message
    # two windows later: nobody may still be blocked, whatever the handshake says
    now += 2 * window + 3
    for peer, headers in ((busy, ws_headers(rng, [bystander])), (odd, ws_headers(rng, non_addresses())), (bystander, None)):
        conns.append({"peer": peer, "headers": headers, "t": now, "msgs": [now]})
    return {"options": options, "cmd": cmd, "conns": conns, "nonce": rng.getrandbits(32)}


def ws_is_no_address(token):
    """a header token (X-Forwarded-For item, Forwarded `for=` node) that is not an IP address; evidence counters only"""
    t = token.strip()
    if "=" in t:
        name, t = t.split("=", 1)
        if name.strip().lower() != "for":
            return False
    t = t.strip().strip('"')
    if t.startswith("[") and "]" in t:
        t = t[1:t.index("]")]
    try:
        ipaddress.ip_address(t)
        return False
    except ValueError:
        return True


def ws_limiter_of(app):
    """the limiter create_app wired into the websocket resource (None if the router does not give it away)"""
    try:
        return app._router.find("/")[0].rate_limiter
    except Exception:  # noqa
        return None


def run_ws(report, drv, relay, spec, tag):
    import asyncio
    import json
    import falcon
    import falcon.testing
    from nostr_relay import web, rate_limiter as rl
    from nostr_relay.config import Config
    from aionostr.key import PrivateKey

    options, cmd = spec["options"], spec["cmd"]
    parsed = parsed_from_options(options)
    clock = Clock()
    rl.perf_counter = clock
    Config.rate_limits = options
    app = web.create_app(storage=relay.storage)
    lim = ws_limiter_of(app)
    sk = PrivateKey(bytes([18]) * 32)
    serial = [0]

    def frame():
        serial[0] += 1
        if cmd == "REQ":
            return ["REQ", "s%d" % serial[0], {"authors": ["ee" * 32], "limit": 1}]
        return ["EVENT", relay.signed_event(sk, kind=1, content="ws %d %d" % (spec["nonce"], serial[0]),
                                            created_at=1700000000 + serial[0])]

    def verdict(sent, reply):
        """False = let through, True = refused, None = not the answer to this message"""
        if not isinstance(reply, list) or not reply:
            return None
        if reply[:2] == ["NOTICE", "rate-limited"]:
            return True
        if sent[0] == "REQ" and reply == ["EOSE", sent[1]]:
            return False
        if sent[0] == "EVENT" and reply[0] == "OK" and len(reply) >= 3 and reply[1] == sent[1]["id"]:
            if reply[2] is True:
                return False
            if str(reply[3] if len(reply) > 3 else "").startswith("rate-limited"):
                return True
        return None

    async def session(c):
        """[(cmd, t, refused)] as the client saw it, whether the relay ended the connection, the close code"""
        seen, ended, code, accepted = [], False, None, False
        clock.now = c["t"]
        try:
            async with falcon.testing.ASGIConductor(app).simulate_ws("/", remote_addr=c["peer"], headers=c["headers"] or None) as ws:
                accepted = True
                seen.append(("ACCEPT", c["t"], False))
                for t in c["msgs"]:
                    clock.now = t
                    sent = frame()
                    try:
                        await ws.send_text(json.dumps(sent))
                        v = None
                        for _ in range(8):
                            reply = await asyncio.wait_for(ws.receive_json(), 20)
                            v = verdict(sent, reply)
                            if v is not None:
                                break
                        if v is None:
                            raise common.MachineryBroken("websocket harness: no answer to %r (last frame %r)" % (sent[0], reply))
                    except falcon.WebSocketDisconnected as ex:
                        # the relay ended the connection instead of answering: nothing more gets through
                        seen.append((cmd, t, True))
                        ended, code = True, ex.code
                        break
                    seen.append((cmd, t, v))
        except falcon.WebSocketDisconnected as ex:
            if not accepted:
                seen.append(("ACCEPT", c["t"], True))
                code = ex.code
            elif not ended:
                ended, code = True, ex.code
        return seen, accepted, ended, code

    history, observed = [], []
    lines = [{"op": "rl.reset", "cfg": model_cfg(parsed)}]
    for c in spec["conns"]:
        try:
            seen, accepted, ended, code = relay.run(asyncio.wait_for(session(c), 120))
        except common.MachineryBroken:
            raise
        except Exception as ex:
            raise common.MachineryBroken("websocket harness failed (%s, peer %s, headers %r): %r" % (tag, c["peer"], c["headers"], ex))
        for (m, t, refused) in seen:
            history.append((c["peer"], m, t, refused))
            lines.append({"op": "rl.limited", "addr": norm_addr(c["peer"]), "cmd": m, "now": t})
        if accepted:  # start_client runs cleanup() when the connection is over
            lines.append({"op": "rl.cleanup", "now": clock.now})
        observed.append({"peer": c["peer"], "headers": c["headers"], "decisions": [[m, t, r] for (m, t, r) in seen],
                         "ended_by_relay": ended, "close_code": code})
        report.count("ws_connections")
        report.count("ws_connections_with_forwarding_headers" if c["headers"] else "ws_connections_plain")
        if any(ws_is_no_address(tok) for v in (c["headers"] or {}).values() for tok in v.replace(";", ",").split(",")):
            report.count("ws_handshakes_naming_no_address")
        if ended:
            report.count("ws_connections_ended_by_relay")
        if not accepted:
            report.count("ws_handshakes_refused")
    replay = {"options": options, "ws": spec, "observed": observed}
    # tie: the same messages, keyed by the peer address, through the model
    model_out = drv.batch(lines)
    decisions = [mo for ln, mo in zip(lines, model_out) if ln["op"] == "rl.limited"]
    for i, (h, mo) in enumerate(zip(history, decisions)):
        if mo != h[3]:
            report.correspondence_break(
                "web.NostrAPI.on_websocket -> rate_limiter.is_limited (decisions per peer address)",
                {"options": options, "ws": spec, "message": list(h[:3]), "index": i, "observed": observed}, h[3], mo)
            break
    oracle(report, options, parsed, [], history, lim, clock, replay=replay,
           note=" (address = the peer of the websocket connection; handshake headers and what each connection saw are in the replay)")
    report.case(("ws", json.dumps(spec, sort_keys=True)), nontrivial=any(h[3] for h in history),
                sample={"options": options, "websocket_connections": observed[:4]})
    report.count("ws_scenarios")
    report.count("ws_messages", sum(1 for h in history if h[1] != "ACCEPT"))
    report.count("ws_refused", sum(1 for h in history if h[3]))
    report.count("messages", len(history))
    report.count("refused", sum(1 for h in history if h[3]))


def run_ws_family(report, drv, specs, tag="ws"):
    """one relay (real SQL storage) for all scenarios, a fresh app and limiter per scenario; the configuration object is
    put back afterwards"""
    from lib.proto import make_sql_relay
    from nostr_relay.config import Config
    from nostr_relay import rate_limiter as rl

    saved_cfg, saved_clock = dict(Config.__dict__), rl.perf_counter
    relay = make_sql_relay()
    try:
        for j, spec in enumerate(specs):
            run_ws(report, drv, relay, spec, "%s%d" % (tag, j))
    finally:
        relay.close()
        Config.__dict__.clear()
        Config.__dict__.update(saved_cfg)
        rl.perf_counter = saved_clock


# ---------------------------------------------------------------------------------------------------------------
# SEVERAL connections of one address at the same time, over a long life: the real websocket endpoint again.
#
# "n per interval" is a bound per client ADDRESS: how many connections the address holds open, when each of them was
# opened, how long each has been silent and what other clients did meanwhile (every disconnect of anybody runs
# cleanup()) are all immaterial.  The family above keeps one connection open at a time, so nothing in it depends on
# whether simultaneous connections of one address are counted TOGETHER, nor on what a connection that outlives an
# idle period and a cleanup() is counted against afterwards.  A scenario of this family is a timeline of steps
#     open(conn, peer) / send(conn) / close(conn)          each at an integer time, times non-decreasing
# played through web.create_app -> NostrAPI.on_websocket -> start_client with all the connections it names held open
# concurrently on one event loop.  Two "resident" addresses hold up to three / two connections each, opened at
# different moments and closed at others; "visitors" (other addresses) connect, send nothing or one message and leave.
# The timeline is a series of episodes separated by gaps drawn around the rule interval (1, i/2, i-1, i, i+1, i+2,
# 2i+3: most of them longer than the interval, i.e. every queue of the residents has gone stale); an episode shuffles
# arrivals of further resident connections, visitors and departures, then each resident sends its allowance plus
# 0..2 messages spread at random over whichever of its connections are open, visitors coming and going in between.
# What each connection sees (handshake accepted or not, EOSE / OK true versus NOTICE rate-limited / OK false
# rate-limited, connection ended by the relay = refused) is attributed to the PEER address of the connection and
# judged by `oracle`: per address and rule, the sliding-window count of what was let through on ALL its connections
# never exceeds n, and a refusal is justified by a full window.  Tie: the same messages keyed by the peer address, and
# a cleanup() at every disconnect of an accepted connection, through the Lean model.
# Sizes: nothing in the property mentions a number of connections; three at a time per address, a dozen over the life
# of a scenario and idle periods of up to two intervals are chosen on general grounds (a browser with a few tabs
# behind one address, a relay that stays up for hours).
WSC_VISITORS = ["192.0.2.1", "192.0.2.2", "198.51.100.77", "203.0.113.201", "2001:db8:aa::1", "2001:db8:aa::2"]
WSC_SCENARIOS = {"quick": 14, "thorough": 160}
WSC_MAX_OPEN = (3, 2)  # simultaneous connections of the first / second resident address


def gen_wsc_spec(rng):
    """a JSON-able scenario: rule configuration and the timeline; the whole of it is kept in the replay (it is small)"""
    cmd = rng.choice(["REQ", "REQ", "EVENT"])
    window = rng.choice([60, 60, 3600])
    long_name = rng.choice(INTERVAL_NAMES[window])
    n = rng.choice([1, 2, 2, 3])
    rule = "%d/%s" % (n, long_name)
    if rng.random() < 0.25:  # a burst rule next to it
        short = "%d/%s" % (rng.choice([2, 5]), rng.choice(INTERVAL_NAMES[1]))
        rule = ",".join([short, rule] if rng.random() < 0.5 else [rule, short])
    options = {"ip": {cmd: rule}}
    if rng.random() < 0.3:  # connections are limited too (a refused handshake: the steps of that connection are skipped)
        options["ip"]["ACCEPT"] = "%d/%s" % (rng.choice([3, 4, 6]), long_name)
    residents = rng.sample(WS_PEERS, 2)
    allowance = {a: n for a in residents}
    u = rng.random()
    if u < 0.3:  # one of the residents has an allowance of its own (same window length: one longest interval)
        a = residents[0] if u < 0.2 else residents[1]
        allowance[a] = rng.choice([1, 2, 4])
        options[a] = {cmd: "%d/%s" % (allowance[a], long_name)}
    if rng.random() < 0.25:  # a shared allowance nobody comes near: the global scope lives in the same table
        options["global"] = {cmd: "1000/h"}

    state = {"now": 1, "serial": 0}
    steps = []
    open_conns = {a: [] for a in residents}

    def tick():
        state["now"] += rng.choice([0, 0, 1])
        return state["now"]

    def do_open(peer):
        state["serial"] += 1
        name = "c%d" % state["serial"]
        steps.append({"do": "open", "conn": name, "peer": peer, "t": tick()})
        return name

    def do_visit():
        name = do_open(rng.choice(WSC_VISITORS))
        for _ in range(rng.choice([0, 1, 1])):
            steps.append({"do": "send", "conn": name, "t": tick()})
        steps.append({"do": "close", "conn": name, "t": tick()})

    for episode in range(rng.choice([3, 4, 5])):
        if episode:
            state["now"] += rng.choice([window + 1, window + 1, window + 2, 2 * window + 3, window, window - 1, window // 2, 1])
        pre = []
        for a, most in zip(residents, WSC_MAX_OPEN):
            if len(open_conns[a]) < most and (not (episode or open_conns[residents[0]]) or rng.random() < 0.55):
                pre.append(("open", a))
        pre += [("visit", None)] * rng.choice([0, 1, 1, 2])
        if episode and rng.random() < 0.3:
            pre.append(("close", rng.choice(residents)))
        rng.shuffle(pre)
        for what, a in pre:
            if what == "open":
                open_conns[a].append(do_open(a))
            elif what == "visit":
                do_visit()
            elif open_conns[a]:
                name = open_conns[a].pop(rng.randrange(len(open_conns[a])))
                steps.append({"do": "close", "conn": name, "t": tick()})
        senders = [a for a in residents for _ in range(allowance[a] + rng.choice([0, 1, 2]))]
        rng.shuffle(senders)
        for a in senders:
            if open_conns[a]:
                steps.append({"do": "send", "conn": rng.choice(open_conns[a]), "t": tick()})
                if rng.random() < 0.12:
                    do_visit()
        for _ in range(rng.choice([0, 0, 1])):
            do_visit()
    rest = [name for a in residents for name in open_conns[a]]
    rng.shuffle(rest)
    for name in rest:
        steps.append({"do": "close", "conn": name, "t": tick()})
    return {"options": options, "cmd": cmd, "steps": steps, "nonce": rng.getrandbits(32)}


def wsc_verdict(sent, reply):
    """False = let through, True = refused, None = not the answer to this message"""
    if not isinstance(reply, list) or not reply:
        return None
    if reply[:2] == ["NOTICE", "rate-limited"]:
        return True
    if sent[0] == "REQ" and reply == ["EOSE", sent[1]]:
        return False
    if sent[0] == "EVENT" and reply[0] == "OK" and len(reply) >= 3 and reply[1] == sent[1]["id"]:
        if reply[2] is True:
            return False
        if str(reply[3] if len(reply) > 3 else "").startswith("rate-limited"):
            return True
    return None


def run_wsc(report, drv, relay, spec, tag):
    import asyncio
    import json
    import falcon
    import falcon.testing
    from nostr_relay import web, rate_limiter as rl
    from nostr_relay.config import Config
    from aionostr.key import PrivateKey

    options, cmd = spec["options"], spec["cmd"]
    parsed = parsed_from_options(options)
    clock = Clock()
    rl.perf_counter = clock
    Config.rate_limits = options
    app = web.create_app(storage=relay.storage)
    lim = ws_limiter_of(app)
    sk = PrivateKey(bytes([18]) * 32)
    serial = [0]

    def frame():
        serial[0] += 1
        if cmd == "REQ":
            return ["REQ", "s%d" % serial[0], {"authors": ["ee" * 32], "limit": 1}]
        return ["EVENT", relay.signed_event(sk, kind=1, content="wsc %d %d" % (spec["nonce"], serial[0]),
                                            created_at=1700000000 + serial[0])]

    history = []  # (peer, command, t, refused) in the order the relay decided them
    lines = [{"op": "rl.reset", "cfg": model_cfg(parsed)}]
    trace = []  # what happened, step by step (goes into the replay)
    conns = {}  # name -> {"peer", "cm", "ws", "open"}

    def decided(peer, m, t, refused):
        history.append((peer, m, t, refused))
        lines.append({"op": "rl.limited", "addr": norm_addr(peer), "cmd": m, "now": t})

    async def hang_up(c, t):
        """end the connection from the client's side (no-op for the relay if it has ended it already) and wait until the
        handler is through: start_client runs cleanup() on its way out"""
        c["open"] = False
        await c["cm"].__aexit__(None, None, None)
        lines.append({"op": "rl.cleanup", "now": t})
        report.count("wsc_disconnects")

    async def play():
        try:
            for st in spec["steps"]:
                t = clock.now = st["t"]
                name = st["conn"]
                if st["do"] == "open":
                    peer = st["peer"]
                    cm = falcon.testing.ASGIConductor(app).simulate_ws("/", remote_addr=peer)
                    try:
                        ws = await cm.__aenter__()
                    except falcon.WebSocketDisconnected as ex:
                        decided(peer, "ACCEPT", t, True)
                        trace.append(["open", name, peer, t, "handshake refused", ex.code])
                        report.count("wsc_handshakes_refused")
                        continue
                    decided(peer, "ACCEPT", t, False)
                    conns[name] = {"peer": peer, "cm": cm, "ws": ws, "open": True}
                    trace.append(["open", name, peer, t, "accepted"])
                    report.count("wsc_connections")
                    now_open = sum(1 for c in conns.values() if c["open"] and c["peer"] == peer)
                    report.coverage["wsc_most_simultaneous_connections_of_one_address"] = max(
                        report.coverage.get("wsc_most_simultaneous_connections_of_one_address", 0), now_open)
                    continue
                c = conns.get(name)
                if c is None or not c["open"]:
                    trace.append([st["do"], name, None, t, "skipped: connection is not open"])
                    continue
                if st["do"] == "close":
                    await hang_up(c, t)
                    trace.append(["close", name, c["peer"], t])
                    continue
                sent, reply, v = frame(), None, None
                try:
                    await c["ws"].send_text(json.dumps(sent))
                    for _ in range(8):
                        reply = await asyncio.wait_for(c["ws"].receive_json(), 20)
                        v = wsc_verdict(sent, reply)
                        if v is not None:
                            break
                    if v is None:
                        raise common.MachineryBroken("websocket harness: no answer to %r (last frame %r)" % (sent[0], reply))
                    decided(c["peer"], cmd, t, v)
                    trace.append(["send", name, c["peer"], t, "refused" if v else "admitted"])
                    if v is False and cmd == "REQ":  # as a client does; keeps the connection below the subscription limit
                        await c["ws"].send_text(json.dumps(["CLOSE", sent[1]]))
                except falcon.WebSocketDisconnected as ex:
                    # the relay ended the connection instead of answering: nothing more gets through
                    decided(c["peer"], cmd, t, True)
                    trace.append(["send", name, c["peer"], t, "connection ended by the relay", ex.code])
                    report.count("wsc_connections_ended_by_relay")
                    await hang_up(c, t)
                if sum(1 for o in conns.values() if o["open"] and o["peer"] == c["peer"]) > 1:
                    report.count("wsc_messages_while_the_address_had_several_connections")
        finally:
            for c in conns.values():
                if c["open"]:
                    c["open"] = False
                    try:
                        await c["cm"].__aexit__(None, None, None)
                    except Exception:  # noqa
                        pass

    try:
        relay.run(asyncio.wait_for(play(), 600))
    except common.MachineryBroken:
        raise
    except Exception as ex:
        raise common.MachineryBroken("websocket harness failed (%s, after %r): %r" % (tag, trace[-1:], ex))
    replay = {"options": options, "wsc": spec, "observed": trace}
    model_out = drv.batch(lines)
    decisions = [mo for ln, mo in zip(lines, model_out) if ln["op"] == "rl.limited"]
    for i, (h, mo) in enumerate(zip(history, decisions)):
        if mo != h[3]:
            report.correspondence_break(
                "web.NostrAPI.on_websocket -> start_client -> rate_limiter (decisions per peer address, several connections at a time)",
                {"options": options, "wsc": spec, "message": list(h[:3]), "index": i, "observed": trace}, h[3], mo)
            break
    oracle(report, options, parsed, [], history, lim, clock, replay=replay,
           note=" (address = the peer of the websocket connection, all its simultaneous connections counted together; "
                "the timeline and what each connection saw are in the replay)")
    # evidence: how often the situation the family is about occurred (an address sends on a connection that is older than
    # a disconnect of somebody which in turn is later than an idle period of that address longer than the interval)
    longest = max([i for rs in parsed["ip"].values() for (i, _) in rs]
                  + [i for d in parsed["specific"].values() for rs in d.values() for (i, _) in rs])
    opened, last_seen, idle_then_cleanup = {}, {}, {}
    for ev in trace:
        kind, name, peer, t = ev[0], ev[1], ev[2], ev[3]
        if peer is None:
            continue
        if kind == "open":
            opened[name] = t
        if kind == "close":
            for a, seen in last_seen.items():
                if t - seen > longest:
                    idle_then_cleanup[a] = t
        if kind == "send":
            if peer in idle_then_cleanup and opened.get(name, t) < idle_then_cleanup[peer]:
                report.count("wsc_messages_on_a_connection_that_outlived_an_idle_period_and_a_cleanup")
        if kind in ("open", "send"):
            last_seen[peer] = t
    report.case(("wsc", json.dumps(spec, sort_keys=True)), nontrivial=any(h[3] for h in history),
                sample={"options": options, "websocket_timeline": trace[:12]})
    report.count("wsc_scenarios")
    report.count("wsc_messages", sum(1 for h in history if h[1] != "ACCEPT"))
    report.count("wsc_refused", sum(1 for h in history if h[3]))
    report.count("messages", len(history))
    report.count("refused", sum(1 for h in history if h[3]))


def run_wsc_family(report, drv, specs, tag="wsc"):
    """one relay (real SQL storage) for all scenarios, a fresh app and limiter per scenario; the configuration object is
    put back afterwards"""
    from lib.proto import make_sql_relay
    from nostr_relay.config import Config
    from nostr_relay import rate_limiter as rl

    saved_cfg, saved_clock = dict(Config.__dict__), rl.perf_counter
    relay = make_sql_relay()
    try:
        for j, spec in enumerate(specs):
            run_wsc(report, drv, relay, spec, "%s%d" % (tag, j))
    finally:
        relay.close()
        Config.__dict__.clear()
        Config.__dict__.update(saved_cfg)
        rl.perf_counter = saved_clock


def run(report, tier, seed):
    rng = random.Random(seed)
    drv = common.Driver()
    report.coverage["rule"] = (
        "random rule configurations (global/ip/specific IPv4+IPv6, intervals s/m/h, n in {-1,1,2,3,5}) x "
        "non-decreasing arrival sequences whose gaps are drawn from the rule intervals (i-1, i, i+1, 0, 1, >max) "
        "with interleaved cleanup(); every decision and every deque is compared with the Lean model; a case is "
        "non-trivial when the limiter refused at least one message; distinct = distinct (config, op list); "
        "plus crowd scenarios: focus addresses exhaust their allowance, then N pairwise distinct IPv4/IPv6 addresses "
        "(N from 40 to tens of thousands, distribution.crowd_*) send inside the same window with cleanup() and probes in "
        "between, then everybody returns inside the window, at its boundary and after it; judged by the sliding-window "
        "oracle, N <= %d also against the model" % CROWD_MODEL_MAX
        + "; plus websocket scenarios through web.create_app / NostrAPI.on_websocket with rate_limits configured: a handful of "
        "connections of three peer addresses inside one window, some with client-chosen X-Forwarded-For / Forwarded / X-Real-IP "
        "handshake headers naming other peers, addresses with rule sections of their own, strangers or non-addresses; what each "
        "client sees (handshake, EOSE / OK / NOTICE rate-limited, connection ended) is attributed to the PEER address and judged "
        "by the same oracle and against the model's decisions for that address (distribution.ws_*)"
        "; plus websocket timelines with SEVERAL simultaneous connections per address (up to three, opened and closed at different "
        "moments), visitors of other addresses connecting and leaving in between (every disconnect runs cleanup()) and idle gaps "
        "around and beyond the rule interval between episodes in which each address sends its allowance plus 0..2 messages spread "
        "over its open connections: decisions attributed to the peer address over all its connections, same oracle, same tie "
        "(distribution.wsc_*)")
    report.assumptions += [
        "clock: perf_counter replaced by an integer clock constant during one is_limited call",
        "rules with n = 0 and empty rule strings are configuration errors outside the property's domain",
    ]
    for e in report.known:
        r = common.load_finding_replay(e)
        run_case(report, drv, r["options"], parsed_from_options(r["options"]), [tuple(o) for o in r["ops"]], "finding:" + e["id"])
    for options, ops in CORPUS:
        run_case(report, drv, options, parsed_from_options(options), ops, "corpus")
    ncfg, nops = (1500, 40) if tier == "quick" else (12000, 60)
    for i in range(ncfg):
        options, parsed = gen_config(rng)
        ops = gen_ops(rng, parsed, nops)
        run_case(report, drv, options, parsed, ops, i)
    # many distinct addresses inside one window (drawn after the cases above: their random stream is unchanged)
    for j, size in enumerate(CROWD_SIZES["quick" if tier == "quick" else "thorough"]):
        run_crowd(report, drv, gen_crowd_spec(rng, size), "crowd%d" % j)
    # which address the limiter is keyed by, through the real websocket endpoint (drawn after everything above)
    run_ws_family(report, drv, [gen_ws_spec(rng) for _ in range(WS_SCENARIOS["quick" if tier == "quick" else "thorough"])])
    # several simultaneous connections per address over a long life (drawn after everything above)
    run_wsc_family(report, drv, [gen_wsc_spec(rng) for _ in range(WSC_SCENARIOS["quick" if tier == "quick" else "thorough"])])
    # parse_option glue: interval names incl. malformed
    from nostr_relay import rate_limiter as rl
    lim = rl.RateLimiter({})
    names = ["s", "second", "sec", "m", "minute", "min", "h", "hour", "hr", "S", "Min", "HOUR", "d", "", "secs", "ms", " s"]
    outs = drv.batch([{"op": "rl.parseInterval", "s": n} for n in names])
    for n, mo in zip(names, outs):
        try:
            io = lim.parse_option("3/" + n)[0][0]
        except ValueError:
            io = "raise"
        if io != mo:
            report.correspondence_break("rate_limiter.parse_option(interval)", {"name": n}, io, mo)
        report.case(("interval", n), nontrivial=True)
    if tier == "thorough":
        exhaustive(report, drv)
    drv.close()


def exhaustive(report, drv):
    """all arrival sequences of length <= 6 over gaps {0,1,2} for two rule sets and two addresses"""
    cfgs = [({"ip": {"EVENT": "2/s"}}), ({"global": {"EVENT": "2/s"}, "ip": {"EVENT": "1/s"}}),
            ({"1.2.3.4": {"EVENT": "1/s"}, "ip": {"EVENT": "2/s"}, "global": {"EVENT": "3/s"}})]
    n = 0
    for options in cfgs:
        parsed = parsed_from_options(options)
        for length in range(1, 7):
            for gaps in itertools.product([0, 1, 2], repeat=length):
                for addrs in itertools.product(["1.2.3.4", "5.6.7.8"], repeat=min(length, 3)):
                    now, ops = 0, []
                    for i, g in enumerate(gaps):
                        now += g
                        ops.append(("msg", addrs[i % len(addrs)], "EVENT", now))
                    run_case(report, drv, options, parsed, ops, "exh")
                    n += 1
    report.coverage["exhaustive_small_scope_cases"] = n


def replay(report, path):
    import json

    data = json.load(open(path))
    drv = common.Driver()
    items = data.get("violations") or data.get("correspondence_breaks") or []
    for it in items:
        r = it.get("replay") or it.get("input")
        if "crowd" in r:
            run_crowd(report, drv, r["crowd"], "replay")
            continue
        if "ws" in r:
            run_ws_family(report, drv, [r["ws"]], "replay")
            continue
        if "wsc" in r:
            run_wsc_family(report, drv, [r["wsc"]], "replay")
            continue
        options = r["options"]
        ops = [tuple(o) for o in r["ops"]]
        run_case(report, drv, options, parsed_from_options(options), ops, "replay")
    drv.close()
