"""
C11 — query answers are unaffected by unrelated data and monotone in the filter.
Tie: as C02.  Search: paired runs on both backends —
  (a) the same filter on a store and on the store plus / minus non-matching neighbours whose ids,
      authors, kinds, tag values and timestamps are adjacent in byte order to the requested ones;
  (b) a filter and the same filter with one more condition / a narrower window (never more results);
  (c) a multi-value condition and its single values (union when no limit truncates).
"""
import random

from lib import common, gen, qscen, spec

THEOREMS_TIED = ["C11_kv_residual_monotone", "C11_kv_nonmatching_not_returned", "C11_kv_scan_ignores_outside",
                 "C11_sql_unrelated_insert", "C11_sql_union"]

REGULAR_KINDS = [1, 7, 4, 2, 6, 65535, 40000]


def hx(b):
    return bytes(b).hex()


def neighbours_of(rng, f, evs):
    """events adjacent in byte order to what the filter asks for; the caller drops those that match"""
    out = []
    # filters may carry hex in either case; stored events always have canonical lower-case ids / pubkeys
    f = {k: ([x.lower() for x in v] if k in ("ids", "authors") else v) for k, v in f.items()}

    def mk(**kw):
        e = {"id": gen.mkid(rng), "pubkey": rng.choice(gen.AUTHORS[:4]), "created_at": gen.T0 + rng.choice([0, 1, 50, 255, 256]),
             "kind": rng.choice(REGULAR_KINDS), "tags": [], "content": "", "sig": "00" * 64}
        e.update(kw)
        return e

    def adj_hex(h):
        # (a filter may carry hex strings of more than 64 digits; a stored event's id / pubkey is 32 bytes)
        b = bytearray(bytes.fromhex(h[:64]))
        r = rng.random()
        i = rng.choice([0, 15, 31])
        if r < 0.4:
            b[i] = (b[i] + 1) % 256
        elif r < 0.8:
            b[i] = (b[i] - 1) % 256
        else:
            b[31] ^= 1
        return bytes(b).hex()

    times = [e["created_at"] for e in evs] or [gen.T0]
    for a in f.get("authors", []):
        out.append(mk(pubkey=adj_hex(a)))
        out.append(mk(pubkey=adj_hex(a), kind=(f.get("kinds") or [1])[0]))
    for k in f.get("kinds", []):
        for d in (-1, 1, 256, -256, 65536):
            if k + d >= 0 and not (10000 <= k + d < 40000) and k + d not in (0, 3, 5):
                out.append(mk(kind=k + d, pubkey=(f.get("authors") or [rng.choice(gen.AUTHORS[:4])])[0][:64]))
    for i in f.get("ids", []):
        out.append(mk(id=adj_hex(i)))
    for k, vals in f.items():
        if k.startswith("#") and len(k) == 2:
            for v in vals:
                if not isinstance(v, str):
                    continue
                for w in (v + "a", v + "\x00", v + "\x01", v[:-1], v + v, v.upper(), "\x00" + v):
                    out.append(mk(tags=[[k[1], w]], kind=(f.get("kinds") or [1])[0], created_at=rng.choice(times) + rng.choice([-1, 0, 1])))
                out.append(mk(tags=[[chr(ord(k[1]) + 1) if k[1] < "z" else "a", v]]))
                out.append(mk(tags=[[k[1] + "x", v]]))
    for key, sign in (("since", -1), ("until", 1)):
        if key in f:
            for d in (1, 2, 256, 65536):
                t = f[key] + sign * d
                if t > 0:
                    out.append(mk(created_at=t, kind=(f.get("kinds") or [1])[0],
                                  pubkey=(f.get("authors") or [rng.choice(gen.AUTHORS[:4])])[0]))
    rng.shuffle(out)
    return out[:rng.randint(2, 10)]


def regular_store(rng):
    evs = []
    for i in range(rng.randint(3, 18)):
        e = gen.gen_event(rng, known_ids=[x["id"] for x in evs], authors=gen.AUTHORS[:4], kinds=REGULAR_KINDS[:4], times=gen.TIMES[:7])
        e["tags"] = [t for t in e["tags"] if t and t[0] != "expiration"]
        evs.append(e)
    return evs


def ask_both(scen, f):
    return [scen.ask_kv(dict(f)), scen.ask_sql([dict(f)])]


def inside(rec, *filters):
    """ids of the answer whose timestamp is not exactly a since/until bound of one of the filters
    (the properties leave the treatment of the bound itself open; both backends differ on it)"""
    bounds = set()
    for f in filters:
        for k in ("since", "until"):
            if k in f:
                bounds.add(f[k])
    ts = rec["ts"]
    return {i for i in rec["ids"] if ts.get(i) not in bounds}


def untruncated(rec):
    if rec is None or rec["ids"] is None:
        return False
    lim = rec.get("limit")
    return lim is None or len(rec["spec_incl"]) < lim


def classify(rec, extra_events=()):
    from props.c02 import classify_kv, classify_sql
    if rec["backend"] == "kv":
        r = dict(rec)
        r["events"] = list(rec["events"]) + list(extra_events)
        return classify_kv(r)
    for q in rec.get("cleaned") or []:
        c = classify_sql(rec, q)
        if c:
            return c
    return None


def pair_unrelated(report, scen, rng, evs, f):
    scen.load(evs)
    base = ask_both(scen, f)
    q = scen.kv.validate(dict(f))
    if q is None:
        return
    nb = [e for e in neighbours_of(rng, f, evs) if not spec.matches(q, e, False)]
    ids0 = {e["id"] for e in evs}
    nb = [e for e in nb if e["id"] not in ids0]
    if not nb:
        return
    where = rng.random()
    bigger = (nb + evs) if where < 0.3 else (evs + nb) if where < 0.6 else sorted(evs + nb, key=lambda e: rng.random())
    scen.load(bigger)
    after = ask_both(scen, f)
    for b, a in zip(base, after):
        if b is None or a is None or b["ids"] is None or a["ids"] is None:
            continue
        if not (untruncated(b) and untruncated(a)):
            continue
        if inside(b, f) != inside(a, f):
            cls = classify(a, nb) or classify(b)
            report.property_failure(
                "%s: adding %d non-matching events changed the answer of %r: lost %d, gained %d"
                % (a["backend"], len(nb), f, len(inside(b, f) - inside(a, f)), len(inside(a, f) - inside(b, f))),
                {"backend": a["backend"], "filters": [f], "events": evs, "neighbours": nb, "kind": "unrelated"}, cls)
        report.case(("unrelated", a["backend"], repr(f), len(evs), len(nb)), nontrivial=len(b["ids"]) > 0,
                    sample={"backend": a["backend"], "filter": f, "answer": len(b["ids"]), "neighbours": len(nb)})
        report.count("pairs_unrelated_" + a["backend"])


def narrower(rng, f, evs):
    g = dict(f)
    r = rng.random()
    if r < 0.25 and "kinds" not in g:
        g["kinds"] = [rng.choice([1, 7])]
    elif r < 0.45 and "authors" not in g:
        g["authors"] = [rng.choice(gen.AUTHORS[:4])]
    elif r < 0.6:
        g["since"] = max(g.get("since", 0), gen.T0 + rng.choice([0, 1, 50]))
    elif r < 0.75:
        g["until"] = min(g.get("until", 2145934000), gen.T0 + rng.choice([1, 50, 300]))
    elif r < 0.9:
        name = rng.choice(["t", "e", "p"])
        if "#" + name not in g:
            g["#" + name] = [rng.choice(gen.TAG_VALUES[:4])]
        else:
            g["#" + name] = g["#" + name][:1]
    else:
        for k in ("kinds", "authors", "ids"):
            if k in g and len(g[k]) > 1:
                g[k] = g[k][:1]
    g.pop("limit", None)
    return g


def pair_monotone(report, scen, rng, evs, f):
    f = dict(f)
    f.pop("limit", None)
    g = narrower(rng, f, evs)
    if g == f:
        return
    wide, narrow = ask_both(scen, f), ask_both(scen, g)
    for w, n in zip(wide, narrow):
        if w is None or n is None or w["ids"] is None or n["ids"] is None:
            continue
        if not (untruncated(w) and untruncated(n)):
            continue
        extra = inside(n, f, g) - set(w["ids"])
        if extra:
            cls = classify(w)
            report.property_failure("%s: narrowing %r to %r added %d results" % (w["backend"], f, g, len(extra)),
                                    {"backend": w["backend"], "filters": [f], "narrow": g, "events": evs, "kind": "monotone"}, cls)
        report.case(("monotone", w["backend"], repr(f), repr(g), len(evs)), nontrivial=len(w["ids"]) > 0,
                    sample={"backend": w["backend"], "wide": f, "narrow": g, "wide_n": len(w["ids"]), "narrow_n": len(n["ids"])})
        report.count("pairs_monotone_" + w["backend"])


def pair_union(report, scen, rng, evs, f, key=None):
    f = dict(f)
    f.pop("limit", None)
    keys = [k for k in f if isinstance(f[k], list) and len(set(map(str, f[k]))) > 1]
    if not keys:
        return
    k = key if key in keys else rng.choice(keys)
    whole = ask_both(scen, f)
    parts = []
    for v in f[k]:
        g = dict(f)
        g[k] = [v]
        parts.append(ask_both(scen, g))
    for bi, w in enumerate(whole):
        if w is None or w["ids"] is None or not untruncated(w):
            continue
        ps = [p[bi] for p in parts]
        if any(p is None or p["ids"] is None or not untruncated(p) for p in ps):
            continue
        union = set().union(*[inside(p, f) for p in ps])
        if union != inside(w, f):
            cls = classify(w) or next((c for c in (classify(p) for p in ps) if c), None)
            report.property_failure("%s: answer to %r over %s is not the union of the single-value answers (%d vs %d)"
                                    % (w["backend"], f, k, len(w["ids"]), len(union)),
                                    {"backend": w["backend"], "filters": [f], "split_on": k, "events": evs, "kind": "union"}, cls)
        report.case(("union", w["backend"], repr(f), k, len(evs)), nontrivial=len(w["ids"]) > 0,
                    sample={"backend": w["backend"], "filter": f, "split_on": k, "n": len(w["ids"])})
        report.count("pairs_union_" + w["backend"])


def multiindex_store(rng):
    """authors x kinds x several tag values, events carrying one or two of the requested values: the author/kind
    index is walked first and the tag index second, where an event can come up once per matching value"""
    authors = gen.AUTHORS[:4]
    kinds = REGULAR_KINDS[:4]
    vals = rng.sample(["x", "y", "z", "w"], rng.randint(2, 3))
    evs = []
    for i in range(rng.randint(3, 9)):
        r = rng.random()
        mine = rng.sample(vals, 2) if r < 0.45 else [rng.choice(vals)] if r < 0.85 else [rng.choice(["q", "xx"])]
        evs.append({"id": gen.mkid(rng), "pubkey": rng.choice(authors[:3]), "created_at": gen.T0 + rng.choice([0, 1, 2, 50, 100, 255, 256]),
                    "kind": rng.choice(kinds), "tags": [["t", v] for v in mine], "content": "", "sig": "00" * 64})
    f = {"authors": authors[:rng.choice([3, 4])], "kinds": kinds, "#t": vals}
    return evs, f


def mixed_case_union(report, scen, rng, evs):
    """several stored authors / ids asked for in every mix of upper- and lower-case hex: the answer must be the union of
    the single-value answers whatever the spelling (the relay lower-cases and orders the values itself)"""
    for key, pool in (("authors", sorted({e["pubkey"] for e in evs})), ("ids", sorted({e["id"] for e in evs}))):
        if len(pool) < 2:
            continue
        vals = rng.sample(pool, min(len(pool), rng.choice([2, 2, 3])))
        for _ in range(3):
            spelled = [v.upper() if rng.random() < 0.5 else v for v in vals]
            rng.shuffle(spelled)
            f = {key: spelled}
            if key == "authors" and rng.random() < 0.4:
                f["kinds"] = sorted({e["kind"] for e in evs})[:3]
            pair_union(report, scen, rng, evs, f, key=key)
            report.count("mixed_case_unions")


def adjacent_blocks(report, scen, rng):
    """a store in which the requested values own *adjacent* index blocks (two kinds, two authors, two tag values and nothing
    else), a window whose `until` cuts through every block: when the scan of one value ends, the cursor already rests on the
    newest entry of the next value's block — which is newer than `until`"""
    ks = rng.choice([[1, 7], [1, 2], [4, 7]])
    au = rng.sample(gen.AUTHORS[:4], 2)
    vals = rng.choice([["x", "y"], ["a", "b"], ["x", "xy"]])
    steps = [0, 10, 20, 30, 40, 50]
    evs = []
    for i in range(rng.randint(4, 9)):
        evs.append({"id": gen.mkid(rng), "pubkey": rng.choice(au), "created_at": gen.T0 + rng.choice(steps), "kind": rng.choice(ks),
                    "tags": [["t", rng.choice(vals)]], "content": "", "sig": "00" * 64})
    scen.load(evs)
    cut = gen.T0 + rng.choice([5, 15, 25, 35, 45])
    for f in ({"kinds": ks, "until": cut}, {"authors": au, "until": cut}, {"#t": vals, "until": cut},
              {"authors": au, "kinds": ks, "until": cut}, {"kinds": ks, "since": gen.T0 + 5, "until": cut},
              {"kinds": ks, "#t": vals, "until": cut}):
        pair_union(report, scen, rng, evs, f)
        report.count("adjacent_block_filters")


def same_value_two_names(report, scen, rng):
    """events that carry one value under two indexed tag names (["E", x] + ["e", x], ["p", k] + ["e", k] ...): a filter on either
    name alone, and the same filter narrowed by a condition that makes the planner enter through another index — narrowing
    must not add results"""
    vals = [rng.randbytes(32).hex(), rng.choice(["v", "abc"])]
    names = rng.sample(["e", "p", "E", "t", "a"], 3)
    evs = []
    for i in range(rng.randint(3, 7)):
        v = rng.choice(vals)
        tags = [[n, v] for n in rng.sample(names, rng.choice([1, 2, 2, 3]))]
        evs.append({"id": gen.mkid(rng), "pubkey": rng.choice(gen.AUTHORS[:2]), "created_at": gen.T0 + i * 7, "kind": rng.choice([1, 7]),
                    "tags": tags, "content": "", "sig": "00" * 64})
    scen.load(evs)
    ids = sorted(e["id"] for e in evs)
    for n in names:
        for v in vals:
            f = {"#" + n: [v]}
            others = [m for m in names if m != n]
            for g in ({**f, "ids": ids}, {**f, "#" + others[0]: [v]}, {**f, "kinds": [1, 7]}, {**f, "authors": gen.AUTHORS[:2]}):
                wide, narrow = ask_both(scen, f), ask_both(scen, g)
                for w, nr in zip(wide, narrow):
                    if w is None or nr is None or w["ids"] is None or nr["ids"] is None or not (untruncated(w) and untruncated(nr)):
                        continue
                    extra = inside(nr, f, g) - set(w["ids"])
                    if extra:
                        report.property_failure("%s: narrowing %r to %r added %d results" % (w["backend"], f, g, len(extra)),
                                                {"backend": w["backend"], "filters": [f], "narrow": g, "events": evs, "kind": "monotone"}, classify(w))
                    report.case(("monotone", w["backend"], repr(f), repr(g), len(evs)), nontrivial=len(nr["ids"]) > 0,
                                sample={"backend": w["backend"], "wide": f, "narrow": g, "wide_n": len(w["ids"]), "narrow_n": len(nr["ids"])})
                    report.count("pairs_monotone_" + w["backend"])
    report.count("same_value_two_names_stores")


def run_case(report, scen, rng):
    adjacent_blocks(report, scen, rng)
    if rng.random() < 0.5:
        same_value_two_names(report, scen, rng)
    for _ in range(2):
        evs, f = multiindex_store(rng)
        scen.load(evs)
        pair_union(report, scen, rng, evs, f)
        pair_monotone(report, scen, rng, evs, f)
        pair_unrelated(report, scen, rng, evs, f)
    evs = regular_store(rng)
    for _ in range(5):
        f = gen.gen_filter(rng, evs, limit_pool=(None,))
        pair_unrelated(report, scen, rng, evs, f)
    scen.load(evs)
    mixed_case_union(report, scen, rng, evs)
    for _ in range(8):
        f = gen.gen_filter(rng, evs, limit_pool=(None,))
        pair_monotone(report, scen, rng, evs, f)
        pair_union(report, scen, rng, evs, f)


def replay_one(report, scen, r):
    rng = random.Random(0)
    kind = r.get("kind", "unrelated")
    f = r["filters"][0]
    if kind == "unrelated":
        scen.load(r["events"])
        base = ask_both(scen, f)
        scen.load(r["events"] + r.get("neighbours", []))
        after = ask_both(scen, f)
        for b, a in zip(base, after):
            if b and a and b["ids"] is not None and a["ids"] is not None and a["backend"] == r["backend"]:
                if untruncated(a) and untruncated(b) and inside(b, f) != inside(a, f):
                    report.property_failure("%s: adding non-matching events changed the answer of %r" % (a["backend"], f),
                                            r, classify(a, r.get("neighbours", [])) or classify(b))
                report.case(("replay", repr(r)[:200]), nontrivial=True)
    else:
        scen.load(r["events"])
        if kind == "monotone":
            w = [x for x in ask_both(scen, f) if x and x["backend"] == r["backend"]]
            n = [x for x in ask_both(scen, r["narrow"]) if x and x["backend"] == r["backend"]]
            if w and n and w[0]["ids"] is not None and n[0]["ids"] is not None and inside(n[0], f, r["narrow"]) - set(w[0]["ids"]):
                report.property_failure("%s: narrowing added results" % r["backend"], r, classify(w[0]))
        else:
            pair_union(report, scen, rng, r["events"], f)
        report.case(("replay", repr(r)[:200]), nontrivial=True)


def run(report, tier, seed):
    rng = random.Random(seed)
    drv = common.Driver()
    scen = qscen.Scenario(report, drv)
    report.coverage["rule"] = (
        "stores of regular-kind events x filters from stored values; (a) neighbours adjacent in byte order (ids/authors "
        "+-1 in first/middle/last byte, kinds +-1/+-256/+65536, tag values extended/shortened/NUL-suffixed/doubled/"
        "upper-cased, neighbouring tag names, timestamps just outside since/until) inserted before, after or between; "
        "(b) one added condition or narrower window; (c) split of a multi-value condition; pairs are compared as id sets "
        "when no limit truncates; non-trivial = the base answer is non-empty")
    report.assumptions += ["neighbour events use regular kinds only (no replaceable/deletion side effects)"]
    try:
        for e in report.known:
            replay_one(report, scen, common.load_finding_replay(e))
        for i in range(14 if tier == "quick" else 300):
            run_case(report, scen, rng)
    finally:
        scen.close()
        drv.close()


def replay(report, path):
    import json

    data = json.load(open(path))
    drv = common.Driver()
    scen = qscen.Scenario(report, drv)
    try:
        for it in (data.get("violations") or []) + (data.get("correspondence_breaks") or []):
            r = it.get("replay") or it.get("input")
            if "backend" in r:
                replay_one(report, scen, r)
    finally:
        scen.close()
        drv.close()
