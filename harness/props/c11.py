"""
C11 — query answers are unaffected by unrelated data and monotone in the filter.
Tie: as C02.  Search: paired runs on both backends —
  (a) the same filter on a store and on the store plus / minus non-matching neighbours whose ids,
      authors, kinds, tag values and timestamps are adjacent in byte order to the requested ones;
  (b) a filter and the same filter with one more condition / a narrower window (never more results);
  (c) a multi-value condition and its single values (union when no limit truncates);
  (d) a REQ carrying several filters, two or more of them with tag conditions, next to different kinds / authors: its answer is
      the union of the answers to its filters asked one by one, does not depend on the order of the filters, and does not
      change when events are stored that match none of the filters (crossed events: the kind / author of one filter with the
      tag values of another).
"""
import random

from lib import common, gen, qscen, spec

THEOREMS_TIED = ["C11_kv_residual_monotone", "C11_kv_nonmatching_not_returned", "C11_kv_scan_ignores_outside",
                 "C11_sql_unrelated_insert", "C11_sql_union", "C11_kv_filter_exact", "C11_kv_filter_unrelated_data",
                 "C11_kv_filter_narrowing", "C11_kv_filter_union"]

REGULAR_KINDS = [1, 7, 4, 2, 6, 65535, 40000]


def hx(b):
    return bytes(b).hex()


def neighbours_of(rng, f, evs):
    """events adjacent in byte order to what the filter asks for; the caller drops those that match"""
    out = []
    # filters may carry hex in either case; stored events always have canonical lower-case ids / pubkeys
    f = {k: ([x.lower() for x in v] if k in ("ids", "authors") else v) for k, v in f.items()}

    def mk(**kw):
        e = {"id": gen.mkid(rng), "pubkey": rng.choice(gen.AUTHORS[:4]), "created_at": gen.T0 + rng.choice([0, 1, 50, 255, 256]),
             "kind": rng.choice(REGULAR_KINDS), "tags": [], "content": "", "sig": "00" * 64}
        e.update(kw)
        return e

    def adj_hex(h):
        # (a filter may carry hex strings of more than 64 digits; a stored event's id / pubkey is 32 bytes)
        b = bytearray(bytes.fromhex(h[:64]))
        r = rng.random()
        i = rng.choice([0, 15, 31])
        if r < 0.4:
            b[i] = (b[i] + 1) % 256
        elif r < 0.8:
            b[i] = (b[i] - 1) % 256
        else:
            b[31] ^= 1
        return bytes(b).hex()

    times = [e["created_at"] for e in evs] or [gen.T0]
    for a in f.get("authors", []):
        out.append(mk(pubkey=adj_hex(a)))
        out.append(mk(pubkey=adj_hex(a), kind=(f.get("kinds") or [1])[0]))
    for k in f.get("kinds", []):
        for d in (-1, 1, 256, -256, 65536):
            if k + d >= 0 and not (10000 <= k + d < 40000) and k + d not in (0, 3, 5):
                out.append(mk(kind=k + d, pubkey=(f.get("authors") or [rng.choice(gen.AUTHORS[:4])])[0][:64]))
    for i in f.get("ids", []):
        out.append(mk(id=adj_hex(i)))
    for k, vals in f.items():
        if k.startswith("#") and len(k) == 2:
            for v in vals:
                if not isinstance(v, str):
                    continue
                for w in (v + "a", v + "\x00", v + "\x01", v[:-1], v + v, v.upper(), "\x00" + v):
                    out.append(mk(tags=[[k[1], w]], kind=(f.get("kinds") or [1])[0], created_at=rng.choice(times) + rng.choice([-1, 0, 1])))
                out.append(mk(tags=[[chr(ord(k[1]) + 1) if k[1] < "z" else "a", v]]))
                out.append(mk(tags=[[k[1] + "x", v]]))
    for key, sign in (("since", -1), ("until", 1)):
        if key in f:
            for d in (1, 2, 256, 65536):
                t = f[key] + sign * d
                if t > 0:
                    out.append(mk(created_at=t, kind=(f.get("kinds") or [1])[0],
                                  pubkey=(f.get("authors") or [rng.choice(gen.AUTHORS[:4])])[0]))
    rng.shuffle(out)
    return out[:rng.randint(2, 10)]


def regular_store(rng):
    evs = []
    for i in range(rng.randint(3, 18)):
        e = gen.gen_event(rng, known_ids=[x["id"] for x in evs], authors=gen.AUTHORS[:4], kinds=REGULAR_KINDS[:4], times=gen.TIMES[:7])
        e["tags"] = [t for t in e["tags"] if t and t[0] != "expiration"]
        evs.append(e)
    return evs


def ask_both(scen, f):
    return [scen.ask_kv(dict(f)), scen.ask_sql([dict(f)])]


def inside(rec, *filters):
    """ids of the answer whose timestamp is not exactly a since/until bound of one of the filters
    (the properties leave the treatment of the bound itself open; both backends differ on it)"""
    bounds = set()
    for f in filters:
        for k in ("since", "until"):
            if k in f:
                bounds.add(f[k])
    ts = rec["ts"]
    return {i for i in rec["ids"] if ts.get(i) not in bounds}


def untruncated(rec):
    if rec is None or rec["ids"] is None:
        return False
    lim = rec.get("limit")
    return lim is None or len(rec["spec_incl"]) < lim


def classify(rec, extra_events=()):
    from props.c02 import classify_kv, classify_sql
    if rec["backend"] == "kv":
        r = dict(rec)
        r["events"] = list(rec["events"]) + list(extra_events)
        return classify_kv(r)
    for q in rec.get("cleaned") or []:
        c = classify_sql(rec, q)
        if c:
            return c
    return None


def pair_unrelated(report, scen, rng, evs, f):
    if len({e["id"] for e in evs}) != len(evs):
        # (two events under one id: which of them is stored depends on the loading order, which this comparison varies)
        report.count("pairs_unrelated_skipped_store_with_repeated_ids")
        return
    scen.load(evs)
    base = ask_both(scen, f)
    q = scen.kv.validate(dict(f))
    if q is None:
        return
    nb = [e for e in neighbours_of(rng, f, evs) if not spec.matches(q, e, False)]
    ids0 = {e["id"] for e in evs}
    nb = [e for e in nb if e["id"] not in ids0]
    if not nb:
        return
    where = rng.random()
    bigger = (nb + evs) if where < 0.3 else (evs + nb) if where < 0.6 else sorted(evs + nb, key=lambda e: rng.random())
    scen.load(bigger)
    after = ask_both(scen, f)
    for b, a in zip(base, after):
        if b is None or a is None or b["ids"] is None or a["ids"] is None:
            continue
        if not (untruncated(b) and untruncated(a)):
            continue
        if inside(b, f) != inside(a, f):
            cls = classify(a, nb) or classify(b)
            report.property_failure(
                "%s: adding %d non-matching events changed the answer of %r: lost %d, gained %d"
                % (a["backend"], len(nb), f, len(inside(b, f) - inside(a, f)), len(inside(a, f) - inside(b, f))),
                {"backend": a["backend"], "filters": [f], "events": evs, "neighbours": nb, "kind": "unrelated"}, cls)
        report.case(("unrelated", a["backend"], repr(f), len(evs), len(nb)), nontrivial=len(b["ids"]) > 0,
                    sample={"backend": a["backend"], "filter": f, "answer": len(b["ids"]), "neighbours": len(nb)})
        report.count("pairs_unrelated_" + a["backend"])


def narrower(rng, f, evs):
    g = dict(f)
    r = rng.random()
    if r < 0.25 and "kinds" not in g:
        g["kinds"] = [rng.choice([1, 7])]
    elif r < 0.45 and "authors" not in g:
        g["authors"] = [rng.choice(gen.AUTHORS[:4])]
    elif r < 0.6:
        g["since"] = max(g.get("since", 0), gen.T0 + rng.choice([0, 1, 50]))
    elif r < 0.75:
        g["until"] = min(g.get("until", 2145934000), gen.T0 + rng.choice([1, 50, 300]))
    elif r < 0.9:
        name = rng.choice(["t", "e", "p"])
        if "#" + name not in g:
            g["#" + name] = [rng.choice(gen.TAG_VALUES[:4])]
        else:
            g["#" + name] = g["#" + name][:1]
    else:
        for k in ("kinds", "authors", "ids"):
            if k in g and len(g[k]) > 1:
                g[k] = g[k][:1]
    g.pop("limit", None)
    return g


def pair_monotone(report, scen, rng, evs, f):
    f = dict(f)
    f.pop("limit", None)
    g = narrower(rng, f, evs)
    if g == f:
        return
    wide, narrow = ask_both(scen, f), ask_both(scen, g)
    for w, n in zip(wide, narrow):
        if w is None or n is None or w["ids"] is None or n["ids"] is None:
            continue
        if not (untruncated(w) and untruncated(n)):
            continue
        extra = inside(n, f, g) - set(w["ids"])
        if extra:
            cls = classify(w)
            report.property_failure("%s: narrowing %r to %r added %d results" % (w["backend"], f, g, len(extra)),
                                    {"backend": w["backend"], "filters": [f], "narrow": g, "events": evs, "kind": "monotone"}, cls)
        report.case(("monotone", w["backend"], repr(f), repr(g), len(evs)), nontrivial=len(w["ids"]) > 0,
                    sample={"backend": w["backend"], "wide": f, "narrow": g, "wide_n": len(w["ids"]), "narrow_n": len(n["ids"])})
        report.count("pairs_monotone_" + w["backend"])


def pair_union(report, scen, rng, evs, f, key=None):
    f = dict(f)
    f.pop("limit", None)
    keys = [k for k in f if isinstance(f[k], list) and len(set(map(str, f[k]))) > 1]
    if not keys:
        return
    k = key if key in keys else rng.choice(keys)
    whole = ask_both(scen, f)
    parts = []
    for v in f[k]:
        g = dict(f)
        g[k] = [v]
        parts.append(ask_both(scen, g))
    for bi, w in enumerate(whole):
        if w is None or w["ids"] is None or not untruncated(w):
            continue
        ps = [p[bi] for p in parts]
        if any(p is None or p["ids"] is None or not untruncated(p) for p in ps):
            continue
        union = set().union(*[inside(p, f) for p in ps])
        if union != inside(w, f):
            cls = classify(w) or next((c for c in (classify(p) for p in ps) if c), None)
            report.property_failure("%s: answer to %r over %s is not the union of the single-value answers (%d vs %d)"
                                    % (w["backend"], f, k, len(w["ids"]), len(union)),
                                    {"backend": w["backend"], "filters": [f], "split_on": k, "events": evs, "kind": "union"}, cls)
        report.case(("union", w["backend"], repr(f), k, len(evs)), nontrivial=len(w["ids"]) > 0,
                    sample={"backend": w["backend"], "filter": f, "split_on": k, "n": len(w["ids"])})
        report.count("pairs_union_" + w["backend"])


def multiindex_store(rng):
    """authors x kinds x several tag values, events carrying one or two of the requested values: the author/kind
    index is walked first and the tag index second, where an event can come up once per matching value"""
    authors = gen.AUTHORS[:4]
    kinds = REGULAR_KINDS[:4]
    vals = rng.sample(["x", "y", "z", "w"], rng.randint(2, 3))
    evs = []
    for i in range(rng.randint(3, 9)):
        r = rng.random()
        mine = rng.sample(vals, 2) if r < 0.45 else [rng.choice(vals)] if r < 0.85 else [rng.choice(["q", "xx"])]
        eid = gen.mkid(rng)
        while any(x["id"] == eid for x in evs):
            # the id generator favours boundary patterns (00…0, ff…f); two different events never share an id (it is the hash of
            # the contents), and with a shared id only the first one loaded is stored — the store would depend on the loading order
            eid = rng.randbytes(32).hex()
        evs.append({"id": eid, "pubkey": rng.choice(authors[:3]), "created_at": gen.T0 + rng.choice([0, 1, 2, 50, 100, 255, 256]),
                    "kind": rng.choice(kinds), "tags": [["t", v] for v in mine], "content": "", "sig": "00" * 64})
    f = {"authors": authors[:rng.choice([3, 4])], "kinds": kinds, "#t": vals}
    return evs, f


def mixed_case_union(report, scen, rng, evs):
    """several stored authors / ids asked for in every mix of upper- and lower-case hex: the answer must be the union of
    the single-value answers whatever the spelling (the relay lower-cases and orders the values itself)"""
    for key, pool in (("authors", sorted({e["pubkey"] for e in evs})), ("ids", sorted({e["id"] for e in evs}))):
        if len(pool) < 2:
            continue
        vals = rng.sample(pool, min(len(pool), rng.choice([2, 2, 3])))
        for _ in range(3):
            spelled = [v.upper() if rng.random() < 0.5 else v for v in vals]
            rng.shuffle(spelled)
            f = {key: spelled}
            if key == "authors" and rng.random() < 0.4:
                f["kinds"] = sorted({e["kind"] for e in evs})[:3]
            pair_union(report, scen, rng, evs, f, key=key)
            report.count("mixed_case_unions")


def adjacent_blocks(report, scen, rng):
    """a store in which the requested values own *adjacent* index blocks (two kinds, two authors, two tag values and nothing
    else), a window whose `until` cuts through every block: when the scan of one value ends, the cursor already rests on the
    newest entry of the next value's block — which is newer than `until`"""
    ks = rng.choice([[1, 7], [1, 2], [4, 7]])
    au = rng.sample(gen.AUTHORS[:4], 2)
    vals = rng.choice([["x", "y"], ["a", "b"], ["x", "xy"]])
    steps = [0, 10, 20, 30, 40, 50]
    evs = []
    for i in range(rng.randint(4, 9)):
        evs.append({"id": gen.mkid(rng), "pubkey": rng.choice(au), "created_at": gen.T0 + rng.choice(steps), "kind": rng.choice(ks),
                    "tags": [["t", rng.choice(vals)]], "content": "", "sig": "00" * 64})
    scen.load(evs)
    cut = gen.T0 + rng.choice([5, 15, 25, 35, 45])
    for f in ({"kinds": ks, "until": cut}, {"authors": au, "until": cut}, {"#t": vals, "until": cut},
              {"authors": au, "kinds": ks, "until": cut}, {"kinds": ks, "since": gen.T0 + 5, "until": cut},
              {"kinds": ks, "#t": vals, "until": cut}):
        pair_union(report, scen, rng, evs, f)
        report.count("adjacent_block_filters")


def same_value_two_names(report, scen, rng):
    """events that carry one value under two indexed tag names (["E", x] + ["e", x], ["p", k] + ["e", k] ...): a filter on either
    name alone, and the same filter narrowed by a condition that makes the planner enter through another index — narrowing
    must not add results"""
    vals = [rng.randbytes(32).hex(), rng.choice(["v", "abc"])]
    names = rng.sample(["e", "p", "E", "t", "a"], 3)
    evs = []
    for i in range(rng.randint(3, 7)):
        v = rng.choice(vals)
        tags = [[n, v] for n in rng.sample(names, rng.choice([1, 2, 2, 3]))]
        evs.append({"id": gen.mkid(rng), "pubkey": rng.choice(gen.AUTHORS[:2]), "created_at": gen.T0 + i * 7, "kind": rng.choice([1, 7]),
                    "tags": tags, "content": "", "sig": "00" * 64})
    scen.load(evs)
    ids = sorted(e["id"] for e in evs)
    for n in names:
        for v in vals:
            f = {"#" + n: [v]}
            others = [m for m in names if m != n]
            for g in ({**f, "ids": ids}, {**f, "#" + others[0]: [v]}, {**f, "kinds": [1, 7]}, {**f, "authors": gen.AUTHORS[:2]}):
                wide, narrow = ask_both(scen, f), ask_both(scen, g)
                for w, nr in zip(wide, narrow):
                    if w is None or nr is None or w["ids"] is None or nr["ids"] is None or not (untruncated(w) and untruncated(nr)):
                        continue
                    extra = inside(nr, f, g) - set(w["ids"])
                    if extra:
                        report.property_failure("%s: narrowing %r to %r added %d results" % (w["backend"], f, g, len(extra)),
                                                {"backend": w["backend"], "filters": [f], "narrow": g, "events": evs, "kind": "monotone"}, classify(w))
                    report.case(("monotone", w["backend"], repr(f), repr(g), len(evs)), nontrivial=len(nr["ids"]) > 0,
                                sample={"backend": w["backend"], "wide": f, "narrow": g, "wide_n": len(w["ids"]), "narrow_n": len(nr["ids"])})
                    report.count("pairs_monotone_" + w["backend"])
    report.count("same_value_two_names_stores")


# ---------------------------------------------------------------------------------------------------------------------------
# (d) REQs that carry several filters.  A REQ [f1, f2, ...] is a disjunction of conjunctions: every filter must be answered from
# its *own* conditions, whatever its neighbours in the REQ name.  The paired runs: the REQ against its filters asked one by
# one (union), against the same filters in another order, and against the same store plus events that match none of the filters.
# The events that tell a REQ from a wrong reading of it are the *crossed* ones: kind / author / window of one filter with the tag
# values of another — they match neither, and any leak of a condition from one filter into another returns them (or loses the
# proper matches of the filter leaked into).

REQ_NAMES = ["e", "p", "t", "a", "r"]
REQ_TIMES = [0, 1, 2, 50, 100, 255, 256]


def req_vocabulary(rng):
    """per tag name a small pool of values; some values sit in the pools of two names (the same reference under "e" and "p").
    Reference-shaped (64 hex digits), plain words related as prefixes, and text that is special inside an SQL statement or a
    bind-parameter syntax (quote, colon, relay url, NIP-33 coordinate, percent) — all of them ordinary tag values.  The empty
    string and NUL stay out: both are recorded open classes of the SQL backend (sql-empty-tag-value, sql-nul-in-value)."""
    refs = [rng.randbytes(32).hex() for _ in range(3)]
    words = rng.sample(["a", "ab", "abc", "b", "x", "y", "nostr", "A"], 4)
    texts = rng.sample(["a'b", "x:y", ":w", "wss://relay.example:443/", "30023:" + gen.AUTHORS[3] + ":d", "a b", "%", "é", "tag_0"], 3)
    names = rng.sample(REQ_NAMES, 3)
    shared = refs + words + texts
    pools = {}
    for n in names:
        pools[n] = rng.sample(shared, rng.choice([3, 4, 5]))
    return names, pools


def req_filters(rng, names, pools):
    """2-4 filters; at least two of them carry tag conditions (the same name with different — sometimes overlapping — values,
    different names, several conditions per filter), next to different kinds / authors; no limits (one LIMIT per REQ is a
    recorded open class of the SQL backend: the stores below stay under the default limit instead)"""
    kinds = REGULAR_KINDS[:4]
    authors = gen.AUTHORS[:4]
    for _attempt in range(20):
        n = rng.choice([2, 2, 3, 4])
        shape = rng.choice(["same-name", "other-names", "several", "mixed"])
        off = rng.randrange(4)
        fs = []
        for i in range(n):
            f = {}
            r = rng.random()
            if r < 0.8:
                f["kinds"] = [kinds[(off + i) % 4]] if rng.random() < 0.7 else sorted(rng.sample(kinds, 2))
            if r >= 0.8 or rng.random() < 0.3:
                f["authors"] = [authors[(off + i) % 4]] if rng.random() < 0.7 else rng.sample(authors, 2)
            if shape == "same-name":
                conds = [names[0]]
            elif shape == "other-names":
                conds = [names[i % len(names)]]
            elif shape == "several":
                conds = rng.sample(names, rng.choice([2, 2, 3]))
            else:
                conds = rng.sample(names, rng.choice([0, 1, 1, 2]))
            for c in conds:
                pool = pools[c]
                # filter i starts at "its own" place of the pool, so that neighbours in the REQ mostly ask for other values
                first = pool[(off + i) % len(pool)]
                vals = [first] + [v for v in rng.sample(pool, rng.choice([0, 0, 1, 2])) if v != first]
                f["#" + c] = vals
            if rng.random() < 0.15:
                f["until"] = gen.T0 + rng.choice([60, 150, 300])
            elif rng.random() < 0.1:
                f["since"] = gen.T0 + rng.choice([1, 40])
            fs.append(f)
        tagged = [f for f in fs if any(k.startswith("#") for k in f)]
        if len(tagged) >= 2 and len({repr(sorted(f.items())) for f in fs}) == len(fs):
            return shape, fs
    return shape, fs


def req_event(rng, frame, tagged, pools, seen):
    """an event with the kind / author / window of the filter `frame` and one requested value for every tag condition of
    the filter `tagged` (the same filter: a match; two different filters: a crossed event)"""
    lo = frame.get("since", gen.T0 - 1) + 1
    hi = frame.get("until", gen.T0 + 400) - 1
    times = [gen.T0 + t for t in REQ_TIMES if lo <= gen.T0 + t <= hi] or [lo]
    tags = [[k[1], rng.choice(v)] for k, v in sorted(tagged.items()) if k.startswith("#")]
    if rng.random() < 0.3 and pools:
        n = rng.choice(sorted(pools))
        tags.append([n, rng.choice(pools[n])])
    rng.shuffle(tags)
    i = gen.mkid(rng)
    while i in seen:
        i = gen.mkid(rng)
    seen.add(i)
    return {"id": i, "pubkey": rng.choice(frame.get("authors") or gen.AUTHORS[:4]), "created_at": rng.choice(times),
            "kind": rng.choice(frame.get("kinds") or REGULAR_KINDS[:4]), "tags": tags, "content": "", "sig": "00" * 64}


def req_store(rng, scen, fs, pools, budget):
    """(store, events that match none of the filters and are held back as later neighbours).  The store holds matches of
    every filter, crossed events for pairs of filters and a few free combinations of the vocabulary; at most `budget` events
    in all, so that the one LIMIT of a REQ (the configured maximum, 20 in the harness) cannot truncate anything"""
    qs = [scen.kv.validate(dict(f)) for f in fs]
    seen = set()
    evs = []
    for f in fs:
        for _ in range(rng.choice([1, 1, 2])):
            evs.append(req_event(rng, f, f, pools, seen))
    pairs = [(i, j) for i in range(len(fs)) for j in range(len(fs)) if i != j]
    rng.shuffle(pairs)
    for i, j in pairs[:rng.randint(2, 6)]:
        evs.append(req_event(rng, fs[i], fs[j], pools, seen))
    for _ in range(rng.randint(0, 3)):
        free = {"#" + n: pools[n] for n in rng.sample(sorted(pools), rng.choice([1, 2]))}
        evs.append(req_event(rng, {}, free, pools, seen))
    evs = evs[:budget]
    rng.shuffle(evs)

    def unrelated(e):
        return all(q is not None and not spec.matches(q, e, False) for q in qs)
    strangers = [e for e in evs if unrelated(e)]
    held = strangers[:len(strangers) // 2]
    store = [e for e in evs if not any(e is h for h in held)]
    # more neighbours of every single filter (byte-adjacent values, neighbouring names ...), kept when they match no filter
    more = []
    for f in fs:
        for e in neighbours_of(rng, f, store)[:3]:
            if unrelated(e) and e["id"] not in seen:
                seen.add(e["id"])
                more.append(e)
    room = max(0, budget - len(store) - len(held))
    return store, held + more[:room]


def req_answer(scen, backend, fs):
    """the answer to one REQ carrying the filters `fs` on one backend: {"ids", "ts", "open" (no limit truncates), "cls"};
    None when the backend does not answer (a refused filter, no plan)"""
    fs = [dict(f) for f in fs]
    if backend == "sql":
        rec = scen.ask_sql(fs)
        if rec is None or rec["ids"] is None or len(rec.get("cleaned") or []) != len(fs):
            return None
        return {"backend": "sql", "ids": list(rec["ids"]), "ts": rec["ts"], "open": untruncated(rec), "cls": classify(rec)}
    res = scen.kv.ask_req(fs)
    if res is None or len(res) != len(fs):
        return None
    from props.c02 import classify_kv
    ids, open_, cls = set(), True, None
    for f, got, alone in res:
        ids |= set(got)
        q = scen.kv.validate(dict(f))
        lim = alone.get("limit")
        if lim is not None and sum(1 for e in scen.events if spec.matches(q, e, False)) >= lim:
            open_ = False
        cls = cls or classify_kv({"filters": [f], "index": alone.get("index"), "events": scen.events})
    return {"backend": "kv", "ids": sorted(ids), "ts": {i: e["created_at"] for i, e in scen.by_id.items()}, "open": open_, "cls": cls}


def req_place(evs, nb, placement):
    if placement == "before":
        return nb + evs
    if placement == "after":
        return evs + nb
    out, a, b = [], list(evs), list(nb)
    while a or b:
        if a:
            out.append(a.pop(0))
        if b:
            out.append(b.pop(0))
    return out


def req_checks(report, scen, evs, fs, nb, order, placement, only=None):
    """the three paired runs of one multi-filter REQ, on both backends"""
    backends = [b for b in ("kv", "sql") if only in (None, b)]

    def payload(backend, kind):
        return {"backend": backend, "filters": fs, "events": evs, "neighbours": nb, "order": order, "placement": placement, "kind": kind}
    tagged = sum(1 for f in fs if any(k.startswith("#") for k in f))
    scen.load(evs)
    base = {}
    for backend in backends:
        whole = req_answer(scen, backend, fs)
        if whole is None or not whole["open"]:
            continue
        base[backend] = whole
        got = inside(whole, *fs)
        sample = {"backend": backend, "filters": len(fs), "with_tag_conditions": tagged, "answer": len(whole["ids"]), "events": len(evs)}
        # the answer to [f1, f2, ...] is the union of the answers to [f1], [f2], ...
        parts = [req_answer(scen, backend, [f]) for f in fs]
        if all(p is not None and p["open"] for p in parts):
            union = set().union(*[inside(p, *fs) for p in parts])
            if union != got:
                cls = whole["cls"] or next((p["cls"] for p in parts if p["cls"]), None)
                report.property_failure(
                    "%s: the answer to the REQ %r is not the union of the answers to its filters asked one by one: %d missing, %d extra"
                    % (backend, fs, len(union - got), len(got - union)), payload(backend, "req-union"), cls)
            report.case(("req-union", backend, repr(fs), len(evs)), nontrivial=len(union) > 0, sample=sample)
            report.count("req_union_" + backend)
        # ... and does not depend on the order of the filters
        other = req_answer(scen, backend, [fs[i] for i in order])
        if other is not None and other["open"]:
            if inside(other, *fs) != got:
                report.property_failure(
                    "%s: the REQ %r is answered differently when its filters come in the order %r: %d only in the first, %d only in the second"
                    % (backend, fs, order, len(got - inside(other, *fs)), len(inside(other, *fs) - got)),
                    payload(backend, "req-order"), whole["cls"] or other["cls"])
            report.case(("req-order", backend, repr(fs), repr(order), len(evs)), nontrivial=len(got) > 0, sample=sample)
            report.count("req_order_" + backend)
    if not nb or not base:
        return
    # ... nor on stored events that match none of the filters
    scen.load(req_place(evs, nb, placement))
    for backend, whole in base.items():
        after = req_answer(scen, backend, fs)
        if after is None or not after["open"]:
            continue
        b, a = inside(whole, *fs), inside(after, *fs)
        if a != b:
            report.property_failure(
                "%s: adding %d events that match none of the filters changed the answer to the REQ %r: lost %d, gained %d"
                % (backend, len(nb), fs, len(b - a), len(a - b)), payload(backend, "req-unrelated"), after["cls"] or whole["cls"])
        report.case(("req-unrelated", backend, repr(fs), len(evs), len(nb)), nontrivial=len(b) > 0,
                    sample={"backend": backend, "filters": len(fs), "with_tag_conditions": tagged, "answer": len(b), "neighbours": len(nb)})
        report.count("req_unrelated_" + backend)


def multi_filter_reqs(report, scen, rng, budget=18):
    names, pools = req_vocabulary(rng)
    shape, fs = req_filters(rng, names, pools)
    evs, nb = req_store(rng, scen, fs, pools, budget)
    order = list(range(len(fs)))
    while order == list(range(len(fs))):
        rng.shuffle(order)
    placement = rng.choice(["before", "after", "between"])
    req_checks(report, scen, evs, fs, nb, order, placement)
    report.count("req_shape_" + shape)
    report.count("multi_filter_reqs")


def run_case(report, scen, rng, tier="quick"):
    for _ in range(2 if tier == "quick" else 4):
        multi_filter_reqs(report, scen, rng)
    adjacent_blocks(report, scen, rng)
    if rng.random() < 0.5:
        same_value_two_names(report, scen, rng)
    for _ in range(2):
        evs, f = multiindex_store(rng)
        scen.load(evs)
        pair_union(report, scen, rng, evs, f)
        pair_monotone(report, scen, rng, evs, f)
        pair_unrelated(report, scen, rng, evs, f)
    evs = regular_store(rng)
    for _ in range(5):
        f = gen.gen_filter(rng, evs, limit_pool=(None,))
        pair_unrelated(report, scen, rng, evs, f)
    scen.load(evs)
    mixed_case_union(report, scen, rng, evs)
    for _ in range(8):
        f = gen.gen_filter(rng, evs, limit_pool=(None,))
        pair_monotone(report, scen, rng, evs, f)
        pair_union(report, scen, rng, evs, f)


def replay_one(report, scen, r):
    rng = random.Random(0)
    kind = r.get("kind", "unrelated")
    f = r["filters"][0]
    if kind.startswith("req-"):
        req_checks(report, scen, r["events"], r["filters"], r.get("neighbours", []), r["order"], r.get("placement", "after"),
                   only=r["backend"])
    elif kind == "unrelated":
        scen.load(r["events"])
        base = ask_both(scen, f)
        scen.load(r["events"] + r.get("neighbours", []))
        after = ask_both(scen, f)
        for b, a in zip(base, after):
            if b and a and b["ids"] is not None and a["ids"] is not None and a["backend"] == r["backend"]:
                if untruncated(a) and untruncated(b) and inside(b, f) != inside(a, f):
                    report.property_failure("%s: adding non-matching events changed the answer of %r" % (a["backend"], f),
                                            r, classify(a, r.get("neighbours", [])) or classify(b))
                report.case(("replay", repr(r)[:200]), nontrivial=True)
    else:
        scen.load(r["events"])
        if kind == "monotone":
            w = [x for x in ask_both(scen, f) if x and x["backend"] == r["backend"]]
            n = [x for x in ask_both(scen, r["narrow"]) if x and x["backend"] == r["backend"]]
            if w and n and w[0]["ids"] is not None and n[0]["ids"] is not None and inside(n[0], f, r["narrow"]) - set(w[0]["ids"]):
                report.property_failure("%s: narrowing added results" % r["backend"], r, classify(w[0]))
        else:
            pair_union(report, scen, rng, r["events"], f)
        report.case(("replay", repr(r)[:200]), nontrivial=True)


def run(report, tier, seed):
    rng = random.Random(seed)
    drv = common.Driver()
    scen = qscen.Scenario(report, drv)
    report.coverage["rule"] = (
        "stores of regular-kind events x filters from stored values; (a) neighbours adjacent in byte order (ids/authors "
        "+-1 in first/middle/last byte, kinds +-1/+-256/+65536, tag values extended/shortened/NUL-suffixed/doubled/"
        "upper-cased, neighbouring tag names, timestamps just outside since/until) inserted before, after or between; "
        "(b) one added condition or narrower window; (c) split of a multi-value condition; (d) REQs of 2-4 filters, at least "
        "two with tag conditions (same name / other names / several conditions per filter; reference-shaped values, words "
        "related as prefixes, text with quotes and colons) over stores of matches, crossed events (kind / author of one "
        "filter, tag values of another) and free combinations: the REQ vs its filters one by one (union), vs another order "
        "of the filters, vs the store plus events matching none of the filters; pairs are compared as id sets "
        "when no limit truncates; non-trivial = the base answer is non-empty")
    report.assumptions += ["neighbour events use regular kinds only (no replaceable/deletion side effects)"]
    try:
        for e in report.known:
            replay_one(report, scen, common.load_finding_replay(e))
        for i in range(14 if tier == "quick" else 300):
            run_case(report, scen, rng, tier)
    finally:
        scen.close()
        drv.close()


def replay(report, path):
    import json

    data = json.load(open(path))
    drv = common.Driver()
    scen = qscen.Scenario(report, drv)
    try:
        for it in (data.get("violations") or []) + (data.get("correspondence_breaks") or []):
            r = it.get("replay") or it.get("input")
            if "backend" in r:
                replay_one(report, scen, r)
    finally:
        scen.close()
        drv.close()
