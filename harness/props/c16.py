"""
C16 — configured admission policies are applied to every event, fail-closed.
Tie: each real validator function at bound-1 / bound / bound+1 (injected clock) vs the Lean decision
functions; the real pipeline (`get_validator`) through add_event on both backends; the real
ListBuilder.run_once with an instrumented set swapped in for the module-global lists, compared with the
Lean sequence of atomic set operations.
Search: decisions against an independent statement of each documented bound; a refused event leaves no
trace (not stored, not broadcast) and carries a reason; submissions that are in flight at the same time (same id claimed by
different payloads included) each get the verdict of their own payload; during a refresh of an enforced allow list a
concurrent reader never sees it empty; after the refresh the lists hold exactly the expected keys.
"""
import asyncio
import random
import types

from lib import common
from lib.hist import KVStore, SQLStore

THEOREMS_TIED = ["C16_size_iff", "C16_recent_iff", "C16_kind_iff", "C16_whitelist_iff", "C16_blacklist_iff", "C16_pow_iff",
                 "C16_hellthread_iff", "C16_service_iff", "C16_dynamic_iff", "C16_pipeline", "C16_refresh_never_empty",
                 "C16_refresh_result"]

NOW = 1700000000
A, B, C = "aa" * 32, "bb" * 32, "cc" * 32


def mk_ev(content_len=10, created_at=NOW, kind=1, pubkey=A, id_bits=200, p_tags=0, delegator=None):
    """a real Event object (the class the validators receive in the relay), with every field an event has; `delegator`:
    the event also carries a NIP-26 delegation tag naming that key (whether the tag verifies is is_signed's business; the
    policy validators decide on the event's own pubkey)"""
    from aionostr.event import Event

    idint = (1 << (id_bits - 1)) | 1 if id_bits > 0 else 0
    tags = [["p", "00" * 32]] * p_tags + [["t", "x"]]
    if delegator is not None:
        tags.append(["delegation", delegator, "kind=%d" % kind, "00" * 64])
    return Event(content="x" * content_len, created_at=created_at, kind=kind, pubkey=pubkey, id="%064x" % idint,
                 tags=tags, sig="00" * 64)


def cfg(**kw):
    d = dict(max_event_size=50, oldest_event=1000, valid_kinds=[1, 7], pubkey_whitelist=[A], pubkey_blacklist=[B],
             require_pow=8, hellthread_limit=3, service_pubkey=C)
    d.update(kw)
    return types.SimpleNamespace(**d)


def spec(name, c, e):
    """the documented bounds, stated independently; True = admitted"""
    if name == "is_not_too_large":
        return len(e.content) <= c.max_event_size
    if name == "is_recent":
        return (NOW - e.created_at) <= c.oldest_event and (NOW - e.created_at) >= -3600
    if name == "is_certain_kind":
        return e.kind in c.valid_kinds
    if name == "is_author_whitelisted":
        # fail-closed: an enabled whitelist that is empty or unset admits nobody
        return c.pubkey_whitelist is not None and e.pubkey in c.pubkey_whitelist
    if name == "is_author_blacklisted":
        return c.pubkey_blacklist is not None and e.pubkey not in c.pubkey_blacklist
    if name == "is_pow":
        n = int(e.id, 16)
        zeros = 256 - n.bit_length()
        return zeros >= c.require_pow
    if name == "is_not_hellthread":
        if not c.hellthread_limit or e.kind not in (1, 7):
            return True
        return sum(1 for t in e.tags if t[0] == "p") <= c.hellthread_limit
    if name == "is_service_event":
        return not (e.kind == 31494 and e.pubkey != c.service_pubkey)
    raise KeyError(name)


def bound_cases():
    out = []
    for n in (0, 49, 50, 51, 1000):
        out.append(("is_not_too_large", cfg(), mk_ev(content_len=n)))
    for d in (-3602, -3601, -3600, -3599, 0, 999, 1000, 1001, 100000):
        out.append(("is_recent", cfg(), mk_ev(created_at=NOW - d)))
    for k in (0, 1, 2, 7, 8, 30000):
        out.append(("is_certain_kind", cfg(), mk_ev(kind=k)))
    for pk in (A, B, C, "aa" * 31 + "ab"):
        out.append(("is_author_whitelisted", cfg(), mk_ev(pubkey=pk)))
        out.append(("is_author_blacklisted", cfg(), mk_ev(pubkey=pk)))
        # the validator is configured but its list is empty / not set at all
        for wl in ([], None, (), [pk], [B, pk]):
            out.append(("is_author_whitelisted", cfg(pubkey_whitelist=wl), mk_ev(pubkey=pk)))
        for bl in ([], None, [pk]):
            out.append(("is_author_blacklisted", cfg(pubkey_blacklist=bl), mk_ev(pubkey=pk)))
        # events published under a NIP-26 delegation: the lists are about the event's own pubkey, whoever delegated
        for dg in (A, B, C):
            out.append(("is_author_whitelisted", cfg(), mk_ev(pubkey=pk, delegator=dg)))
            out.append(("is_author_blacklisted", cfg(), mk_ev(pubkey=pk, delegator=dg)))
    for bits in (256, 249, 248, 247, 200, 1, 0):
        for req in (0, 8, 9):
            out.append(("is_pow", cfg(require_pow=req), mk_ev(id_bits=bits)))
    for k in (1, 7, 4):
        for n in (0, 2, 3, 4, 10):
            for lim in (0, 3):
                out.append(("is_not_hellthread", cfg(hellthread_limit=lim), mk_ev(kind=k, p_tags=n)))
    for k in (31494, 31493, 1):
        for pk in (C, A):
            out.append(("is_service_event", cfg(), mk_ev(kind=k, pubkey=pk)))
    return out


def model_cfg(c):
    return {"max_event_size": c.max_event_size, "oldest_event": c.oldest_event, "valid_kinds": list(c.valid_kinds),
            "whitelist": None if c.pubkey_whitelist is None else list(c.pubkey_whitelist),
            "blacklist": None if c.pubkey_blacklist is None else list(c.pubkey_blacklist), "require_pow": c.require_pow,
            "hellthread_limit": c.hellthread_limit or 0, "service_pubkey": c.service_pubkey}


def model_ev(e):
    return {"pubkey": e.pubkey, "kind": e.kind, "created_at": e.created_at, "content_len": len(e.content),
            "id_bit_length": int(e.id, 16).bit_length(), "p_tags": sum(1 for t in e.tags if t[0] == "p")}


def validator_cases(report, drv):
    from nostr_relay import validators
    from nostr_relay.errors import StorageError

    validators.time = lambda: NOW
    for name, c, e in bound_cases():
        fn = getattr(validators, name)
        try:
            fn(e, c)
            v = "ok"
        except StorageError as ex:
            v = "reject"
            if not str(ex):
                report.property_failure("%s refuses without a reason" % name, {"validator": name}, None)
        except Exception:
            v = "raises"
        mv = drv.call({"op": "adm.validator", "name": name, "cfg": model_cfg(c), "ev": model_ev(e), "now": NOW})
        payload = {"validator": name, "cfg": vars(c), "ev": model_ev(e),
                   "delegator": next((t[1] for t in e.tags if t[0] == "delegation"), None)}
        if mv != v:
            report.correspondence_break("validators.%s" % name, payload, v, mv)
        if (v == "ok") != spec(name, c, e):
            report.property_failure("%s decides %s at %r, the documented bound says %s"
                                    % (name, v, model_ev(e), "admit" if spec(name, c, e) else "refuse"), payload, None)
        report.case((name, repr(vars(c)), repr(model_ev(e)), payload["delegator"]), nontrivial=True, sample={"validator": name, "verdict": v})
        report.count("validator_" + name)


def dynamic_verdict_cases(report, drv):
    """dynamic_lists.is_pubkey_allowed over every combination of allow list x deny list x author, overlapping lists included:
    admitted iff (no allow list in force or on it) and not on the deny list"""
    import itertools
    from nostr_relay import dynamic_lists as dl
    from nostr_relay.config import Config
    from nostr_relay.errors import StorageError

    keys = [A, B, C]
    subsets = [list(x) for n in range(0, 4) for x in itertools.combinations(keys, n)]
    old = (dl.ALLOWED_PUBKEYS, dl.DENIED_PUBKEYS)
    try:
        for allowed in subsets:
            for denied in subsets:
                for pk, dg in [(k, None) for k in keys] + [(k, d) for k in keys for d in keys if d != k]:
                    dl.ALLOWED_PUBKEYS = {bytes.fromhex(x) for x in allowed}
                    dl.DENIED_PUBKEYS = {bytes.fromhex(x) for x in denied}
                    try:
                        dl.is_pubkey_allowed(mk_ev(pubkey=pk, delegator=dg), Config)
                        v = "ok"
                    except StorageError as ex:
                        v = "reject"
                        if not str(ex):
                            report.property_failure("is_pubkey_allowed refuses without a reason", {"validator": "is_pubkey_allowed"}, None)
                    except Exception:
                        v = "raises"
                    payload = {"validator": "is_pubkey_allowed", "allowed": allowed, "denied": denied, "pubkey": pk, "delegator": dg}
                    mv = drv.call({"op": "adm.validator", "name": "is_pubkey_allowed", "cfg": model_cfg(cfg()), "ev": model_ev(mk_ev(pubkey=pk)),
                                   "now": NOW, "allowed": allowed, "denied": denied})
                    if mv != v:
                        report.correspondence_break("dynamic_lists.is_pubkey_allowed", payload, v, mv)
                    want = (not allowed or pk in allowed) and pk not in denied
                    if (v == "ok") != want:
                        report.property_failure(
                            "is_pubkey_allowed %s an author who is %s the allow list (%d keys) and %s the deny list (%d keys)"
                            % ("admits" if v == "ok" else "refuses", "on" if pk in allowed else "not on", len(allowed),
                               "on" if pk in denied else "not on", len(denied))
                            + (" [the event carries a delegation tag of a key that is %s the allow list and %s the deny list]"
                               % ("on" if dg in allowed else "not on", "on" if dg in denied else "not on") if dg else ""), payload, None)
                    report.case(("is_pubkey_allowed", repr(allowed), repr(denied), pk, dg), nontrivial=bool(allowed or denied),
                                sample={"validator": "is_pubkey_allowed", "verdict": v})
                    report.count("validator_is_pubkey_allowed")
    finally:
        dl.ALLOWED_PUBKEYS, dl.DENIED_PUBKEYS = old


def pipeline_cases(report, rng, tier):
    """the real pipeline through add_event: a violating event is refused, with a reason, without trace"""
    from nostr_relay.config import Config
    from nostr_relay import validators
    from aionostr.key import PrivateKey

    validators.time = lambda: NOW
    names = ["is_signed", "is_not_too_large", "is_recent", "is_certain_kind", "is_author_blacklisted", "is_not_hellthread"]
    Config.max_event_size = 50
    Config.oldest_event = 1000
    Config.valid_kinds = [1, 7]
    Config.hellthread_limit = 3
    sk, bad = PrivateKey(b"\x01" * 32), PrivateKey(b"\x02" * 32)
    Config.pubkey_blacklist = [bad.public_key.hex()]
    stores = [KVStore(validators=["nostr_relay.validators." + n for n in names]),
              SQLStore(validators=["nostr_relay.validators." + n for n in names])]
    from aionostr.event import Event
    try:
        for i in range(40 if tier == "quick" else 600):
            viol = rng.choice(["none", "none", "size", "old", "future", "kind", "blacklist", "hellthread", "sig", "two",
                               # a denied key publishing under a (genuine) NIP-26 delegation issued by a key that is not denied
                               "blacklist-delegated", "delegated-none",
                               # validly signed events with a field of the wrong JSON type that violate a policy — or on which a
                               # policy cannot even be evaluated: never admitted
                               "old-as-string", "content-null-oversize", "kind-as-string"])
            key = bad if viol in ("blacklist", "blacklist-delegated") else sk
            kw = dict(pubkey=key.public_key.hex(), content="ok %d" % i, kind=1, created_at=NOW - rng.randrange(100), tags=[])
            if viol in ("blacklist-delegated", "delegated-none"):
                import hashlib
                from coincurve import PrivateKey as CPrivateKey

                dk = CPrivateKey(b"\x03" * 32 if viol == "blacklist-delegated" else b"\x04" * 32)
                to_sign = ":".join(["nostr", "delegation", kw["pubkey"], "kind=1"]).encode("utf8")
                kw["tags"] = [["delegation", dk.public_key_xonly.format().hex(), "kind=1",
                               dk.sign_schnorr(hashlib.sha256(to_sign).digest(), None).hex()]]
            if viol in ("size", "two"):
                kw["content"] = "x" * 51
            if viol == "old":
                kw["created_at"] = NOW - 1001
            if viol == "future":
                kw["created_at"] = NOW + 3601
            if viol in ("kind", "two"):
                kw["kind"] = 4
            if viol == "hellthread":
                kw["tags"] = [["p", "00" * 32]] * 4
            if viol == "old-as-string":
                kw["created_at"] = str(NOW - 500000)
            if viol == "content-null-oversize":
                kw["content"] = None
            if viol == "kind-as-string":
                kw["kind"] = "4"
            try:
                ev = Event(**kw)
                ev.sign(key.hex())
                d = ev.to_json_object()
            except Exception:
                continue
            if viol == "sig":
                d["sig"] = "00" * 64
            for st in stores:
                before = st.dump()
                res = st.add(dict(d))
                after = st.dump()
                payload = {"backend": st.backend, "violation": viol, "event": d}
                if viol in ("none", "delegated-none"):
                    if not res["ok"]:
                        report.property_failure("%s: a conforming event was refused: %s" % (st.backend, res["reason"]), payload, None)
                else:
                    if res["ok"] or res["broadcast"] or before != after:
                        report.property_failure("%s: an event violating %s was %s" % (
                            st.backend, viol, "acknowledged" if res["ok"] else "stored or broadcast"), payload, None)
                    elif not res["reason"]:
                        report.property_failure("%s: refusal without a reason" % st.backend, payload, None)
                report.count("pipeline_" + st.backend)
            report.case(("pipeline", viol, d["id"]), nontrivial=(viol not in ("none", "delegated-none")), sample={"violation": viol})
    finally:
        for st in stores:
            st.close()
        Config.max_event_size = 4096
        Config.oldest_event = 31536000


# ---- concurrent submissions ------------------------------------------------------------------------
#
# The property speaks of EVERY submitted event; a relay receives submissions from many connections at once and the chain runs
# in the loop's default executor (`get_validator`), so several validations really are in flight at the same time.  What a
# submission is owed must not depend on what else is in flight: each payload gets the verdict (and, when refused, the reason)
# that the configured chain gives to THAT payload.  The scenarios below submit groups of payloads from one event-loop turn
# (asyncio.gather, optionally staggered by a few loop turns) to the real add_event of both backends: the same event twice,
# different events (conforming and violating), and payloads that CLAIM the same id — a genuine event next to tampered copies
# of it (one field replaced, id / sig kept), in every order.  Nothing an event says about itself (its id included) is
# established before the chain has run on that very payload, so such groups are exactly where shared per-event state of the
# pipeline (caches, coalescing, memoised verdicts keyed by a submitted field) would show.

CONC_CHAIN = ["is_not_too_large", "is_recent", "is_certain_kind", "is_author_blacklisted", "is_not_hellthread", "is_signed"]
# the policy validators come first so that a payload that violates a policy is refused with that policy's reason: the reasons of
# the members of one group differ, and a reason that belongs to another member's payload is visible
CONC_KINDS = [1, 7, 20001]          # a regular kind, the reaction kind, an ephemeral kind (broadcast, never written on LMDB)
FORGERIES = ["content", "size", "kind", "kind-ephemeral", "old", "future", "pubkey", "hellthread"]
SIGNED_VIOLATIONS = ["size", "kind", "old", "future", "blacklist", "hellthread"]


def own_verdict(d, c):
    """what the configured chain owes to THIS payload, stated without the pipeline: the list of the policies of CONC_CHAIN
    it violates ([] = it must be admitted).  Signature / id by an independent NIP-01 computation (props.c03.facts_of)."""
    from props.c03 import facts_of, authentic

    e = types.SimpleNamespace(content=d["content"], created_at=d["created_at"], kind=d["kind"], pubkey=d["pubkey"],
                              tags=d["tags"], id=d["id"])
    bad = []
    for name in CONC_CHAIN:
        if name == "is_signed":
            f = facts_of(d)
            ok = authentic(f) and f["canonHex"]
        else:
            ok = spec(name, c, e)
        if not ok:
            bad.append(name)
    return bad


def _plain(d):
    """an event object as plain JSON data (the LMDB codec returns tags as tuples)"""
    import json

    return json.loads(json.dumps(d))


class ConcurrentRig:
    """per backend a store that receives each group concurrently and a reference store that receives the same payloads one
    after the other (the sequential behaviour, which is what the other scenarios of this file examine)"""

    def __init__(self):
        from nostr_relay.config import Config
        from nostr_relay import validators
        from aionostr.key import PrivateKey

        validators.time = lambda: NOW
        self.Config = Config
        self._saved = {k: getattr(Config, k, None) for k in
                       ("max_event_size", "oldest_event", "valid_kinds", "hellthread_limit", "pubkey_blacklist")}
        self.sk, self.sk2, self.bad = PrivateKey(b"\x05" * 32), PrivateKey(b"\x06" * 32), PrivateKey(b"\x02" * 32)
        self.c = types.SimpleNamespace(max_event_size=50, oldest_event=1000, valid_kinds=list(CONC_KINDS), hellthread_limit=3,
                                       pubkey_blacklist=[self.bad.public_key.hex()])
        for k, v in vars(self.c).items():
            setattr(Config, k, v)
        chain = ["nostr_relay.validators." + n for n in CONC_CHAIN]
        # SQLite on files: an in-memory SQLite database is ONE connection shared by every task (StaticPool), so two add_event
        # calls in flight would share one transaction — a property of that test set-up, not of the relay; a file gives each
        # add_event its own pooled connection, as a deployed relay has
        self.dir = common.scratch_dir("nrc16-")
        self.pairs = [(KVStore(validators=chain), KVStore(validators=chain)),
                      (SQLStore(validators=chain, url="sqlite+aiosqlite:///%s/main.sqlite3" % self.dir),
                       SQLStore(validators=chain, url="sqlite+aiosqlite:///%s/ref.sqlite3" % self.dir))]
        for main, _ in self.pairs:
            self._record_broadcasts(main)
        self.serial = 0
        self.diverged = set()

    @staticmethod
    def _record_broadcasts(st):
        st.seen = []
        orig = st.storage.notify_all_connected

        async def wrapped(event):
            st.seen.append(_plain(event.to_json_object()))
            return await orig(event)

        st.storage.notify_all_connected = wrapped

    def close(self):
        import shutil

        for pair in self.pairs:
            for st in pair:
                st.close()
        shutil.rmtree(self.dir, ignore_errors=True)
        for k, v in self._saved.items():
            setattr(self.Config, k, v)

    # -- payloads ------------------------------------------------------------------------------
    def signed(self, rng, violation=None, kind=None, key=None):
        """a genuinely signed event; `violation`: it violates that one policy (and is signed all the same)"""
        from aionostr.event import Event

        self.serial += 1
        key = key or (self.bad if violation == "blacklist" else rng.choice([self.sk, self.sk2]))
        kw = dict(pubkey=key.public_key.hex(), content="c%d" % self.serial, kind=kind or rng.choice(CONC_KINDS),
                  created_at=NOW - rng.randrange(100), tags=[["t", "n%d" % self.serial]])
        if violation == "size":
            kw["content"] = "x" * rng.choice([51, 52, 500, 5000])
        elif violation == "kind":
            kw["kind"] = rng.choice([4, 2, 20002])
        elif violation == "old":
            kw["created_at"] = NOW - 1001 - rng.randrange(1000)
        elif violation == "future":
            kw["created_at"] = NOW + 3601 + rng.randrange(1000)
        elif violation == "hellthread":
            kw["kind"] = rng.choice([1, 7])
            kw["tags"] = [["p", "%064x" % (i + 1)] for i in range(rng.choice([4, 5, 40]))]
        ev = Event(**kw)
        ev.sign(key.hex())
        return ev.to_json_object()

    def forged(self, rng, genuine, how):
        """a copy of a genuine event with one field replaced: it still claims the genuine event's id and signature"""
        d = {k: (list(v) if isinstance(v, list) else v) for k, v in genuine.items()}
        if how == "content":
            d["content"] = genuine["content"] + "!"
        elif how == "size":
            d["content"] = "x" * rng.choice([51, 500, 5000])
        elif how == "kind":
            d["kind"] = 4
        elif how == "kind-ephemeral":
            # an allowed kind all the same: only the signature check can tell
            d["kind"] = 20001 if genuine["kind"] != 20001 else 1
        elif how == "old":
            d["created_at"] = NOW - 1001 - rng.randrange(1000)
        elif how == "future":
            d["created_at"] = NOW + 3601 + rng.randrange(1000)
        elif how == "pubkey":
            d["pubkey"] = self.bad.public_key.hex()
        elif how == "hellthread":
            d["kind"] = genuine["kind"] if genuine["kind"] in (1, 7) else 1
            d["tags"] = [["p", "%064x" % (i + 1)] for i in range(4)]
        else:
            raise KeyError(how)
        return d

    # -- one group -----------------------------------------------------------------------------
    def group(self, report, shape, payloads, stagger=0, backends=None):
        """`payloads` submitted concurrently (member i starts after i*stagger turns of the loop) to the real add_event"""
        expect = [own_verdict(p, self.c) for p in payloads]
        for main, ref in self.pairs:
            if backends and main.backend not in backends:
                continue
            replay = {"concurrent": payloads, "stagger": stagger, "backend": main.backend, "shape": shape,
                      "validators": CONC_CHAIN, "config": vars(self.c), "clock": NOW}
            del main.seen[:]

            async def one(i, p):
                for _ in range(i * stagger):
                    await asyncio.sleep(0)
                return await main.storage.add_event(dict(p))

            async def go():
                return await asyncio.gather(*[one(i, p) for i, p in enumerate(payloads)], return_exceptions=True)

            results = main.run(go())
            main.quiesce()
            seq = [ref.add(dict(p)) for p in payloads]
            others = "%d other submission(s) in flight" % (len(payloads) - 1)
            for i, (p, res, want_bad, sq) in enumerate(zip(payloads, results, expect, seq)):
                refused = isinstance(res, BaseException)
                twins = sum(1 for j, q in enumerate(payloads) if j != i and q["id"] == p["id"] and q != p)
                ctx = "member %d of %d, %s%s" % (i + 1, len(payloads), others,
                                                 ", %d of them a different payload claiming the same id" % twins if twins else "")
                if not want_bad and refused:
                    report.property_failure("%s: an event that satisfies every configured validator was refused (%s: %s) when "
                                            "submitted concurrently [%s]" % (main.backend, type(res).__name__, res, ctx), replay, None)
                elif want_bad and not refused:
                    report.property_failure("%s: an event violating %s was %s when submitted concurrently [%s]"
                                            % (main.backend, "+".join(want_bad),
                                               "acknowledged" if res[1] else "answered as a duplicate instead of being refused", ctx),
                                            replay, None)
                elif refused and not str(res):
                    report.property_failure("%s: refusal without a reason [%s]" % (main.backend, ctx), replay, None)
                elif refused and not sq["ok"] and sq["exc"] and str(res) != sq["reason"]:
                    report.property_failure("%s: a violating event submitted concurrently was refused with %r; the same payload "
                                            "submitted alone is refused with %r (the verdict of another submission?) [%s]"
                                            % (main.backend, str(res), sq["reason"], ctx), replay, None)
                # the sequential reference itself, against the independent statement
                if bool(want_bad) != (not sq["ok"] and sq["exc"] is not None):
                    report.property_failure("%s: submitted alone, an event %s was %s" % (
                        main.backend, "violating " + "+".join(want_bad) if want_bad else "that satisfies every validator",
                        "refused: " + sq["reason"] if sq["exc"] else "admitted"), replay, None)
            admissible = [p for p, want_bad in zip(payloads, expect) if not want_bad]
            for b in main.seen:
                if b not in admissible:
                    report.property_failure("%s: a payload that the validators refuse (or never saw) was broadcast: id %s kind %r "
                                            "content length %d" % (main.backend, b["id"][:12], b["kind"], len(b["content"] or "")),
                                            replay, None)
                    break
            for idhex in sorted({p["id"] for p in payloads}):
                ev = main.get(idhex)
                if ev is not None and _plain(ev.to_json_object()) not in admissible:
                    report.property_failure("%s: stored under id %s is a payload that the validators refuse" % (main.backend, idhex[:12]),
                                            replay, None)
            # (the two stores accumulate: after a first difference every later comparison would repeat it)
            dm, dr = (main.dump(), ref.dump()) if main.backend not in self.diverged else (None, None)
            if dm != dr:
                self.diverged.add(main.backend)
                report.property_failure("%s: after the concurrent group the database differs from the one that received the same "
                                        "payloads one after the other (a refused event left a trace, or an admitted one is missing)"
                                        % main.backend, replay, None)
            report.count("concurrent_%s_%s" % (shape, main.backend))
        report.case(("concurrent", shape, stagger, tuple((p["id"], p["kind"], len(p["content"]), p["created_at"], p["pubkey"][:8],
                                                          len(p["tags"])) for p in payloads)),
                    nontrivial=any(expect), sample={"concurrent": shape, "members": len(payloads),
                                                    "owed": ["refuse" if b else "admit" for b in expect]})


def concurrent_cases(report, rng, tier):
    rig = ConcurrentRig()
    try:
        # directed: a genuine event and one tampered copy of it, both orders, every kind of tampering, regular and ephemeral kinds
        for kind in CONC_KINDS:
            for how in FORGERIES:
                g = rig.signed(rng, kind=kind)
                f = rig.forged(rng, g, how)
                rig.group(report, "genuine+copy", [g, f], stagger=0)
                g = rig.signed(rng, kind=kind)
                f = rig.forged(rng, g, how)
                rig.group(report, "copy+genuine", [f, g], stagger=0)
        # two tampered copies of an event that is itself never submitted: each is refused for its own reason
        for a, b in [("size", "kind"), ("old", "size"), ("hellthread", "future"), ("pubkey", "content")]:
            g = rig.signed(rng)
            rig.group(report, "two-copies", [rig.forged(rng, g, a), rig.forged(rng, g, b)])
        # the same payload twice (conforming, violating, tampered), and different events
        for kind in CONC_KINDS:
            g = rig.signed(rng, kind=kind)
            rig.group(report, "same-twice", [g, dict(g)])
        for v in SIGNED_VIOLATIONS:
            x = rig.signed(rng, violation=v)
            rig.group(report, "same-violating-twice", [x, dict(x)])
            rig.group(report, "different", [rig.signed(rng), rig.signed(rng, violation=v)])
            rig.group(report, "different", [rig.signed(rng, violation=v), rig.signed(rng)])
        # random groups of 2..3 (thorough: up to 6) around one or two genuine events, in random order, gathered in one turn or
        # staggered by a few turns of the loop
        for i in range(60 if tier == "quick" else 1500):
            n = rng.choice([2, 3, 3] if tier == "quick" else [2, 3, 3, 4, 5, 6])
            base = [rig.signed(rng), rig.signed(rng)]
            members = []
            for _ in range(n):
                g = rng.choice(base[:1] * 3 + base[1:])
                what = rng.choice(["genuine", "genuine", "copy", "copy", "copy", "violating", "fresh"])
                if what == "genuine":
                    members.append(dict(g))
                elif what == "copy":
                    members.append(rig.forged(rng, g, rng.choice(FORGERIES)))
                elif what == "violating":
                    members.append(rig.signed(rng, violation=rng.choice(SIGNED_VIOLATIONS)))
                else:
                    members.append(rig.signed(rng))
            rig.group(report, "random", members, stagger=rng.choice([0, 0, 1, 3]))
    finally:
        rig.close()


# ---- dynamic lists ---------------------------------------------------------------------------------

class ProbedSet(set):
    """a set that lets a probe look at the shared state before and after every mutating call"""
    probe = None
    log = None

    def _wrap(name):
        def f(self, *a):
            if ProbedSet.log is not None:
                if a and isinstance(a[0], (bytes, bytearray)):
                    arg = [bytes(a[0]).hex()]
                elif a:
                    arg = sorted(bytes(x).hex() for x in a[0])
                else:
                    arg = None
                ProbedSet.log.append((self.label, name, arg))
            if ProbedSet.probe:
                ProbedSet.probe("before-" + name)
            r = getattr(set, name)(self, *a)
            if ProbedSet.probe:
                ProbedSet.probe("after-" + name)
            return r
        return f
    clear = _wrap("clear")
    update = _wrap("update")
    intersection_update = _wrap("intersection_update")
    difference_update = _wrap("difference_update")
    add = _wrap("add")
    discard = _wrap("discard")


class FakeEvent:
    def __init__(self, ptags):
        self.tags = [["p", p] for p in ptags] + [["t", "x"]]


def dynamic_case(report, drv, rng, allow_old, allow_new, deny_new, whitelist, outsider):
    from nostr_relay import dynamic_lists as dl
    from nostr_relay.config import Config
    from nostr_relay.errors import StorageError

    loop = asyncio.get_event_loop()
    allowed, denied = ProbedSet(bytes.fromhex(p) for p in allow_old), ProbedSet()
    allowed.label, denied.label = "allow", "deny"
    dl.ALLOWED_PUBKEYS, dl.DENIED_PUBKEYS = allowed, denied
    observed = []
    enforced_before = bool(allow_old)

    def verdict():
        try:
            dl.is_pubkey_allowed(mk_ev(pubkey=outsider), Config)
            return "admitted"
        except StorageError:
            return "refused"

    def probe(where):
        observed.append((where, verdict(), len(dl.ALLOWED_PUBKEYS)))

    class _Storage:
        def run_single_query(self, queries):
            async def gen():
                src = allow_new if queries == ["ALLOW"] else deny_new
                for chunk in src:
                    await asyncio.sleep(0)
                    probe("during-query")
                    yield FakeEvent(chunk)
            return gen()

    dl.get_storage = lambda: _Storage()
    Config.dynamic_lists = {"allow_list_queries": ["ALLOW"], "deny_list_queries": ["DENY"] if deny_new is not None else []}
    Config.pubkey_whitelist = list(whitelist)
    Config.service_privatekey = None
    builder = dl.ListBuilder()
    ProbedSet.probe, ProbedSet.log = probe, []
    try:
        loop.run_until_complete(builder.run_once())
    finally:
        ProbedSet.probe = None
    ops = [o for o in ProbedSet.log if o[0] == "allow"]
    ProbedSet.log = None
    payload = {"allow_old": allow_old, "allow_new": allow_new, "deny_new": deny_new, "whitelist": whitelist, "outsider": outsider}
    new_keys = {p for chunk in allow_new for p in chunk}
    # "exactly the p-tagged pubkeys of the configured queries plus the static whitelist"
    expect_final = new_keys | set(whitelist)
    # never an empty window for an enforced list that stays enforced
    if enforced_before and expect_final and outsider not in expect_final:
        bad = [o for o in observed if o[1] == "admitted"]
        if bad:
            report.property_failure("during the refresh of an enforced allow list an outsider was admitted at %s (list size %d)"
                                    % (bad[0][0], bad[0][2]), payload, None)
    final = {x.hex() for x in dl.ALLOWED_PUBKEYS}
    if final != expect_final:
        report.property_failure("after the refresh the allow list holds %s, expected the queries' pubkeys plus the static whitelist (%d keys)%s"
                                % (sorted(x[:6] for x in final), len(expect_final),
                                   "; the configured queries matched nothing" if not new_keys else ""), payload, None)
    # correspondence: the atomic operations on the allow list and the states between them
    model_ops = [{"op": {"clear": "clear", "update": "update", "add": "update", "intersection_update": "isect"}.get(o[1], o[1]),
                  "s": o[2] or []} for o in ops]
    states = drv.call({"op": "adm.observable", "cur": sorted(allow_old), "ops": model_ops})
    if sorted(states[-1]) != sorted(final):
        report.correspondence_break("dynamic_lists.ListBuilder.run_once", payload, sorted(final), states[-1])
    if any(o[1] not in ("clear", "update", "intersection_update") for o in ops):
        report.correspondence_break("dynamic_lists.ListBuilder.run_once (unexpected set operation)", payload, ops, None)
    if [] in states[1:-1] and enforced_before and new_keys:
        report.property_failure("the refresh passes through the empty list (operations %r)" % [o[1] for o in ops], payload, None)
    report.case(("dynamic", repr(payload)), nontrivial=enforced_before, sample={"ops": [o[1] for o in ops], "final": len(final)})
    report.count("dynamic_refreshes")


def run(report, tier, seed):
    rng = random.Random(seed)
    drv = common.Driver()
    loop = asyncio.new_event_loop()
    asyncio.set_event_loop(loop)
    report.coverage["rule"] = (
        "every validator at bound-1/bound/bound+1 and beyond (content length, age both ways, kinds, lists, PoW bits, p-tag "
        "count for kinds 1/7/other with limit 0/3, service kind) under an injected clock; the dynamic allow / deny validator over every "
        "pair of subsets of three keys (overlapping lists included) x author; the real pipeline of six "
        "validators through add_event on both backends with one or two violated policies; groups of 2..3 (thorough: ..6) "
        "submissions gathered in one event-loop turn (or staggered by a few turns) on both backends — a genuine event next to "
        "tampered copies that claim its id (every kind of tampering, both orders, regular and ephemeral kinds), the same payload "
        "twice, different conforming / violating events — each member owed the verdict and reason of its own payload, compared "
        "with an independent statement and with a reference store that receives the same payloads sequentially; dynamic list refreshes with an "
        "instrumented set (probe before/after every set operation and at every await of the query loop), old list empty / "
        "non-empty, new result empty / several chunks, static whitelist on/off, deny list on/off")
    report.assumptions += ["GIL-level atomicity of a single set method is trusted (the probe looks between methods)",
                           "clock: validators.time replaced by a constant"]
    try:
        for e in report.known:
            r = common.load_finding_replay(e)
            if "allow_old" in r:
                dynamic_case(report, drv, rng, r["allow_old"], r["allow_new"], r["deny_new"], r["whitelist"], r["outsider"])
        validator_cases(report, drv)
        dynamic_verdict_cases(report, drv)
        pipeline_cases(report, rng, tier)
        concurrent_cases(report, rng, tier)
        keys = [("%02x" % i) * 32 for i in range(1, 9)]
        for i in range(60 if tier == "quick" else 1500):
            old = rng.sample(keys, rng.choice([0, 1, 2, 3]))
            n_chunks = rng.choice([0, 1, 1, 2, 3])
            new = [rng.sample(keys, rng.choice([1, 2])) for _ in range(n_chunks)]
            deny = None if rng.random() < 0.5 else [rng.sample(keys, 1)]
            wl = [] if rng.random() < 0.5 else [keys[7]]
            outsider = "ee" * 32
            dynamic_case(report, drv, rng, old, new, deny, wl, outsider)
    finally:
        drv.close()


def replay(report, path):
    import json

    data = json.load(open(path))
    drv = common.Driver()
    loop = asyncio.new_event_loop()
    asyncio.set_event_loop(loop)
    rng = random.Random(0)
    try:
        for it in (data.get("violations") or []) + (data.get("correspondence_breaks") or []):
            r = it.get("replay") or it.get("input")
            if "allow_old" in r:
                dynamic_case(report, drv, rng, r["allow_old"], r["allow_new"], r["deny_new"], r["whitelist"], r["outsider"])
            elif "concurrent" in r:
                rig = ConcurrentRig()
                try:
                    rig.group(report, r.get("shape", "replay"), r["concurrent"], stagger=r.get("stagger", 0), backends=[r["backend"]])
                finally:
                    rig.close()
            else:
                validator_cases(report, drv)
    finally:
        drv.close()
