"""
C16 — configured admission policies are applied to every event, fail-closed.
Tie: each real validator function at bound-1 / bound / bound+1 (injected clock) vs the Lean decision
functions; the real pipeline (`get_validator`) through add_event on both backends; the real
ListBuilder.run_once with an instrumented set swapped in for the module-global lists, compared with the
Lean sequence of atomic set operations.
Search: decisions against an independent statement of each documented bound; a refused event leaves no
trace (not stored, not broadcast) and carries a reason; during a refresh of an enforced allow list a
concurrent reader never sees it empty; after the refresh the lists hold exactly the expected keys.
"""
import asyncio
import random
import types

from lib import common
from lib.hist import KVStore, SQLStore

THEOREMS_TIED = ["C16_size_iff", "C16_recent_iff", "C16_kind_iff", "C16_whitelist_iff", "C16_blacklist_iff", "C16_pow_iff",
                 "C16_hellthread_iff", "C16_service_iff", "C16_dynamic_iff", "C16_pipeline", "C16_refresh_never_empty",
                 "C16_refresh_result"]

NOW = 1700000000
A, B, C = "aa" * 32, "bb" * 32, "cc" * 32


def mk_ev(content_len=10, created_at=NOW, kind=1, pubkey=A, id_bits=200, p_tags=0, delegator=None):
    """a real Event object (the class the validators receive in the relay), with every field an event has; `delegator`:
    the event also carries a NIP-26 delegation tag naming that key (whether the tag verifies is is_signed's business; the
    policy validators decide on the event's own pubkey)"""
    from aionostr.event import Event

    idint = (1 << (id_bits - 1)) | 1 if id_bits > 0 else 0
    tags = [["p", "00" * 32]] * p_tags + [["t", "x"]]
    if delegator is not None:
        tags.append(["delegation", delegator, "kind=%d" % kind, "00" * 64])
    return Event(content="x" * content_len, created_at=created_at, kind=kind, pubkey=pubkey, id="%064x" % idint,
                 tags=tags, sig="00" * 64)


def cfg(**kw):
    d = dict(max_event_size=50, oldest_event=1000, valid_kinds=[1, 7], pubkey_whitelist=[A], pubkey_blacklist=[B],
             require_pow=8, hellthread_limit=3, service_pubkey=C)
    d.update(kw)
    return types.SimpleNamespace(**d)


def spec(name, c, e):
    """the documented bounds, stated independently; True = admitted"""
    if name == "is_not_too_large":
        return len(e.content) <= c.max_event_size
    if name == "is_recent":
        return (NOW - e.created_at) <= c.oldest_event and (NOW - e.created_at) >= -3600
    if name == "is_certain_kind":
        return e.kind in c.valid_kinds
    if name == "is_author_whitelisted":
        # fail-closed: an enabled whitelist that is empty or unset admits nobody
        return c.pubkey_whitelist is not None and e.pubkey in c.pubkey_whitelist
    if name == "is_author_blacklisted":
        return c.pubkey_blacklist is not None and e.pubkey not in c.pubkey_blacklist
    if name == "is_pow":
        n = int(e.id, 16)
        zeros = 256 - n.bit_length()
        return zeros >= c.require_pow
    if name == "is_not_hellthread":
        if not c.hellthread_limit or e.kind not in (1, 7):
            return True
        return sum(1 for t in e.tags if t[0] == "p") <= c.hellthread_limit
    if name == "is_service_event":
        return not (e.kind == 31494 and e.pubkey != c.service_pubkey)
    raise KeyError(name)


def bound_cases():
    out = []
    for n in (0, 49, 50, 51, 1000):
        out.append(("is_not_too_large", cfg(), mk_ev(content_len=n)))
    for d in (-3602, -3601, -3600, -3599, 0, 999, 1000, 1001, 100000):
        out.append(("is_recent", cfg(), mk_ev(created_at=NOW - d)))
    for k in (0, 1, 2, 7, 8, 30000):
        out.append(("is_certain_kind", cfg(), mk_ev(kind=k)))
    for pk in (A, B, C, "aa" * 31 + "ab"):
        out.append(("is_author_whitelisted", cfg(), mk_ev(pubkey=pk)))
        out.append(("is_author_blacklisted", cfg(), mk_ev(pubkey=pk)))
        # the validator is configured but its list is empty / not set at all
        for wl in ([], None, (), [pk], [B, pk]):
            out.append(("is_author_whitelisted", cfg(pubkey_whitelist=wl), mk_ev(pubkey=pk)))
        for bl in ([], None, [pk]):
            out.append(("is_author_blacklisted", cfg(pubkey_blacklist=bl), mk_ev(pubkey=pk)))
        # events published under a NIP-26 delegation: the lists are about the event's own pubkey, whoever delegated
        for dg in (A, B, C):
            out.append(("is_author_whitelisted", cfg(), mk_ev(pubkey=pk, delegator=dg)))
            out.append(("is_author_blacklisted", cfg(), mk_ev(pubkey=pk, delegator=dg)))
    for bits in (256, 249, 248, 247, 200, 1, 0):
        for req in (0, 8, 9):
            out.append(("is_pow", cfg(require_pow=req), mk_ev(id_bits=bits)))
    for k in (1, 7, 4):
        for n in (0, 2, 3, 4, 10):
            for lim in (0, 3):
                out.append(("is_not_hellthread", cfg(hellthread_limit=lim), mk_ev(kind=k, p_tags=n)))
    for k in (31494, 31493, 1):
        for pk in (C, A):
            out.append(("is_service_event", cfg(), mk_ev(kind=k, pubkey=pk)))
    return out


def model_cfg(c):
    return {"max_event_size": c.max_event_size, "oldest_event": c.oldest_event, "valid_kinds": list(c.valid_kinds),
            "whitelist": None if c.pubkey_whitelist is None else list(c.pubkey_whitelist),
            "blacklist": None if c.pubkey_blacklist is None else list(c.pubkey_blacklist), "require_pow": c.require_pow,
            "hellthread_limit": c.hellthread_limit or 0, "service_pubkey": c.service_pubkey}


def model_ev(e):
    return {"pubkey": e.pubkey, "kind": e.kind, "created_at": e.created_at, "content_len": len(e.content),
            "id_bit_length": int(e.id, 16).bit_length(), "p_tags": sum(1 for t in e.tags if t[0] == "p")}


def validator_cases(report, drv):
    from nostr_relay import validators
    from nostr_relay.errors import StorageError

    validators.time = lambda: NOW
    for name, c, e in bound_cases():
        fn = getattr(validators, name)
        try:
            fn(e, c)
            v = "ok"
        except StorageError as ex:
            v = "reject"
            if not str(ex):
                report.property_failure("%s refuses without a reason" % name, {"validator": name}, None)
        except Exception:
            v = "raises"
        mv = drv.call({"op": "adm.validator", "name": name, "cfg": model_cfg(c), "ev": model_ev(e), "now": NOW})
        payload = {"validator": name, "cfg": vars(c), "ev": model_ev(e),
                   "delegator": next((t[1] for t in e.tags if t[0] == "delegation"), None)}
        if mv != v:
            report.correspondence_break("validators.%s" % name, payload, v, mv)
        if (v == "ok") != spec(name, c, e):
            report.property_failure("%s decides %s at %r, the documented bound says %s"
                                    % (name, v, model_ev(e), "admit" if spec(name, c, e) else "refuse"), payload, None)
        report.case((name, repr(vars(c)), repr(model_ev(e)), payload["delegator"]), nontrivial=True, sample={"validator": name, "verdict": v})
        report.count("validator_" + name)


def dynamic_verdict_cases(report, drv):
    """dynamic_lists.is_pubkey_allowed over every combination of allow list x deny list x author, overlapping lists included:
    admitted iff (no allow list in force or on it) and not on the deny list"""
    import itertools
    from nostr_relay import dynamic_lists as dl
    from nostr_relay.config import Config
    from nostr_relay.errors import StorageError

    keys = [A, B, C]
    subsets = [list(x) for n in range(0, 4) for x in itertools.combinations(keys, n)]
    old = (dl.ALLOWED_PUBKEYS, dl.DENIED_PUBKEYS)
    try:
        for allowed in subsets:
            for denied in subsets:
                for pk, dg in [(k, None) for k in keys] + [(k, d) for k in keys for d in keys if d != k]:
                    dl.ALLOWED_PUBKEYS = {bytes.fromhex(x) for x in allowed}
                    dl.DENIED_PUBKEYS = {bytes.fromhex(x) for x in denied}
                    try:
                        dl.is_pubkey_allowed(mk_ev(pubkey=pk, delegator=dg), Config)
                        v = "ok"
                    except StorageError as ex:
                        v = "reject"
                        if not str(ex):
                            report.property_failure("is_pubkey_allowed refuses without a reason", {"validator": "is_pubkey_allowed"}, None)
                    except Exception:
                        v = "raises"
                    payload = {"validator": "is_pubkey_allowed", "allowed": allowed, "denied": denied, "pubkey": pk, "delegator": dg}
                    mv = drv.call({"op": "adm.validator", "name": "is_pubkey_allowed", "cfg": model_cfg(cfg()), "ev": model_ev(mk_ev(pubkey=pk)),
                                   "now": NOW, "allowed": allowed, "denied": denied})
                    if mv != v:
                        report.correspondence_break("dynamic_lists.is_pubkey_allowed", payload, v, mv)
                    want = (not allowed or pk in allowed) and pk not in denied
                    if (v == "ok") != want:
                        report.property_failure(
                            "is_pubkey_allowed %s an author who is %s the allow list (%d keys) and %s the deny list (%d keys)"
                            % ("admits" if v == "ok" else "refuses", "on" if pk in allowed else "not on", len(allowed),
                               "on" if pk in denied else "not on", len(denied))
                            + (" [the event carries a delegation tag of a key that is %s the allow list and %s the deny list]"
                               % ("on" if dg in allowed else "not on", "on" if dg in denied else "not on") if dg else ""), payload, None)
                    report.case(("is_pubkey_allowed", repr(allowed), repr(denied), pk, dg), nontrivial=bool(allowed or denied),
                                sample={"validator": "is_pubkey_allowed", "verdict": v})
                    report.count("validator_is_pubkey_allowed")
    finally:
        dl.ALLOWED_PUBKEYS, dl.DENIED_PUBKEYS = old


def pipeline_cases(report, rng, tier):
    """the real pipeline through add_event: a violating event is refused, with a reason, without trace"""
    from nostr_relay.config import Config
    from nostr_relay import validators
    from aionostr.key import PrivateKey

    validators.time = lambda: NOW
    names = ["is_signed", "is_not_too_large", "is_recent", "is_certain_kind", "is_author_blacklisted", "is_not_hellthread"]
    Config.max_event_size = 50
    Config.oldest_event = 1000
    Config.valid_kinds = [1, 7]
    Config.hellthread_limit = 3
    sk, bad = PrivateKey(b"\x01" * 32), PrivateKey(b"\x02" * 32)
    Config.pubkey_blacklist = [bad.public_key.hex()]
    stores = [KVStore(validators=["nostr_relay.validators." + n for n in names]),
              SQLStore(validators=["nostr_relay.validators." + n for n in names])]
    from aionostr.event import Event
    try:
        for i in range(40 if tier == "quick" else 600):
            viol = rng.choice(["none", "none", "size", "old", "future", "kind", "blacklist", "hellthread", "sig", "two",
                               # a denied key publishing under a (genuine) NIP-26 delegation issued by a key that is not denied
                               "blacklist-delegated", "delegated-none",
                               # validly signed events with a field of the wrong JSON type that violate a policy — or on which a
                               # policy cannot even be evaluated: never admitted
                               "old-as-string", "content-null-oversize", "kind-as-string"])
            key = bad if viol in ("blacklist", "blacklist-delegated") else sk
            kw = dict(pubkey=key.public_key.hex(), content="ok %d" % i, kind=1, created_at=NOW - rng.randrange(100), tags=[])
            if viol in ("blacklist-delegated", "delegated-none"):
                import hashlib
                from coincurve import PrivateKey as CPrivateKey

                dk = CPrivateKey(b"\x03" * 32 if viol == "blacklist-delegated" else b"\x04" * 32)
                to_sign = ":".join(["nostr", "delegation", kw["pubkey"], "kind=1"]).encode("utf8")
                kw["tags"] = [["delegation", dk.public_key_xonly.format().hex(), "kind=1",
                               dk.sign_schnorr(hashlib.sha256(to_sign).digest(), None).hex()]]
            if viol in ("size", "two"):
                kw["content"] = "x" * 51
            if viol == "old":
                kw["created_at"] = NOW - 1001
            if viol == "future":
                kw["created_at"] = NOW + 3601
            if viol in ("kind", "two"):
                kw["kind"] = 4
            if viol == "hellthread":
                kw["tags"] = [["p", "00" * 32]] * 4
            if viol == "old-as-string":
                kw["created_at"] = str(NOW - 500000)
            if viol == "content-null-oversize":
                kw["content"] = None
            if viol == "kind-as-string":
                kw["kind"] = "4"
            try:
                ev = Event(**kw)
                ev.sign(key.hex())
                d = ev.to_json_object()
            except Exception:
                continue
            if viol == "sig":
                d["sig"] = "00" * 64
            for st in stores:
                before = st.dump()
                res = st.add(dict(d))
                after = st.dump()
                payload = {"backend": st.backend, "violation": viol, "event": d}
                if viol in ("none", "delegated-none"):
                    if not res["ok"]:
                        report.property_failure("%s: a conforming event was refused: %s" % (st.backend, res["reason"]), payload, None)
                else:
                    if res["ok"] or res["broadcast"] or before != after:
                        report.property_failure("%s: an event violating %s was %s" % (
                            st.backend, viol, "acknowledged" if res["ok"] else "stored or broadcast"), payload, None)
                    elif not res["reason"]:
                        report.property_failure("%s: refusal without a reason" % st.backend, payload, None)
                report.count("pipeline_" + st.backend)
            report.case(("pipeline", viol, d["id"]), nontrivial=(viol not in ("none", "delegated-none")), sample={"violation": viol})
    finally:
        for st in stores:
            st.close()
        Config.max_event_size = 4096
        Config.oldest_event = 31536000


# ---- dynamic lists ---------------------------------------------------------------------------------

class ProbedSet(set):
    """a set that lets a probe look at the shared state before and after every mutating call"""
    probe = None
    log = None

    def _wrap(name):
        def f(self, *a):
            if ProbedSet.log is not None:
                if a and isinstance(a[0], (bytes, bytearray)):
                    arg = [bytes(a[0]).hex()]
                elif a:
                    arg = sorted(bytes(x).hex() for x in a[0])
                else:
                    arg = None
                ProbedSet.log.append((self.label, name, arg))
            if ProbedSet.probe:
                ProbedSet.probe("before-" + name)
            r = getattr(set, name)(self, *a)
            if ProbedSet.probe:
                ProbedSet.probe("after-" + name)
            return r
        return f
    clear = _wrap("clear")
    update = _wrap("update")
    intersection_update = _wrap("intersection_update")
    difference_update = _wrap("difference_update")
    add = _wrap("add")
    discard = _wrap("discard")


class FakeEvent:
    def __init__(self, ptags):
        self.tags = [["p", p] for p in ptags] + [["t", "x"]]


def dynamic_case(report, drv, rng, allow_old, allow_new, deny_new, whitelist, outsider):
    from nostr_relay import dynamic_lists as dl
    from nostr_relay.config import Config
    from nostr_relay.errors import StorageError

    loop = asyncio.get_event_loop()
    allowed, denied = ProbedSet(bytes.fromhex(p) for p in allow_old), ProbedSet()
    allowed.label, denied.label = "allow", "deny"
    dl.ALLOWED_PUBKEYS, dl.DENIED_PUBKEYS = allowed, denied
    observed = []
    enforced_before = bool(allow_old)

    def verdict():
        try:
            dl.is_pubkey_allowed(mk_ev(pubkey=outsider), Config)
            return "admitted"
        except StorageError:
            return "refused"

    def probe(where):
        observed.append((where, verdict(), len(dl.ALLOWED_PUBKEYS)))

    class _Storage:
        def run_single_query(self, queries):
            async def gen():
                src = allow_new if queries == ["ALLOW"] else deny_new
                for chunk in src:
                    await asyncio.sleep(0)
                    probe("during-query")
                    yield FakeEvent(chunk)
            return gen()

    dl.get_storage = lambda: _Storage()
    Config.dynamic_lists = {"allow_list_queries": ["ALLOW"], "deny_list_queries": ["DENY"] if deny_new is not None else []}
    Config.pubkey_whitelist = list(whitelist)
    Config.service_privatekey = None
    builder = dl.ListBuilder()
    ProbedSet.probe, ProbedSet.log = probe, []
    try:
        loop.run_until_complete(builder.run_once())
    finally:
        ProbedSet.probe = None
    ops = [o for o in ProbedSet.log if o[0] == "allow"]
    ProbedSet.log = None
    payload = {"allow_old": allow_old, "allow_new": allow_new, "deny_new": deny_new, "whitelist": whitelist, "outsider": outsider}
    new_keys = {p for chunk in allow_new for p in chunk}
    # "exactly the p-tagged pubkeys of the configured queries plus the static whitelist"
    expect_final = new_keys | set(whitelist)
    # never an empty window for an enforced list that stays enforced
    if enforced_before and expect_final and outsider not in expect_final:
        bad = [o for o in observed if o[1] == "admitted"]
        if bad:
            report.property_failure("during the refresh of an enforced allow list an outsider was admitted at %s (list size %d)"
                                    % (bad[0][0], bad[0][2]), payload, None)
    final = {x.hex() for x in dl.ALLOWED_PUBKEYS}
    if final != expect_final:
        report.property_failure("after the refresh the allow list holds %s, expected the queries' pubkeys plus the static whitelist (%d keys)%s"
                                % (sorted(x[:6] for x in final), len(expect_final),
                                   "; the configured queries matched nothing" if not new_keys else ""), payload, None)
    # correspondence: the atomic operations on the allow list and the states between them
    model_ops = [{"op": {"clear": "clear", "update": "update", "add": "update", "intersection_update": "isect"}.get(o[1], o[1]),
                  "s": o[2] or []} for o in ops]
    states = drv.call({"op": "adm.observable", "cur": sorted(allow_old), "ops": model_ops})
    if sorted(states[-1]) != sorted(final):
        report.correspondence_break("dynamic_lists.ListBuilder.run_once", payload, sorted(final), states[-1])
    if any(o[1] not in ("clear", "update", "intersection_update") for o in ops):
        report.correspondence_break("dynamic_lists.ListBuilder.run_once (unexpected set operation)", payload, ops, None)
    if [] in states[1:-1] and enforced_before and new_keys:
        report.property_failure("the refresh passes through the empty list (operations %r)" % [o[1] for o in ops], payload, None)
    report.case(("dynamic", repr(payload)), nontrivial=enforced_before, sample={"ops": [o[1] for o in ops], "final": len(final)})
    report.count("dynamic_refreshes")


def run(report, tier, seed):
    rng = random.Random(seed)
    drv = common.Driver()
    loop = asyncio.new_event_loop()
    asyncio.set_event_loop(loop)
    report.coverage["rule"] = (
        "every validator at bound-1/bound/bound+1 and beyond (content length, age both ways, kinds, lists, PoW bits, p-tag "
        "count for kinds 1/7/other with limit 0/3, service kind) under an injected clock; the dynamic allow / deny validator over every "
        "pair of subsets of three keys (overlapping lists included) x author; the real pipeline of six "
        "validators through add_event on both backends with one or two violated policies; dynamic list refreshes with an "
        "instrumented set (probe before/after every set operation and at every await of the query loop), old list empty / "
        "non-empty, new result empty / several chunks, static whitelist on/off, deny list on/off")
    report.assumptions += ["GIL-level atomicity of a single set method is trusted (the probe looks between methods)",
                           "clock: validators.time replaced by a constant"]
    try:
        for e in report.known:
            r = common.load_finding_replay(e)
            if "allow_old" in r:
                dynamic_case(report, drv, rng, r["allow_old"], r["allow_new"], r["deny_new"], r["whitelist"], r["outsider"])
        validator_cases(report, drv)
        dynamic_verdict_cases(report, drv)
        pipeline_cases(report, rng, tier)
        keys = [("%02x" % i) * 32 for i in range(1, 9)]
        for i in range(60 if tier == "quick" else 1500):
            old = rng.sample(keys, rng.choice([0, 1, 2, 3]))
            n_chunks = rng.choice([0, 1, 1, 2, 3])
            new = [rng.sample(keys, rng.choice([1, 2])) for _ in range(n_chunks)]
            deny = None if rng.random() < 0.5 else [rng.sample(keys, 1)]
            wl = [] if rng.random() < 0.5 else [keys[7]]
            outsider = "ee" * 32
            dynamic_case(report, drv, rng, old, new, deny, wl, outsider)
    finally:
        drv.close()


def replay(report, path):
    import json

    data = json.load(open(path))
    drv = common.Driver()
    loop = asyncio.new_event_loop()
    asyncio.set_event_loop(loop)
    rng = random.Random(0)
    try:
        for it in (data.get("violations") or []) + (data.get("correspondence_breaks") or []):
            r = it.get("replay") or it.get("input")
            if "allow_old" in r:
                dynamic_case(report, drv, rng, r["allow_old"], r["allow_new"], r["deny_new"], r["whitelist"], r["outsider"])
            else:
                validator_cases(report, drv)
    finally:
        drv.close()
