"""
C16 — configured admission policies are applied to every event, fail-closed.
Tie: each real validator function at bound-1 / bound / bound+1 (injected clock) vs the Lean decision
functions; the real pipeline (`get_validator`) through add_event on both backends; the real
ListBuilder.run_once with an instrumented set swapped in for the module-global lists, compared with the
Lean sequence of atomic set operations.
Search: decisions against an independent statement of each documented bound; a refused event leaves no
trace (not stored, not broadcast) and carries a reason; submissions that are in flight at the same time (same id claimed by
different payloads included) each get the verdict of their own payload; during a refresh of an enforced allow list a
concurrent reader never sees it empty; after the refresh the lists hold exactly the expected keys — also after the 2nd .. 5th refresh of
ONE ListBuilder (as the relay's Periodic task runs it) while the query results change, with the instrumented set and with the real storage of
both backends (the lists are replaceable events, the verdicts those of add_event); a `validators` list with an
entry that names no validator (misspelt module, module whose import raises, missing attribute, non-callable, not a dotted path,
scalar for list) either keeps get_validator / the storage of both backends from being constructed or refuses every event.
"""
import asyncio
import random
import types

from lib import common
from lib.hist import KVStore, SQLStore

THEOREMS_TIED = ["C16_size_iff", "C16_recent_iff", "C16_kind_iff", "C16_whitelist_iff", "C16_blacklist_iff", "C16_pow_iff",
                 "C16_hellthread_iff", "C16_service_iff", "C16_dynamic_iff", "C16_pipeline", "C16_refresh_never_empty",
                 "C16_refresh_result", "C16_nip05_rejects_iff", "C16_nip05_unenforced_stays", "C16_nip05_never_shrinks",
                 "C16_nip05_adds_only_author", "C16_nip05_candidate_admitted", "C16_nip05_other_kinds_untouched",
                 "C16_config_fail_closed", "C16_config_unresolved_no_chain", "C16_config_all_ok"]

NOW = 1700000000
A, B, C = "aa" * 32, "bb" * 32, "cc" * 32


def mk_ev(content_len=10, created_at=NOW, kind=1, pubkey=A, id_bits=200, p_tags=0, delegator=None):
    """a real Event object (the class the validators receive in the relay), with every field an event has; `delegator`:
    the event also carries a NIP-26 delegation tag naming that key (whether the tag verifies is is_signed's business; the
    policy validators decide on the event's own pubkey)"""
    from aionostr.event import Event

    idint = (1 << (id_bits - 1)) | 1 if id_bits > 0 else 0
    tags = [["p", "00" * 32]] * p_tags + [["t", "x"]]
    if delegator is not None:
        tags.append(["delegation", delegator, "kind=%d" % kind, "00" * 64])
    return Event(content="x" * content_len, created_at=created_at, kind=kind, pubkey=pubkey, id="%064x" % idint,
                 tags=tags, sig="00" * 64)


def cfg(**kw):
    d = dict(max_event_size=50, oldest_event=1000, valid_kinds=[1, 7], pubkey_whitelist=[A], pubkey_blacklist=[B],
             require_pow=8, hellthread_limit=3, service_pubkey=C)
    d.update(kw)
    return types.SimpleNamespace(**d)


def spec(name, c, e):
    """the documented bounds, stated independently; True = admitted"""
    if name == "is_not_too_large":
        return len(e.content) <= c.max_event_size
    if name == "is_recent":
        return (NOW - e.created_at) <= c.oldest_event and (NOW - e.created_at) >= -3600
    if name == "is_certain_kind":
        return e.kind in c.valid_kinds
    if name == "is_author_whitelisted":
        # fail-closed: an enabled whitelist that is empty or unset admits nobody
        return c.pubkey_whitelist is not None and e.pubkey in c.pubkey_whitelist
    if name == "is_author_blacklisted":
        return c.pubkey_blacklist is not None and e.pubkey not in c.pubkey_blacklist
    if name == "is_pow":
        n = int(e.id, 16)
        zeros = 256 - n.bit_length()
        return zeros >= c.require_pow
    if name == "is_not_hellthread":
        if not c.hellthread_limit or e.kind not in (1, 7):
            return True
        return sum(1 for t in e.tags if t[0] == "p") <= c.hellthread_limit
    if name == "is_service_event":
        return not (e.kind == 31494 and e.pubkey != c.service_pubkey)
    raise KeyError(name)


def bound_cases():
    out = []
    for n in (0, 49, 50, 51, 1000):
        out.append(("is_not_too_large", cfg(), mk_ev(content_len=n)))
    for d in (-3602, -3601, -3600, -3599, 0, 999, 1000, 1001, 100000):
        out.append(("is_recent", cfg(), mk_ev(created_at=NOW - d)))
    for k in (0, 1, 2, 7, 8, 30000):
        out.append(("is_certain_kind", cfg(), mk_ev(kind=k)))
    for pk in (A, B, C, "aa" * 31 + "ab"):
        out.append(("is_author_whitelisted", cfg(), mk_ev(pubkey=pk)))
        out.append(("is_author_blacklisted", cfg(), mk_ev(pubkey=pk)))
        # the validator is configured but its list is empty / not set at all
        for wl in ([], None, (), [pk], [B, pk]):
            out.append(("is_author_whitelisted", cfg(pubkey_whitelist=wl), mk_ev(pubkey=pk)))
        for bl in ([], None, [pk]):
            out.append(("is_author_blacklisted", cfg(pubkey_blacklist=bl), mk_ev(pubkey=pk)))
        # events published under a NIP-26 delegation: the lists are about the event's own pubkey, whoever delegated
        for dg in (A, B, C):
            out.append(("is_author_whitelisted", cfg(), mk_ev(pubkey=pk, delegator=dg)))
            out.append(("is_author_blacklisted", cfg(), mk_ev(pubkey=pk, delegator=dg)))
    for bits in (256, 249, 248, 247, 200, 1, 0):
        for req in (0, 8, 9):
            out.append(("is_pow", cfg(require_pow=req), mk_ev(id_bits=bits)))
    for k in (1, 7, 4):
        for n in (0, 2, 3, 4, 10):
            for lim in (0, 3):
                out.append(("is_not_hellthread", cfg(hellthread_limit=lim), mk_ev(kind=k, p_tags=n)))
    for k in (31494, 31493, 1):
        for pk in (C, A):
            out.append(("is_service_event", cfg(), mk_ev(kind=k, pubkey=pk)))
    return out


def model_cfg(c):
    return {"max_event_size": c.max_event_size, "oldest_event": c.oldest_event, "valid_kinds": list(c.valid_kinds),
            "whitelist": None if c.pubkey_whitelist is None else list(c.pubkey_whitelist),
            "blacklist": None if c.pubkey_blacklist is None else list(c.pubkey_blacklist), "require_pow": c.require_pow,
            "hellthread_limit": c.hellthread_limit or 0, "service_pubkey": c.service_pubkey}


def model_ev(e):
    return {"pubkey": e.pubkey, "kind": e.kind, "created_at": e.created_at, "content_len": len(e.content),
            "id_bit_length": int(e.id, 16).bit_length(), "p_tags": sum(1 for t in e.tags if t[0] == "p")}


def validator_cases(report, drv):
    from nostr_relay import validators
    from nostr_relay.errors import StorageError

    validators.time = lambda: NOW
    for name, c, e in bound_cases():
        fn = getattr(validators, name)
        try:
            fn(e, c)
            v = "ok"
        except StorageError as ex:
            v = "reject"
            if not str(ex):
                report.property_failure("%s refuses without a reason" % name, {"validator": name}, None)
        except Exception:
            v = "raises"
        mv = drv.call({"op": "adm.validator", "name": name, "cfg": model_cfg(c), "ev": model_ev(e), "now": NOW})
        payload = {"validator": name, "cfg": vars(c), "ev": model_ev(e),
                   "delegator": next((t[1] for t in e.tags if t[0] == "delegation"), None)}
        if mv != v:
            report.correspondence_break("validators.%s" % name, payload, v, mv)
        if (v == "ok") != spec(name, c, e):
            report.property_failure("%s decides %s at %r, the documented bound says %s"
                                    % (name, v, model_ev(e), "admit" if spec(name, c, e) else "refuse"), payload, None)
        report.case((name, repr(vars(c)), repr(model_ev(e)), payload["delegator"]), nontrivial=True, sample={"validator": name, "verdict": v})
        report.count("validator_" + name)


def dynamic_verdict_cases(report, drv):
    """dynamic_lists.is_pubkey_allowed over every combination of allow list x deny list x author, overlapping lists included:
    admitted iff (no allow list in force or on it) and not on the deny list"""
    import itertools
    from nostr_relay import dynamic_lists as dl
    from nostr_relay.config import Config
    from nostr_relay.errors import StorageError

    keys = [A, B, C]
    subsets = [list(x) for n in range(0, 4) for x in itertools.combinations(keys, n)]
    old = (dl.ALLOWED_PUBKEYS, dl.DENIED_PUBKEYS)
    try:
        for allowed in subsets:
            for denied in subsets:
                for pk, dg in [(k, None) for k in keys] + [(k, d) for k in keys for d in keys if d != k]:
                    dl.ALLOWED_PUBKEYS = {bytes.fromhex(x) for x in allowed}
                    dl.DENIED_PUBKEYS = {bytes.fromhex(x) for x in denied}
                    try:
                        dl.is_pubkey_allowed(mk_ev(pubkey=pk, delegator=dg), Config)
                        v = "ok"
                    except StorageError as ex:
                        v = "reject"
                        if not str(ex):
                            report.property_failure("is_pubkey_allowed refuses without a reason", {"validator": "is_pubkey_allowed"}, None)
                    except Exception:
                        v = "raises"
                    payload = {"validator": "is_pubkey_allowed", "allowed": allowed, "denied": denied, "pubkey": pk, "delegator": dg}
                    mv = drv.call({"op": "adm.validator", "name": "is_pubkey_allowed", "cfg": model_cfg(cfg()), "ev": model_ev(mk_ev(pubkey=pk)),
                                   "now": NOW, "allowed": allowed, "denied": denied})
                    if mv != v:
                        report.correspondence_break("dynamic_lists.is_pubkey_allowed", payload, v, mv)
                    want = (not allowed or pk in allowed) and pk not in denied
                    if (v == "ok") != want:
                        report.property_failure(
                            "is_pubkey_allowed %s an author who is %s the allow list (%d keys) and %s the deny list (%d keys)"
                            % ("admits" if v == "ok" else "refuses", "on" if pk in allowed else "not on", len(allowed),
                               "on" if pk in denied else "not on", len(denied))
                            + (" [the event carries a delegation tag of a key that is %s the allow list and %s the deny list]"
                               % ("on" if dg in allowed else "not on", "on" if dg in denied else "not on") if dg else ""), payload, None)
                    report.case(("is_pubkey_allowed", repr(allowed), repr(denied), pk, dg), nontrivial=bool(allowed or denied),
                                sample={"validator": "is_pubkey_allowed", "verdict": v})
                    report.count("validator_is_pubkey_allowed")
    finally:
        dl.ALLOWED_PUBKEYS, dl.DENIED_PUBKEYS = old



# ---- the NIP-05 policy (verification.is_nip05_verified) -------------------------------------------------------------

NIP05_CONTENTS = ['{"name":"bob","nip05":"bob@example.com"}', '{"name":"bob"}', "", "nip05", "NIP05", "nip0", "xnip05x",
                  '{"name":"nip05 fan"}', '{"nip":"05"}', '{"nip05":null}', "nip 05", "nıp05", "\x00nip05", "nip05" * 3,
                  '{"about":"see nip-05"}', '{"nip05": "a@b", "nip05": "c@d"}']


def nip05_cases(report, drv, rng, tier):
    """verification.is_nip05_verified on status x kind x content x allow list (enforced / not, author on it / not): the verdict
    and the process-global allow set afterwards vs the Lean model; oracle from the documentation: refused exactly when verification is
    `enabled` and a kind-0 event does not mention nip05; an unenforced list is never switched on; an enforced list never shrinks; the only
    key ever added is the author's, and only for kind-0 metadata that mentions nip05"""
    try:
        from nostr_relay import verification as vf
    except Exception as e:                       # the optional dependency's stand-in is missing: nothing to tie
        report.count("nip05_module_not_importable")
        report.assumptions.append("nostr_relay.verification could not be imported (%s): the NIP-05 policy was not exercised" % type(e).__name__)
        return
    from nostr_relay import dynamic_lists as dl
    from nostr_relay.errors import VerificationError

    statuses = ["enabled", "passive", "disabled", None, "ENABLED", "", "on"]
    kinds = [0, 0, 0, 1, 3, 10002, 10001, 30000, 31494]
    lists = [[], [A], [B], [A, B], [C]]
    old = set(dl.ALLOWED_PUBKEYS)
    n = 0
    try:
        combos = [(st, k, c, al, pk) for st in statuses for k in kinds for c in NIP05_CONTENTS for al in lists for pk in (A, B)]
        rng.shuffle(combos)
        for st, k, content, al, pk in combos[:(900 if tier == "quick" else len(combos))]:
            dl.ALLOWED_PUBKEYS.clear()
            dl.ALLOWED_PUBKEYS.update(bytes.fromhex(x) for x in al)
            config = {"verification": {"nip05_verification": st}} if st is not None else (rng.choice([{}, {"verification": {}}]))
            ev = mk_ev(kind=k, pubkey=pk)
            ev.content = content
            try:
                vf.is_nip05_verified(ev, config)
                v = "ok"
            except VerificationError as ex:
                v = "reject"
                if not str(ex):
                    report.property_failure("is_nip05_verified refuses without a reason", {"validator": "is_nip05_verified"}, None)
            except Exception:
                v = "raises"
            after = sorted(x.hex() for x in dl.ALLOWED_PUBKEYS)
            payload = {"validator": "is_nip05_verified", "status": st, "kind": k, "content": content, "allowed": al, "pubkey": pk}
            m = drv.call({"op": "adm.nip05", "status": st or "", "kind": k, "content": content.encode("utf-8").hex(), "pubkey": pk,
                          "allowed": al})
            if m != {"verdict": v, "allowed": after}:
                report.correspondence_break("verification.is_nip05_verified", payload, {"verdict": v, "allowed": after}, m)
            mentions = "nip05" in content
            want_reject = st == "enabled" and k == 0 and not mentions
            want_after = sorted(set(al) | ({pk} if (st in ("enabled", "passive") and k == 0 and mentions and al) else set()))
            if (v == "reject") != want_reject or v == "raises":
                report.property_failure("is_nip05_verified %s a kind-%d event (content %r) under nip05_verification=%r"
                                        % ({"ok": "admits", "reject": "refuses", "raises": "raises on"}[v], k, content[:30], st), payload, None)
            if after != want_after:
                report.property_failure("is_nip05_verified left the allow list as %d key(s), expected %d (enforced lists never shrink, "
                                        "unenforced ones are never switched on, only a candidate's own key is added)"
                                        % (len(after), len(want_after)), payload, None)
            report.case(("nip05", st, k, content, tuple(al), pk), nontrivial=(st in ("enabled", "passive") and k == 0),
                        sample={"validator": "is_nip05_verified", "verdict": v})
            report.count("validator_is_nip05_verified")
            n += 1
    finally:
        dl.ALLOWED_PUBKEYS.clear()
        dl.ALLOWED_PUBKEYS.update(old)


def pipeline_cases(report, rng, tier):
    """the real pipeline through add_event: a violating event is refused, with a reason, without trace"""
    from nostr_relay.config import Config
    from nostr_relay import validators
    from aionostr.key import PrivateKey

    validators.time = lambda: NOW
    names = ["is_signed", "is_not_too_large", "is_recent", "is_certain_kind", "is_author_blacklisted", "is_not_hellthread"]
    Config.max_event_size = 50
    Config.oldest_event = 1000
    Config.valid_kinds = [1, 7]
    Config.hellthread_limit = 3
    sk, bad = PrivateKey(b"\x01" * 32), PrivateKey(b"\x02" * 32)
    Config.pubkey_blacklist = [bad.public_key.hex()]
    stores = [KVStore(validators=["nostr_relay.validators." + n for n in names]),
              SQLStore(validators=["nostr_relay.validators." + n for n in names])]
    from aionostr.event import Event
    try:
        for i in range(40 if tier == "quick" else 600):
            viol = rng.choice(["none", "none", "size", "old", "future", "kind", "blacklist", "hellthread", "sig", "two",
                               # a denied key publishing under a (genuine) NIP-26 delegation issued by a key that is not denied
                               "blacklist-delegated", "delegated-none",
                               # validly signed events with a field of the wrong JSON type that violate a policy — or on which a
                               # policy cannot even be evaluated: never admitted
                               "old-as-string", "content-null-oversize", "kind-as-string"])
            key = bad if viol in ("blacklist", "blacklist-delegated") else sk
            kw = dict(pubkey=key.public_key.hex(), content="ok %d" % i, kind=1, created_at=NOW - rng.randrange(100), tags=[])
            if viol in ("blacklist-delegated", "delegated-none"):
                import hashlib
                from coincurve import PrivateKey as CPrivateKey

                dk = CPrivateKey(b"\x03" * 32 if viol == "blacklist-delegated" else b"\x04" * 32)
                to_sign = ":".join(["nostr", "delegation", kw["pubkey"], "kind=1"]).encode("utf8")
                kw["tags"] = [["delegation", dk.public_key_xonly.format().hex(), "kind=1",
                               dk.sign_schnorr(hashlib.sha256(to_sign).digest(), None).hex()]]
            if viol in ("size", "two"):
                kw["content"] = "x" * 51
            if viol == "old":
                kw["created_at"] = NOW - 1001
            if viol == "future":
                kw["created_at"] = NOW + 3601
            if viol in ("kind", "two"):
                kw["kind"] = 4
            if viol == "hellthread":
                kw["tags"] = [["p", "00" * 32]] * 4
            if viol == "old-as-string":
                kw["created_at"] = str(NOW - 500000)
            if viol == "content-null-oversize":
                kw["content"] = None
            if viol == "kind-as-string":
                kw["kind"] = "4"
            try:
                ev = Event(**kw)
                ev.sign(key.hex())
                d = ev.to_json_object()
            except Exception:
                continue
            if viol == "sig":
                d["sig"] = "00" * 64
            for st in stores:
                before = st.dump()
                res = st.add(dict(d))
                after = st.dump()
                payload = {"backend": st.backend, "violation": viol, "event": d}
                if viol in ("none", "delegated-none"):
                    if not res["ok"]:
                        report.property_failure("%s: a conforming event was refused: %s" % (st.backend, res["reason"]), payload, None)
                else:
                    if res["ok"] or res["broadcast"] or before != after:
                        report.property_failure("%s: an event violating %s was %s" % (
                            st.backend, viol, "acknowledged" if res["ok"] else "stored or broadcast"), payload, None)
                    elif not res["reason"]:
                        report.property_failure("%s: refusal without a reason" % st.backend, payload, None)
                report.count("pipeline_" + st.backend)
            report.case(("pipeline", viol, d["id"]), nontrivial=(viol not in ("none", "delegated-none")), sample={"violation": viol})
    finally:
        for st in stores:
            st.close()
        Config.max_event_size = 4096
        Config.oldest_event = 31536000


# ---- concurrent submissions ------------------------------------------------------------------------
#
# The property speaks of EVERY submitted event; a relay receives submissions from many connections at once and the chain runs
# in the loop's default executor (`get_validator`), so several validations really are in flight at the same time.  What a
# submission is owed must not depend on what else is in flight: each payload gets the verdict (and, when refused, the reason)
# that the configured chain gives to THAT payload.  The scenarios below submit groups of payloads from one event-loop turn
# (asyncio.gather, optionally staggered by a few loop turns) to the real add_event of both backends: the same event twice,
# different events (conforming and violating), and payloads that CLAIM the same id — a genuine event next to tampered copies
# of it (one field replaced, id / sig kept), in every order.  Nothing an event says about itself (its id included) is
# established before the chain has run on that very payload, so such groups are exactly where shared per-event state of the
# pipeline (caches, coalescing, memoised verdicts keyed by a submitted field) would show.

CONC_CHAIN = ["is_not_too_large", "is_recent", "is_certain_kind", "is_author_blacklisted", "is_not_hellthread", "is_signed"]
# the policy validators come first so that a payload that violates a policy is refused with that policy's reason: the reasons of
# the members of one group differ, and a reason that belongs to another member's payload is visible
CONC_KINDS = [1, 7, 20001]          # a regular kind, the reaction kind, an ephemeral kind (broadcast, never written on LMDB)
FORGERIES = ["content", "size", "kind", "kind-ephemeral", "old", "future", "pubkey", "hellthread"]
SIGNED_VIOLATIONS = ["size", "kind", "old", "future", "blacklist", "hellthread"]


def own_verdict(d, c):
    """what the configured chain owes to THIS payload, stated without the pipeline: the list of the policies of CONC_CHAIN
    it violates ([] = it must be admitted).  Signature / id by an independent NIP-01 computation (props.c03.facts_of)."""
    from props.c03 import facts_of, authentic

    e = types.SimpleNamespace(content=d["content"], created_at=d["created_at"], kind=d["kind"], pubkey=d["pubkey"],
                              tags=d["tags"], id=d["id"])
    bad = []
    for name in CONC_CHAIN:
        if name == "is_signed":
            f = facts_of(d)
            ok = authentic(f) and f["canonHex"]
        else:
            ok = spec(name, c, e)
        if not ok:
            bad.append(name)
    return bad


def _plain(d):
    """an event object as plain JSON data (the LMDB codec returns tags as tuples)"""
    import json

    return json.loads(json.dumps(d))


class ConcurrentRig:
    """per backend a store that receives each group concurrently and a reference store that receives the same payloads one
    after the other (the sequential behaviour, which is what the other scenarios of this file examine)"""

    def __init__(self):
        from nostr_relay.config import Config
        from nostr_relay import validators
        from aionostr.key import PrivateKey

        validators.time = lambda: NOW
        self.Config = Config
        self._saved = {k: getattr(Config, k, None) for k in
                       ("max_event_size", "oldest_event", "valid_kinds", "hellthread_limit", "pubkey_blacklist")}
        self.sk, self.sk2, self.bad = PrivateKey(b"\x05" * 32), PrivateKey(b"\x06" * 32), PrivateKey(b"\x02" * 32)
        self.c = types.SimpleNamespace(max_event_size=50, oldest_event=1000, valid_kinds=list(CONC_KINDS), hellthread_limit=3,
                                       pubkey_blacklist=[self.bad.public_key.hex()])
        for k, v in vars(self.c).items():
            setattr(Config, k, v)
        chain = ["nostr_relay.validators." + n for n in CONC_CHAIN]
        # SQLite on files: an in-memory SQLite database is ONE connection shared by every task (StaticPool), so two add_event
        # calls in flight would share one transaction — a property of that test set-up, not of the relay; a file gives each
        # add_event its own pooled connection, as a deployed relay has
        self.dir = common.scratch_dir("nrc16-")
        self.pairs = [(KVStore(validators=chain), KVStore(validators=chain)),
                      (SQLStore(validators=chain, url="sqlite+aiosqlite:///%s/main.sqlite3" % self.dir),
                       SQLStore(validators=chain, url="sqlite+aiosqlite:///%s/ref.sqlite3" % self.dir))]
        for main, _ in self.pairs:
            self._record_broadcasts(main)
        self.serial = 0
        self.diverged = set()

    @staticmethod
    def _record_broadcasts(st):
        st.seen = []
        orig = st.storage.notify_all_connected

        async def wrapped(event):
            st.seen.append(_plain(event.to_json_object()))
            return await orig(event)

        st.storage.notify_all_connected = wrapped

    def close(self):
        import shutil

        for pair in self.pairs:
            for st in pair:
                st.close()
        shutil.rmtree(self.dir, ignore_errors=True)
        for k, v in self._saved.items():
            setattr(self.Config, k, v)

    # -- payloads ------------------------------------------------------------------------------
    def signed(self, rng, violation=None, kind=None, key=None):
        """a genuinely signed event; `violation`: it violates that one policy (and is signed all the same)"""
        from aionostr.event import Event

        self.serial += 1
        key = key or (self.bad if violation == "blacklist" else rng.choice([self.sk, self.sk2]))
        kw = dict(pubkey=key.public_key.hex(), content="c%d" % self.serial, kind=kind or rng.choice(CONC_KINDS),
                  created_at=NOW - rng.randrange(100), tags=[["t", "n%d" % self.serial]])
        if violation == "size":
            kw["content"] = "x" * rng.choice([51, 52, 500, 5000])
        elif violation == "kind":
            kw["kind"] = rng.choice([4, 2, 20002])
        elif violation == "old":
            kw["created_at"] = NOW - 1001 - rng.randrange(1000)
        elif violation == "future":
            kw["created_at"] = NOW + 3601 + rng.randrange(1000)
        elif violation == "hellthread":
            kw["kind"] = rng.choice([1, 7])
            kw["tags"] = [["p", "%064x" % (i + 1)] for i in range(rng.choice([4, 5, 40]))]
        ev = Event(**kw)
        ev.sign(key.hex())
        return ev.to_json_object()

    def forged(self, rng, genuine, how):
        """a copy of a genuine event with one field replaced: it still claims the genuine event's id and signature"""
        d = {k: (list(v) if isinstance(v, list) else v) for k, v in genuine.items()}
        if how == "content":
            d["content"] = genuine["content"] + "!"
        elif how == "size":
            d["content"] = "x" * rng.choice([51, 500, 5000])
        elif how == "kind":
            d["kind"] = 4
        elif how == "kind-ephemeral":
            # an allowed kind all the same: only the signature check can tell
            d["kind"] = 20001 if genuine["kind"] != 20001 else 1
        elif how == "old":
            d["created_at"] = NOW - 1001 - rng.randrange(1000)
        elif how == "future":
            d["created_at"] = NOW + 3601 + rng.randrange(1000)
        elif how == "pubkey":
            d["pubkey"] = self.bad.public_key.hex()
        elif how == "hellthread":
            d["kind"] = genuine["kind"] if genuine["kind"] in (1, 7) else 1
            d["tags"] = [["p", "%064x" % (i + 1)] for i in range(4)]
        else:
            raise KeyError(how)
        return d

    # -- one group -----------------------------------------------------------------------------
    def group(self, report, shape, payloads, stagger=0, backends=None):
        """`payloads` submitted concurrently (member i starts after i*stagger turns of the loop) to the real add_event"""
        expect = [own_verdict(p, self.c) for p in payloads]
        for main, ref in self.pairs:
            if backends and main.backend not in backends:
                continue
            replay = {"concurrent": payloads, "stagger": stagger, "backend": main.backend, "shape": shape,
                      "validators": CONC_CHAIN, "config": vars(self.c), "clock": NOW}
            del main.seen[:]

            async def one(i, p):
                for _ in range(i * stagger):
                    await asyncio.sleep(0)
                return await main.storage.add_event(dict(p))

            async def go():
                return await asyncio.gather(*[one(i, p) for i, p in enumerate(payloads)], return_exceptions=True)

            results = main.run(go())
            main.quiesce()
            seq = [ref.add(dict(p)) for p in payloads]
            others = "%d other submission(s) in flight" % (len(payloads) - 1)
            for i, (p, res, want_bad, sq) in enumerate(zip(payloads, results, expect, seq)):
                refused = isinstance(res, BaseException)
                twins = sum(1 for j, q in enumerate(payloads) if j != i and q["id"] == p["id"] and q != p)
                ctx = "member %d of %d, %s%s" % (i + 1, len(payloads), others,
                                                 ", %d of them a different payload claiming the same id" % twins if twins else "")
                if not want_bad and refused:
                    report.property_failure("%s: an event that satisfies every configured validator was refused (%s: %s) when "
                                            "submitted concurrently [%s]" % (main.backend, type(res).__name__, res, ctx), replay, None)
                elif want_bad and not refused:
                    report.property_failure("%s: an event violating %s was %s when submitted concurrently [%s]"
                                            % (main.backend, "+".join(want_bad),
                                               "acknowledged" if res[1] else "answered as a duplicate instead of being refused", ctx),
                                            replay, None)
                elif refused and not str(res):
                    report.property_failure("%s: refusal without a reason [%s]" % (main.backend, ctx), replay, None)
                elif refused and not sq["ok"] and sq["exc"] and str(res) != sq["reason"]:
                    report.property_failure("%s: a violating event submitted concurrently was refused with %r; the same payload "
                                            "submitted alone is refused with %r (the verdict of another submission?) [%s]"
                                            % (main.backend, str(res), sq["reason"], ctx), replay, None)
                # the sequential reference itself, against the independent statement
                if bool(want_bad) != (not sq["ok"] and sq["exc"] is not None):
                    report.property_failure("%s: submitted alone, an event %s was %s" % (
                        main.backend, "violating " + "+".join(want_bad) if want_bad else "that satisfies every validator",
                        "refused: " + sq["reason"] if sq["exc"] else "admitted"), replay, None)
            admissible = [p for p, want_bad in zip(payloads, expect) if not want_bad]
            for b in main.seen:
                if b not in admissible:
                    report.property_failure("%s: a payload that the validators refuse (or never saw) was broadcast: id %s kind %r "
                                            "content length %d" % (main.backend, b["id"][:12], b["kind"], len(b["content"] or "")),
                                            replay, None)
                    break
            for idhex in sorted({p["id"] for p in payloads}):
                ev = main.get(idhex)
                if ev is not None and _plain(ev.to_json_object()) not in admissible:
                    report.property_failure("%s: stored under id %s is a payload that the validators refuse" % (main.backend, idhex[:12]),
                                            replay, None)
            # (the two stores accumulate: after a first difference every later comparison would repeat it)
            dm, dr = (main.dump(), ref.dump()) if main.backend not in self.diverged else (None, None)
            if dm != dr:
                self.diverged.add(main.backend)
                report.property_failure("%s: after the concurrent group the database differs from the one that received the same "
                                        "payloads one after the other (a refused event left a trace, or an admitted one is missing)"
                                        % main.backend, replay, None)
            report.count("concurrent_%s_%s" % (shape, main.backend))
        report.case(("concurrent", shape, stagger, tuple((p["id"], p["kind"], len(p["content"]), p["created_at"], p["pubkey"][:8],
                                                          len(p["tags"])) for p in payloads)),
                    nontrivial=any(expect), sample={"concurrent": shape, "members": len(payloads),
                                                    "owed": ["refuse" if b else "admit" for b in expect]})


def concurrent_cases(report, rng, tier):
    rig = ConcurrentRig()
    try:
        # directed: a genuine event and one tampered copy of it, both orders, every kind of tampering, regular and ephemeral kinds
        for kind in CONC_KINDS:
            for how in FORGERIES:
                g = rig.signed(rng, kind=kind)
                f = rig.forged(rng, g, how)
                rig.group(report, "genuine+copy", [g, f], stagger=0)
                g = rig.signed(rng, kind=kind)
                f = rig.forged(rng, g, how)
                rig.group(report, "copy+genuine", [f, g], stagger=0)
        # two tampered copies of an event that is itself never submitted: each is refused for its own reason
        for a, b in [("size", "kind"), ("old", "size"), ("hellthread", "future"), ("pubkey", "content")]:
            g = rig.signed(rng)
            rig.group(report, "two-copies", [rig.forged(rng, g, a), rig.forged(rng, g, b)])
        # the same payload twice (conforming, violating, tampered), and different events
        for kind in CONC_KINDS:
            g = rig.signed(rng, kind=kind)
            rig.group(report, "same-twice", [g, dict(g)])
        for v in SIGNED_VIOLATIONS:
            x = rig.signed(rng, violation=v)
            rig.group(report, "same-violating-twice", [x, dict(x)])
            rig.group(report, "different", [rig.signed(rng), rig.signed(rng, violation=v)])
            rig.group(report, "different", [rig.signed(rng, violation=v), rig.signed(rng)])
        # random groups of 2..3 (thorough: up to 6) around one or two genuine events, in random order, gathered in one turn or
        # staggered by a few turns of the loop
        for i in range(60 if tier == "quick" else 1500):
            n = rng.choice([2, 3, 3] if tier == "quick" else [2, 3, 3, 4, 5, 6])
            base = [rig.signed(rng), rig.signed(rng)]
            members = []
            for _ in range(n):
                g = rng.choice(base[:1] * 3 + base[1:])
                what = rng.choice(["genuine", "genuine", "copy", "copy", "copy", "violating", "fresh"])
                if what == "genuine":
                    members.append(dict(g))
                elif what == "copy":
                    members.append(rig.forged(rng, g, rng.choice(FORGERIES)))
                elif what == "violating":
                    members.append(rig.signed(rng, violation=rng.choice(SIGNED_VIOLATIONS)))
                else:
                    members.append(rig.signed(rng))
            rig.group(report, "random", members, stagger=rng.choice([0, 0, 1, 3]))
    finally:
        rig.close()


# ---- dynamic lists ---------------------------------------------------------------------------------

class ProbedSet(set):
    """a set that lets a probe look at the shared state before and after every mutating call"""
    probe = None
    log = None

    def _wrap(name):
        def f(self, *a):
            if ProbedSet.log is not None:
                if a and isinstance(a[0], (bytes, bytearray)):
                    arg = [bytes(a[0]).hex()]
                elif a:
                    # (the argument may be a one-shot iterable: materialise it once, for the log and for the real call alike)
                    a = (list(a[0]),) + tuple(a[1:])
                    arg = sorted(bytes(x).hex() for x in a[0])
                else:
                    arg = None
                ProbedSet.log.append((self.label, name, arg))
            if ProbedSet.probe:
                ProbedSet.probe("before-" + name)
            r = getattr(set, name)(self, *a)
            if ProbedSet.probe:
                ProbedSet.probe("after-" + name)
            return r
        return f
    clear = _wrap("clear")
    update = _wrap("update")
    intersection_update = _wrap("intersection_update")
    difference_update = _wrap("difference_update")
    add = _wrap("add")
    discard = _wrap("discard")


class FakeEvent:
    def __init__(self, ptags):
        self.tags = [["p", p] for p in ptags] + [["t", "x"]]


def dynamic_case(report, drv, rng, allow_old, allow_new, deny_new, whitelist, outsider):
    from nostr_relay import dynamic_lists as dl
    from nostr_relay.config import Config
    from nostr_relay.errors import StorageError

    loop = asyncio.get_event_loop()
    allowed, denied = ProbedSet(bytes.fromhex(p) for p in allow_old), ProbedSet()
    allowed.label, denied.label = "allow", "deny"
    dl.ALLOWED_PUBKEYS, dl.DENIED_PUBKEYS = allowed, denied
    observed = []
    enforced_before = bool(allow_old)

    def verdict():
        try:
            dl.is_pubkey_allowed(mk_ev(pubkey=outsider), Config)
            return "admitted"
        except StorageError:
            return "refused"

    def probe(where):
        observed.append((where, verdict(), len(dl.ALLOWED_PUBKEYS)))

    class _Storage:
        def run_single_query(self, queries):
            async def gen():
                src = allow_new if queries == ["ALLOW"] else deny_new
                for chunk in src:
                    await asyncio.sleep(0)
                    probe("during-query")
                    yield FakeEvent(chunk)
            return gen()

    dl.get_storage = lambda: _Storage()
    Config.dynamic_lists = {"allow_list_queries": ["ALLOW"], "deny_list_queries": ["DENY"] if deny_new is not None else []}
    Config.pubkey_whitelist = list(whitelist)
    Config.service_privatekey = None
    builder = dl.ListBuilder()
    ProbedSet.probe, ProbedSet.log = probe, []
    try:
        loop.run_until_complete(builder.run_once())
    finally:
        ProbedSet.probe = None
    ops = [o for o in ProbedSet.log if o[0] == "allow"]
    ProbedSet.log = None
    payload = {"allow_old": allow_old, "allow_new": allow_new, "deny_new": deny_new, "whitelist": whitelist, "outsider": outsider}
    new_keys = {p for chunk in allow_new for p in chunk}
    # "exactly the p-tagged pubkeys of the configured queries plus the static whitelist"
    expect_final = new_keys | set(whitelist)
    # never an empty window for an enforced list that stays enforced
    if enforced_before and expect_final and outsider not in expect_final:
        bad = [o for o in observed if o[1] == "admitted"]
        if bad:
            report.property_failure("during the refresh of an enforced allow list an outsider was admitted at %s (list size %d)"
                                    % (bad[0][0], bad[0][2]), payload, None)
    final = {x.hex() for x in dl.ALLOWED_PUBKEYS}
    if final != expect_final:
        report.property_failure("after the refresh the allow list holds %s, expected the queries' pubkeys plus the static whitelist (%d keys)%s"
                                % (sorted(x[:6] for x in final), len(expect_final),
                                   "; the configured queries matched nothing" if not new_keys else ""), payload, None)
    # correspondence: the atomic operations on the allow list and the states between them
    model_ops = [{"op": {"clear": "clear", "update": "update", "add": "update", "intersection_update": "isect"}.get(o[1], o[1]),
                  "s": o[2] or []} for o in ops]
    states = drv.call({"op": "adm.observable", "cur": sorted(allow_old), "ops": model_ops})
    if sorted(states[-1]) != sorted(final):
        report.correspondence_break("dynamic_lists.ListBuilder.run_once", payload, sorted(final), states[-1])
    if any(o[1] not in ("clear", "update", "intersection_update") for o in ops):
        report.correspondence_break("dynamic_lists.ListBuilder.run_once (unexpected set operation)", payload, ops, None)
    if [] in states[1:-1] and enforced_before and new_keys:
        report.property_failure("the refresh passes through the empty list (operations %r)" % [o[1] for o in ops], payload, None)
    report.case(("dynamic", repr(payload)), nontrivial=enforced_before, sample={"ops": [o[1] for o in ops], "final": len(final)})
    report.count("dynamic_refreshes")


# ---- the life of ONE ListBuilder: a sequence of refreshes ---------------------------------------------
#
# The relay constructs one ListBuilder when it starts and that object refreshes the lists for as long as the process lives
# (Periodic: run_once at start, then again after every check_interval).  "The dynamic lists contain exactly the p-tagged pubkeys
# of the configured queries plus the static whitelist" is a statement about the lists at any time, hence after EVERY refresh of
# that object and not only after the first one of a freshly built one: whatever the builder keeps between refreshes (what it
# prepared in __init__, what a previous refresh consumed, cached, accumulated or left behind) must not show in the lists.  The
# scenarios below therefore keep one builder and refresh it several times while the results of the configured queries change
# between the refreshes (matches, then nothing, then others, the same again, events without p tags), with the static
# whitelist and the service key configured or not, the deny queries configured or not.  After every refresh: both lists equal
# the expected sets, and for every key of the universe the real is_pubkey_allowed gives the verdict of the stated rule on those
# sets (an outsider is refused whenever the allow list is owed to be in force, a preconfigured key is admitted, a key that is no
# longer p-tagged is dropped).  During every refresh after the first (probes before / after each set operation and at every await
# of the query loop): if the list is in force before and after, the outsider is never admitted and a preconfigured key is never
# refused.  Two levels: an instrumented set with canned query results (many sequences; driven by calling run_once or by the
# builder's own Periodic task with a tiny interval, exactly as web.py starts it), and the real storage classes of both backends,
# where the lists are replaceable events published through add_event, is_pubkey_allowed is part of the chain and the verdicts are
# those of add_event (refused = a reason, nothing stored, nothing broadcast).
# Number of refreshes: state that wears out shows at the second or third refresh; sequences go to 5 (thorough: 12) on general
# grounds — long enough for "consumed once", "every other time" and "accumulates" alike, without being tuned to any of them.

def _xonly(sk_hex):
    """the x-only public key of a secret key, computed without the relay (nor the library it uses for it)"""
    from coincurve import PrivateKey as CPrivateKey

    return CPrivateKey(bytes.fromhex(sk_hex)).public_key_xonly.format().hex()


def _owed(pk, allow, deny):
    """the stated rule: admitted iff (no allow list in force or on it) and not on the deny list"""
    return (not allow or pk in allow) and pk not in deny


def _ptagged(chunks):
    return {p for chunk in chunks for p in chunk}


class _Once:
    """at most one failure of each kind per sequence (one broken refresh makes every later one fail in the same way), and one
    sequence per kind and level in the report: the report keeps 20 failing inputs for all scenarios of the property"""
    totals = {}

    def __init__(self, report, seq):
        self.report, self.seq, self.kinds = report, seq, set()

    def __call__(self, kind, what):
        if kind in self.kinds:
            return
        self.kinds.add(kind)
        self.report.count("refresh_sequence_failures")
        n = _Once.totals[(self.seq["level"], kind)] = _Once.totals.get((self.seq["level"], kind), 0) + 1
        if n <= 1:
            self.report.property_failure(what, {"refresh_sequence": self.seq}, None)


def _short(keys):
    return sorted(k[:6] for k in keys)


def refresh_sequence_case(report, drv, seq):
    """instrumented level.  seq: level, driver (run_once | periodic), whitelist, service_key (secret, hex) or None, deny (are deny
    queries configured), universe, outsider, rounds: [{allow: [[p, ...] per matching event], deny: [[...]]}]"""
    from nostr_relay import dynamic_lists as dl
    from nostr_relay.config import Config
    from nostr_relay.errors import StorageError

    rounds, deny_on = seq["rounds"], seq["deny"]
    static = set(seq["whitelist"]) | ({_xonly(seq["service_key"])} if seq["service_key"] else set())
    outsider = seq["outsider"]
    everyone = sorted(set(seq["universe"]) | static | {outsider})
    fail = _Once(report, seq)
    missing = object()
    saved = {k: vars(Config).get(k, missing) for k in ("dynamic_lists", "pubkey_whitelist", "service_privatekey")}
    saved_dl = (dl.ALLOWED_PUBKEYS, dl.DENIED_PUBKEYS, dl.get_storage)
    prev_loop = asyncio.get_event_loop()
    loop = asyncio.new_event_loop()
    asyncio.set_event_loop(loop)
    allowed, denied = ProbedSet(), ProbedSet()
    allowed.label, denied.label = "allow", "deny"
    dl.ALLOWED_PUBKEYS, dl.DENIED_PUBKEYS = allowed, denied
    state = {"k": 0, "judged": 0, "observed": [], "before": [], "E": (set(), set()), "done": None, "refreshes": 0}

    def verdict(pk):
        try:
            dl.is_pubkey_allowed(mk_ev(pubkey=pk), Config)
            return True
        except StorageError:
            return False

    def probe(where):
        state["observed"].append((where, verdict(outsider), {s: verdict(s) for s in static}, len(dl.ALLOWED_PUBKEYS)))

    def expected(k):
        r = rounds[k - 1]
        return _ptagged(r["allow"]) | static, (_ptagged(r["deny"]) if deny_on else set())

    def after_refresh(k):
        """the oracle; k = 1 .. len(rounds)"""
        if k <= state["judged"] or k > len(rounds):
            return
        state["judged"] = k
        (p_allow, p_deny), (e_allow, e_deny) = state["E"], expected(k)
        observed, state["observed"] = state["observed"], []
        ops, ProbedSet.log = [o for o in ProbedSet.log if o[0] == "allow"], []
        before = state["before"]
        got_allow, got_deny = {x.hex() for x in dl.ALLOWED_PUBKEYS}, {x.hex() for x in dl.DENIED_PUBKEYS}
        nth = "refresh %d of %d of one ListBuilder (%s)" % (k, len(rounds), seq["driver"])
        if got_allow != e_allow:
            fail("allow-list", "after %s the allow list holds %s; expected the p-tagged pubkeys of the allow queries (%d) plus the "
                 "preconfigured keys (%d whitelisted%s): %s" % (nth, _short(got_allow), len(_ptagged(rounds[k - 1]["allow"])),
                                                              len(seq["whitelist"]), " + the service key" if seq["service_key"] else "",
                                                              _short(e_allow)))
        if got_deny != e_deny:
            fail("deny-list", "after %s the deny list holds %s; expected the p-tagged pubkeys of the deny queries: %s"
                 % (nth, _short(got_deny), _short(e_deny)))
        for pk in everyone:
            v, want = verdict(pk), _owed(pk, e_allow, e_deny)
            if v != want:
                who = ("an outsider (on no list)" if pk == outsider else "a preconfigured key (static whitelist / service key)" if pk in static
                       else "a key p-tagged by the allow queries" if pk in e_allow else "a key the allow queries no longer p-tag")
                fail("verdict-" + who[:12], "after %s is_pubkey_allowed %s %s; the allow list is owed to hold %d key(s)%s, the deny list %d"
                     % (nth, "admits" if v else "refuses", who, len(e_allow), "" if e_allow else " (not in force)", len(e_deny)))
        if k >= 2 and p_allow and e_allow:
            # in force before and after: no window
            bad = [o for o in observed if o[1]]
            if bad:
                fail("window", "during %s an outsider was admitted at %s (allow list size %d): the list is in force before and after"
                     % (nth, bad[0][0], bad[0][3]))
            for s in sorted(static - p_deny - e_deny):
                bad = [o for o in observed if not o[2][s]]
                if bad:
                    fail("window-static", "during %s a preconfigured key was refused at %s (allow list size %d)" % (nth, bad[0][0], bad[0][3]))
                    break
        # correspondence: this refresh as a sequence of atomic operations on the allow list, from the state it started in
        model_ops = [{"op": {"clear": "clear", "update": "update", "add": "update", "intersection_update": "isect"}.get(o[1], o[1]),
                      "s": o[2] or []} for o in ops]
        if all(m["op"] in ("clear", "update", "isect") for m in model_ops):
            states = drv.call({"op": "adm.observable", "cur": sorted(before), "ops": model_ops})
            if sorted(states[-1]) != sorted(got_allow):
                report.correspondence_break("dynamic_lists.ListBuilder.run_once (refresh %d of one builder)" % k, {"refresh_sequence": seq},
                                            sorted(got_allow), states[-1])
        else:
            report.correspondence_break("dynamic_lists.ListBuilder.run_once (unexpected set operation)", {"refresh_sequence": seq}, ops, None)
        state["E"] = (e_allow, e_deny)
        state["before"] = sorted(got_allow)
        report.count("refresh_sequence_refreshes")
        report.count("refresh_sequence_allow_%s" % ("in_force" if e_allow else "not_in_force"))

    class _Storage:
        def run_single_query(self, queries):
            if queries == ["ALLOW"]:
                # a refresh begins (the allow queries come first); under the Periodic driver this is also the moment at which
                # the previous refresh is known to be complete
                after_refresh(state["k"])
                state["k"] += 1
                state["refreshes"] += 1
            k = state["k"]
            if k > len(rounds):
                if state["done"] is not None:
                    state["done"].set()
                ProbedSet.probe = None

                async def never():
                    await asyncio.Event().wait()
                    yield None
                return never()
            src = rounds[k - 1]["allow" if queries == ["ALLOW"] else "deny"]

            async def gen():
                for chunk in src:
                    await asyncio.sleep(0)
                    probe("during-query")
                    yield FakeEvent(chunk)
            return gen()

    try:
        dl.get_storage = lambda: _Storage()
        Config.dynamic_lists = {"allow_list_queries": ["ALLOW"], "deny_list_queries": ["DENY"] if deny_on else [],
                                "check_interval": 0.001 if seq["driver"] == "periodic" else 3600}
        Config.pubkey_whitelist = list(seq["whitelist"])
        Config.service_privatekey = seq["service_key"]
        builder = dl.ListBuilder()
        ProbedSet.probe, ProbedSet.log = probe, []

        async def by_run_once():
            for k in range(1, len(rounds) + 1):
                await builder.run_once()
                after_refresh(k)

        async def by_periodic():
            state["done"] = asyncio.Event()
            await builder.start()
            try:
                # (each refresh takes a few turns of the loop and 1 ms of waiting; the limit only bounds a builder that stopped refreshing)
                await asyncio.wait_for(state["done"].wait(), 20)
            except asyncio.TimeoutError:
                report.count("refresh_sequence_periodic_gave_up")
            finally:
                ProbedSet.probe = None
                await builder.stop()

        loop.run_until_complete(by_periodic() if seq["driver"] == "periodic" else by_run_once())
        if state["judged"] < len(rounds):
            fail("stopped", "the ListBuilder's periodic task completed %d refresh(es) of the %d awaited (check_interval 1 ms): the "
                 "lists are no longer refreshed" % (state["judged"], len(rounds)))
    finally:
        ProbedSet.probe, ProbedSet.log = None, None
        dl.ALLOWED_PUBKEYS, dl.DENIED_PUBKEYS, dl.get_storage = saved_dl
        for k, v in saved.items():
            if v is missing:
                vars(Config).pop(k, None)
            else:
                setattr(Config, k, v)
        loop.close()
        asyncio.set_event_loop(prev_loop)
    report.case(("refresh-sequence", repr(seq)), nontrivial=len(rounds) > 1,
                sample={"refresh_sequence": seq["driver"], "refreshes": len(rounds), "static_keys": len(static), "deny": deny_on})
    report.count("refresh_sequences_%s" % seq["driver"])


REFRESH_SHAPES = [["matches", "none", "others"], ["none", "none"], ["none", "matches", "none"], ["matches", "same", "same"],
                  ["matches", "no-p-tags", "overlap", "none", "others"], ["none", "none", "matches"]]


def _round_results(rng, shape, universe):
    """the results of one query over the refreshes of a sequence: per refresh a list of matching events, each a list of p-tagged keys"""
    out, prev = [], []
    for what in shape:
        if what == "none":
            cur = []
        elif what == "no-p-tags":
            cur = [[] for _ in range(rng.choice([1, 2]))]
        elif what == "same":
            cur = [list(c) for c in prev]
        elif what == "overlap":
            kept = [p for p in sorted(_ptagged(prev)) if rng.random() < 0.5]
            cur = [kept + rng.sample(universe, 1)] + [rng.sample(universe, rng.choice([1, 2])) for _ in range(rng.choice([0, 1]))]
        else:                           # matches / others
            fresh = [p for p in universe if p not in _ptagged(prev)] or universe
            cur = [rng.sample(fresh, min(len(fresh), rng.choice([1, 2]))) for _ in range(rng.choice([1, 1, 2, 3]))]
        out.append(cur)
        prev = cur
    return out


def refresh_sequences(report, drv, rng, tier):
    universe = [("%02x" % i) * 32 for i in range(1, 9)]
    static_pool = [("%02x" % i) * 32 for i in range(0xa1, 0xa4)]
    outsider = "ee" * 32
    service = "%064x" % 0x1234567

    def one(shape, n_static, with_service, deny_on, driver):
        allow = _round_results(rng, shape, universe)
        deny = _round_results(rng, [rng.choice(["none", "matches", "same", "overlap"]) for _ in shape], universe[:4]) if deny_on \
            else [[] for _ in shape]
        seq = {"level": "instrumented", "driver": driver, "whitelist": static_pool[:n_static],
               "service_key": service if with_service else None, "deny": deny_on, "universe": universe, "outsider": outsider,
               "rounds": [{"allow": a, "deny": d} for a, d in zip(allow, deny)]}
        refresh_sequence_case(report, drv, seq)

    # directed: every shape under every combination of preconfigured keys, deny queries on / off
    for shape in REFRESH_SHAPES:
        for n_static in (0, 1, 2):
            for with_service in (False, True):
                one(shape, n_static, with_service, deny_on=rng.random() < 0.5, driver="run_once")
    # the builder's own Periodic task drives the refreshes (start(), run at start, wait, run_once, ...)
    for shape in REFRESH_SHAPES:
        one(shape, rng.choice([0, 1, 2]), rng.random() < 0.5, deny_on=rng.random() < 0.5, driver="periodic")
    # random sequences of 2..5 refreshes (thorough: ..12)
    for i in range(60 if tier == "quick" else 1500):
        n = rng.randrange(2, 6 if tier == "quick" else 13)
        shape = [rng.choice(["matches", "none", "others", "same", "overlap", "no-p-tags"]) for _ in range(n)]
        one(shape, rng.choice([0, 1, 1, 2, 3]), rng.random() < 0.5, deny_on=rng.random() < 0.5,
            driver="periodic" if rng.random() < 0.15 else "run_once")


# -- the same with the real storage: the lists are events -------------------------------------------------

LIST_KIND, MUTE_KIND = 3, 10000           # both replaceable: a curator's newer list replaces the older one


def refresh_store_case(report, seq):
    """storage level.  seq: level, backend, whitelist, service_key or None, deny (bool), curators, people ({name: pubkey}), outsider,
    rounds: [{publish: [signed events submitted before the refresh], probes: [signed kind-1 events submitted after it]}]"""
    from nostr_relay import dynamic_lists as dl
    from nostr_relay.config import Config
    from nostr_relay.errors import StorageError

    static = set(seq["whitelist"]) | ({_xonly(seq["service_key"])} if seq["service_key"] else set())
    outsider, rounds = seq["outsider"], seq["rounds"]
    fail = _Once(report, seq)
    missing = object()
    saved = {k: vars(Config).get(k, missing) for k in ("dynamic_lists", "pubkey_whitelist", "service_privatekey")}
    saved_dl = (dl.ALLOWED_PUBKEYS, dl.DENIED_PUBKEYS, dl.get_storage)
    prev_loop = asyncio.get_event_loop()
    chain = [VPATH + ".is_signed", "nostr_relay.dynamic_lists.is_pubkey_allowed"]
    st = (KVStore if seq["backend"] == "kv" else SQLStore)(validators=chain, service_key=seq["service_key"])
    allowed, denied = ProbedSet(), ProbedSet()
    allowed.label, denied.label = "allow", "deny"
    observed = []

    def probe(where):
        try:
            dl.is_pubkey_allowed(mk_ev(pubkey=outsider), Config)
            observed.append((where, True, len(dl.ALLOWED_PUBKEYS)))
        except StorageError:
            observed.append((where, False, len(dl.ALLOWED_PUBKEYS)))

    def submit(ev, e_allow, e_deny, when):
        """through add_event; judged by the stated rule on the lists owed at this moment; returns whether it was owed admission"""
        want = _owed(ev["pubkey"], e_allow, e_deny)
        before = st.dump()
        res = st.add(dict(ev))
        who = ("an outsider (on no list)" if ev["pubkey"] == outsider else "a preconfigured key (static whitelist / service key)"
               if ev["pubkey"] in static else "a key on the deny list" if ev["pubkey"] in e_deny
               else "a key p-tagged by the allow queries" if ev["pubkey"] in e_allow else "a key the allow queries do not p-tag")
        if want and res["exc"] is not None:
            fail("refused-" + who[:12], "%s: %s an event (kind %d) of %s was refused: %s; the allow list is owed to hold %d key(s)%s, the deny "
                 "list %d" % (seq["backend"], when, ev["kind"], who, res["reason"], len(e_allow), "" if e_allow else " (not in force)", len(e_deny)))
        elif not want:
            if res["exc"] is None:
                fail("admitted-" + who[:12], "%s: %s an event of %s was admitted and %s; the allow list is owed to hold %d key(s), the deny list %d"
                     % (seq["backend"], when, who, "stored" if st.get(ev["id"]) is not None else "acknowledged", len(e_allow), len(e_deny)))
            elif res["broadcast"] or st.dump() != before or st.get(ev["id"]) is not None:
                fail("trace", "%s: %s a refused event of %s was stored or broadcast" % (seq["backend"], when, who))
            elif not res["reason"]:
                fail("no-reason", "%s: %s refusal without a reason" % (seq["backend"], when))
        report.count("refresh_sequence_submissions_%s" % seq["backend"])
        return want

    try:
        dl.ALLOWED_PUBKEYS, dl.DENIED_PUBKEYS = allowed, denied
        dl.get_storage = lambda: st.storage
        curators = list(seq["curators"])
        Config.dynamic_lists = {"check_interval": 3600, "allow_list_queries": [{"kinds": [LIST_KIND], "authors": curators}],
                                "deny_list_queries": [{"kinds": [MUTE_KIND], "authors": curators}] if seq["deny"] else []}
        Config.pubkey_whitelist = list(seq["whitelist"])
        builder = dl.ListBuilder()
        latest = {}                     # (curator, kind) -> the newest list event the relay owed admission
        e_allow, e_deny = set(), set()
        for k, r in enumerate(rounds, 1):
            for ev in r["publish"]:
                if submit(ev, e_allow, e_deny, "before refresh %d," % k) and ev["pubkey"] in curators:
                    cur = latest.get((ev["pubkey"], ev["kind"]))
                    if cur is None or cur["created_at"] < ev["created_at"]:
                        latest[(ev["pubkey"], ev["kind"])] = ev
            p_allow = e_allow

            def listed(kind):
                return {t[1] for (_, kd), ev in latest.items() if kd == kind for t in ev["tags"] if t[0] == "p"}

            e_allow, e_deny = listed(LIST_KIND) | static, (listed(MUTE_KIND) if seq["deny"] else set())
            del observed[:]
            ProbedSet.probe = probe
            try:
                st.run(builder.run_once())
            finally:
                ProbedSet.probe = None
            nth = "refresh %d of %d of one ListBuilder" % (k, len(rounds))
            got_allow, got_deny = {x.hex() for x in dl.ALLOWED_PUBKEYS}, {x.hex() for x in dl.DENIED_PUBKEYS}
            if got_allow != e_allow:
                fail("allow-list", "%s: after %s the allow list holds %s; expected the pubkeys p-tagged by the curators' current lists (%d) "
                     "plus the preconfigured keys (%d whitelisted%s): %s" % (
                         seq["backend"], nth, _short(got_allow), len(listed(LIST_KIND)), len(seq["whitelist"]),
                         " + the service key" if seq["service_key"] else "", _short(e_allow)))
            if got_deny != e_deny:
                fail("deny-list", "%s: after %s the deny list holds %s; expected the pubkeys p-tagged by the curators' mute lists: %s"
                     % (seq["backend"], nth, _short(got_deny), _short(e_deny)))
            if k >= 2 and p_allow and e_allow and any(o[1] for o in observed):
                bad = [o for o in observed if o[1]][0]
                fail("window", "%s: during %s an outsider was admitted at %s (allow list size %d): the list is in force before and after"
                     % (seq["backend"], nth, bad[0], bad[2]))
            for ev in r["probes"]:
                submit(ev, e_allow, e_deny, "after %s" % nth)
            report.count("refresh_sequence_refreshes")
            report.count("refresh_sequence_allow_%s" % ("in_force" if e_allow else "not_in_force"))
    finally:
        ProbedSet.probe = None
        dl.ALLOWED_PUBKEYS, dl.DENIED_PUBKEYS, dl.get_storage = saved_dl
        st.close()
        for k, v in saved.items():
            if v is missing:
                vars(Config).pop(k, None)
            else:
                setattr(Config, k, v)
        asyncio.set_event_loop(prev_loop)
    report.case(("refresh-sequence-store", seq["backend"], repr([[e["id"] for e in r["publish"] + r["probes"]] for r in rounds])),
                nontrivial=len(rounds) > 1, sample={"refresh_sequence": "storage", "backend": seq["backend"], "refreshes": len(rounds)})
    report.count("refresh_sequences_store_%s" % seq["backend"])


def refresh_store_sequences(report, rng, tier):
    from aionostr.event import Event
    from aionostr.key import PrivateKey

    sk = {name: PrivateKey(bytes([b]) * 32) for name, b in
          (("curator1", 0x11), ("curator2", 0x12), ("friend1", 0x21), ("friend2", 0x22), ("friend3", 0x23), ("friend4", 0x24),
           ("outsider", 0x31), ("service", 0x41))}
    pub = {n: k.public_key.hex() for n, k in sk.items()}
    friends = ["friend1", "friend2", "friend3", "friend4"]
    serial = [0]

    def signed(who, kind, ptags=(), content=None):
        serial[0] += 1
        ev = Event(pubkey=pub[who], kind=kind, created_at=NOW - 100000 + serial[0], content=content or "n%d" % serial[0],
                   tags=[["p", pub[f]] for f in ptags] + [["t", "n%d" % serial[0]]])
        ev.sign(sk[who].hex())
        return ev.to_json_object()

    def sequence(backend, shape, n_curators, with_service, deny_on, whitelisted=True):
        curators = ["curator1", "curator2"][:n_curators]
        rounds, prev = [], {}
        for what in shape:
            publish = []
            for c in curators:
                if what == "none" or (what == "same" and c in prev):
                    continue                                         # nothing new from this curator
                if what == "no-p-tags":
                    lst = []
                elif what == "overlap":
                    lst = sorted(set(prev.get(c, [])[:1] + rng.sample(friends, 1)))
                else:
                    fresh = [f for f in friends if f not in prev.get(c, [])]
                    lst = rng.sample(fresh, rng.choice([1, 2]))
                prev[c] = lst
                publish.append(signed(c, LIST_KIND, lst))
                if deny_on and rng.random() < 0.5:
                    publish.append(signed(c, MUTE_KIND, rng.sample(friends, rng.choice([0, 1]))))
            # somebody else publishing lists of the same kinds does not count: the queries name the curators
            if rng.random() < 0.3:
                publish.append(signed(rng.choice(friends + ["outsider"]), LIST_KIND, ["outsider"]))
            probes = [signed(w, 1) for w in ["outsider"] + curators + friends]
            rng.shuffle(probes)
            rounds.append({"publish": publish, "probes": probes})
        # (without a static whitelist a curator can publish only while the list is not in force or while somebody's list names him:
        # the oracle follows the stated rule for the curators' own submissions too)
        seq = {"level": "storage", "backend": backend, "whitelist": [pub[c] for c in curators] if whitelisted else [],
               "service_key": sk["service"].hex() if with_service else None, "deny": deny_on, "curators": [pub[c] for c in curators],
               "people": pub, "outsider": pub["outsider"], "rounds": rounds}
        refresh_store_case(report, seq)

    for backend in ("kv", "sql"):
        # as the relay lives: the refresh at start finds no list, the next one neither, then a contact list appears, is emptied, replaced
        sequence(backend, ["none", "none", "matches", "no-p-tags", "others"], 1, True, False)
        sequence(backend, ["matches", "none", "overlap"], 2, False, True)
        for i in range(2 if tier == "quick" else 40):
            n = rng.randrange(2, 6 if tier == "quick" else 13)
            sequence(backend, [rng.choice(["matches", "none", "others", "same", "overlap", "no-p-tags"]) for _ in range(n)],
                     rng.choice([1, 2]), rng.random() < 0.5, rng.random() < 0.5, whitelisted=rng.random() < 0.75)


# ---- configuration errors --------------------------------------------------------------------------
#
# "Configured policies are applied to every event, fail-closed" also speaks about configurations that cannot be honoured.  The
# `validators` list of the storage section comes from the operator's YAML as dotted paths MODULE.NAME, and nothing guarantees
# that every entry names something: a module path with a typing slip, a module whose import raises on this machine (a missing
# optional dependency — nostr_relay.verification needs nostr_bot, which is absent here — a site module that fails to initialise),
# an attribute the module does not have, an attribute that is not a function, an entry that is not a dotted path at all (empty,
# null, a number, a nested list or a mapping produced by a stray `:` / `-`), a scalar where the list should be.  An entry that
# names no validator is a policy the relay was told to enforce and cannot evaluate, so for every such configuration EITHER the
# storage refuses to be constructed / set up (the relay does not start) OR every submitted event is refused; an event must
# never be stored or broadcast because the entry that would have refused it (or any other entry) silently dropped out of the
# chain.  The scenarios below build chains of real validators with ONE entry replaced by a member of those families (derived
# from a real validator V by general rules: slips of each component of the path, structural variants, scratch modules whose
# import fails in the common ways), at every position of the chain, and submit an event that violates exactly V's policy
# next to an event that satisfies every policy — to the real get_validator and to the real storage classes of both backends.
# Whether an entry "names a validator" is decided by the harness on its own (names_a_validator below), not read off the relay;
# the same oracle covers the correctly spelt chain (control): admitted iff every entry names a validator and the event
# satisfies each of them.

POLICY_VALIDATORS = ["is_not_too_large", "is_recent", "is_certain_kind", "is_author_whitelisted", "is_author_blacklisted", "is_pow",
                     "is_not_hellthread", "is_service_event"]
VPATH = "nostr_relay.validators"

# modules of a site-packages directory that exists for the duration of the scenario (fixed names: replays rebuild them)
SCRATCH_MODULES = {
    # import fails: an optional dependency is not installed (ModuleNotFoundError raised INSIDE an existing module)
    "c16site_missing_dep.py": "import c16site_dependency_that_is_not_installed\nfrom nostr_relay.validators import is_pow as check\n",
    # import fails: `from x import name` of a name that module does not have (ImportError that is not ModuleNotFoundError)
    "c16site_import_from.py": "from nostr_relay.validators import c16site_no_such_validator as check\n",
    # import fails with something that is not an ImportError at all
    "c16site_raises.py": "raise RuntimeError('the site policy cannot be initialised')\n",
    "c16site_oserror.py": "POLICY = open('/nonexistent/c16site/policy.json').read()\n\ndef check(event, config):\n    pass\n",
    "c16site_zero.py": "LIMIT = 1 // 0\n\ndef check(event, config):\n    pass\n",
    "c16site_syntax.py": "def check(event, config):\n    return (\n",
    # a package whose __init__ fails, the validator in a sound submodule of it
    "c16site_pkg/__init__.py": "import c16site_dependency_that_is_not_installed\n",
    "c16site_pkg/policy.py": "def check(event, config):\n    pass\n",
    # importable; attributes that are not functions
    "c16site_values.py": "LIMIT = 5\nNAMES = ['is_pow']\nNOTHING = None\nPATH = 'nostr_relay.validators.is_pow'\nTABLE = {}\n",
}


class scratch_site:
    """the scratch modules on sys.path; removed (files, path entry, import caches, loaded modules) on exit"""

    def __enter__(self):
        import importlib
        import os
        import sys

        self.dir = common.scratch_dir("nrc16site-")
        for rel, src in SCRATCH_MODULES.items():
            path = os.path.join(self.dir, rel)
            os.makedirs(os.path.dirname(path), exist_ok=True)
            with open(path, "w") as fp:
                fp.write(src)
        sys.path.append(self.dir)
        importlib.invalidate_caches()
        return self

    def __exit__(self, *exc):
        import importlib
        import shutil
        import sys

        while self.dir in sys.path:
            sys.path.remove(self.dir)
        sys.path_importer_cache.pop(self.dir, None)
        for name in [m for m in sys.modules if m.split(".")[0].startswith("c16site_")]:
            del sys.modules[name]
        importlib.invalidate_caches()
        shutil.rmtree(self.dir, ignore_errors=True)
        return False


def names_a_validator(entry):
    """the independent statement of "this entry of the list names a validator": a string MODULE.NAME whose MODULE can be
    imported here and has a callable attribute NAME"""
    import importlib

    if not isinstance(entry, str) or "." not in entry:
        return False
    module, _, name = entry.rpartition(".")
    if not module or not name:
        return False
    try:
        m = importlib.import_module(module)
    except BaseException:
        return False
    return callable(getattr(m, name, None))


def _slips(word):
    """typing slips of one identifier: a letter dropped (end, start, middle), doubled, two neighbours swapped, another case,
    plural / singular, the separator dropped or replaced"""
    mid = len(word) // 2
    out = [word[:-1], word[1:], word[:mid] + word[mid + 1:], word + word[-1], word[:mid] + word[mid + 1] + word[mid] + word[mid + 2:],
           word.upper(), word.capitalize(), word + "s", word.replace("_", ""), word.replace("_", "-"), word + "_"]
    seen, res = {word}, []
    for w in out:
        if w and w not in seen:
            seen.add(w)
            res.append(w)
    return res


def broken_entries(v):
    """family -> the entries that stand where `nostr_relay.validators.<v>` was meant (or, for the families that are not about
    spelling, where it stood)"""
    import yaml

    good = "%s.%s" % (VPATH, v)
    fam = {}
    pkg, mod = VPATH.split(".")
    fam["module-misspelt"] = (["%s.%s.%s" % (p, mod, v) for p in _slips(pkg)] + ["%s.%s.%s" % (pkg, m, v) for m in _slips(mod)]
                              + ["%s.%s" % (mod, v),                       # the package left out
                                 "%s.storage.%s.%s" % (pkg, mod, v),       # a level too many
                                 "%s.%s.%s.check" % (pkg, mod, v),         # the function taken for a module
                                 " " + good,                               # a blank in front (quoted in the YAML)
                                 "%s/%s.%s" % (pkg, mod, v)])              # a file path
    fam["import-raises"] = ["c16site_missing_dep.check", "c16site_import_from.check", "c16site_raises.check", "c16site_oserror.check",
                            "c16site_zero.check", "c16site_syntax.check", "c16site_pkg.policy.check",
                            # the relay's own NIP-05 module: imports nostr_bot at the top
                            "nostr_relay.verification.is_nip05_verified"]
    fam["attribute-missing"] = (["%s.%s" % (VPATH, n) for n in _slips(v)]
                                + ["%s.%s" % (VPATH, v[3:] if v.startswith("is_") else "is_" + v),     # the prefix left out
                                   good + " ", "%s:%s" % (VPATH, v), good + "()", "%s.validate_%s" % (VPATH, v[3:])])
    fam["not-callable"] = [VPATH + ".__doc__", VPATH + ".__name__", VPATH + ".asyncio", VPATH + ".__builtins__",
                           "c16site_values.LIMIT", "c16site_values.NAMES", "c16site_values.NOTHING", "c16site_values.PATH",
                           "c16site_values.TABLE", "nostr_relay.config.Config"]
    # what a YAML list item turns into after the slips one makes in YAML (parsed by the YAML library, as the relay's loader does)
    items = ['""', "' '", "~", "", "7", "true", "0.5", v, "." + v, VPATH + ".", ".", "..", good + ":", "- " + good, "[%s]" % good,
             "{%s: %s}" % (VPATH, v), "'%s, %s.is_signed'" % (good, VPATH)]
    fam["not-a-path"] = [yaml.safe_load("- " + t)[0] for t in items]
    return fam


def scalar_chains(v, rest):
    """the whole `validators` value is a scalar instead of a list (`validators: a.b.c`, or several paths on one line)"""
    good = "%s.%s" % (VPATH, v)
    return [good, ", ".join(rest + [good]), " ".join(rest + [good])]


def _entries_of(chain):
    """the entries the relay will find when it walks the configured value (a scalar string is walked character by character)"""
    return list(chain)


def _violated(e, c, chain):
    """the policies among the (well-formed) entries of `chain` that event `e` violates — by the documented bounds (spec);
    is_signed is satisfied by construction of the events used here (genuinely signed, or not part of the chain)"""
    bad = []
    for entry in _entries_of(chain):
        if isinstance(entry, str) and entry.startswith(VPATH + ".") and entry[len(VPATH) + 1:] in POLICY_VALIDATORS:
            if not spec(entry[len(VPATH) + 1:], c, e):
                bad.append(entry[len(VPATH) + 1:])
    return bad


MISCONF_CFG = dict(max_event_size=50, oldest_event=1000, valid_kinds=[1, 7, 31494], require_pow=8, hellthread_limit=3)


def _violation_kw(rng, v, pub):
    """the change that makes a conforming event violate exactly validator v (around and beyond its bound)"""
    if v == "is_not_too_large":
        return {"content_len": 51 + rng.choice([0, 1, 100, 5000])}
    if v == "is_recent":
        return {"created_at": rng.choice([NOW - 1001 - rng.randrange(1000), NOW + 3601 + rng.randrange(1000)])}
    if v == "is_certain_kind":
        return {"kind": rng.choice([0, 2, 4, 8, 30000])}
    if v == "is_author_whitelisted":
        return {"pubkey": pub["outsider"]}
    if v == "is_author_blacklisted":
        return {"pubkey": pub["denied"]}
    if v == "is_pow":
        return {"id_bits": rng.choice([249, 250, 256])}
    if v == "is_not_hellthread":
        return {"p_tags": rng.choice([4, 5, 40]), "kind": rng.choice([1, 7])}
    if v == "is_service_event":
        return {"kind": 31494}
    raise KeyError(v)


def _chain_around(rng, v, others, entry, always=()):
    """a chain of real validators (those of `others` in random number and order, `always` included) with `entry` put at a
    random position — first, in the middle, last"""
    rest = list(always) + rng.sample(others, rng.randrange(0, min(4, len(others)) + 1))
    rng.shuffle(rest)
    chain = ["%s.%s" % (VPATH, n) for n in rest]
    pos = rng.randrange(len(chain) + 1)
    return chain[:pos] + [entry] + chain[pos:], pos


def _judge(report, where, case, built, construct_exc, verdicts, seen=None):
    """the oracle of this section.  `built`: the validator chain / storage could be constructed; `verdicts`: role ->
    dict(refused, reason, trace) for the events submitted to it.  `seen`: failures already reported per (level, family) — the
    report keeps 20 failing inputs, two per level and family leave room for every level and family that fails"""
    chain = case["validators"]
    if seen is not None:
        failure, n = report.property_failure, seen.setdefault((where, case["family"]), [0])

        class _Limited:
            @staticmethod
            def property_failure(what, replay, cls=None):
                n[0] += 1
                report.count("misconfig_failures")
                if n[0] <= 2:
                    failure(what, replay, cls)
            count = report.count
        report = _Limited
    unusable = [x for x in _entries_of(chain) if not names_a_validator(x)]
    replay = {"misconfigured": case}
    if not built:
        if not unusable:
            report.property_failure("%s: every entry of the validator list names a validator, yet the construction fails (%s)"
                                    % (where, construct_exc), replay, None)
        report.count("misconfig_outcome_does_not_start" if unusable else "misconfig_outcome_control_broken")
        return "does-not-start"
    for role, vd in verdicts.items():
        owed_bad = vd["violates"]
        if unusable:
            if not vd["refused"] or vd["trace"]:
                report.property_failure(
                    "%s: the configured validator list has an entry that names no validator (%r, position %d of %d, family %s); "
                    "the %s was constructed all the same and an event %s was %s — a configured policy silently dropped out "
                    "instead of failing closed" % (
                        where, unusable[0] if len(unusable) == 1 else chain, case["position"] + 1, len(_entries_of(chain)),
                        case["family"], "validator chain" if case["level"] == "get_validator" else "storage",
                        ("that violates %s (the policy this entry stands for in the chain: no other entry refuses the event)" % case["meant"]) if role == "violating"
                        else "that satisfies every policy",
                        "admitted" if not vd["refused"] else "refused but stored or broadcast"), replay, None)
        elif owed_bad:
            if not vd["refused"] or vd["trace"]:
                report.property_failure("%s: an event violating %s was %s (correctly spelt chain)"
                                        % (where, "+".join(owed_bad), "admitted" if not vd["refused"] else "stored or broadcast"),
                                        replay, None)
            elif not vd["reason"]:
                report.property_failure("%s: refusal without a reason" % where, replay, None)
        elif vd["refused"]:
            report.property_failure("%s: a conforming event was refused by a correctly spelt chain: %s" % (where, vd["reason"]),
                                    replay, None)
    report.count("misconfig_outcome_refuses_every_event" if unusable else "misconfig_outcome_control_applies_policies")
    return "refuses-every-event" if unusable else "control"


_DRV = {}


def _entry_class(entry):
    """what a configured entry is, decided by the harness itself: unresolved / notCallable / a function"""
    import importlib
    if not isinstance(entry, str) or "." not in entry:
        return "unresolved", None
    mod, _, name = entry.rpartition(".")
    try:
        obj = getattr(importlib.import_module(mod), name)
    except Exception:
        return "unresolved", None
    return ("fn", obj) if callable(obj) else ("notCallable", None)


def _model_chain(report, case, c, chain, built, verdicts):
    """tie of validators.get_validator to the Lean `getValidator` (Props/C16Config.lean): does a chain exist, and what does it say"""
    if isinstance(chain, str):
        return                       # a scalar for the list: the entries are its characters; outside the modelled fragment
    drv = _DRV.get("drv")
    if drv is None:
        drv = _DRV["drv"] = common.Driver()
    for role in ("violating", "conforming"):
        e = mk_ev(**case["events"][role])
        entries = []
        for entry in chain:
            k, f = _entry_class(entry)
            if k != "fn":
                entries.append(k)
                continue
            try:
                f(e, c)
                entries.append("ok")
            except Exception as ex:
                entries.append("reject" if type(ex).__name__ in ("StorageError", "VerificationError") else "raises")
        m = drv.call({"op": "adm.getValidator", "entries": entries})
        if built:
            vd = verdicts.get(role)
            impl = None if vd is None else ("ok" if not vd["refused"] else "refused")
        else:
            impl = "no-chain"
        model = "no-chain" if m is None else ("ok" if m == "ok" else "refused")
        if impl is not None and impl != model:
            report.correspondence_break("validators.get_validator (chain resolution)", {"misconfigured": case, "role": role, "entries": entries},
                                        impl, model)
        report.count("misconfig_model_chain_" + model)


def misconfig_direct(report, loop, case, seen=None):
    """validators.get_validator on the chain, then the returned coroutine function on both events"""
    from nostr_relay import validators

    validators.time = lambda: NOW
    c = types.SimpleNamespace(**case["config"])
    chain = case["validators"]
    verdicts, exc = {}, None
    try:
        validate = validators.get_validator(chain if isinstance(chain, str) else list(chain))
        built = True
    except Exception as ex:
        built, exc = False, "%s: %s" % (type(ex).__name__, ex)
    if built:
        for role in ("violating", "conforming"):
            e = mk_ev(**case["events"][role])
            vd = {"refused": False, "reason": "", "trace": False, "violates": _violated(e, c, chain)}
            try:
                loop.run_until_complete(validate(e, c))
            except Exception as ex:
                vd["refused"], vd["reason"] = True, str(ex) or type(ex).__name__
            verdicts[role] = vd
    out = _judge(report, "get_validator", case, built, exc, verdicts, seen)
    _model_chain(report, case, c, chain, built, verdicts)
    report.case(("misconfigured", "get_validator", repr(chain), repr(case["events"])), nontrivial=True,
                sample={"misconfigured": case["family"], "level": "get_validator", "outcome": out})
    report.count("misconfig_get_validator_" + case["family"])


def misconfig_store(report, case, seen=None):
    """the real storage class of one backend constructed and set up with the chain (as the relay does at start), then both
    events through its add_event; the Config attributes the validators read are set from case['config']"""
    import shutil
    from nostr_relay.config import Config
    from nostr_relay import validators

    validators.time = lambda: NOW
    missing = object()
    # (service_pubkey is a read-only property of the Config object, derived from service_privatekey)
    settable = {k: v for k, v in case["config"].items() if not isinstance(getattr(type(Config), k, None), property)}
    saved = {k: vars(Config).get(k, missing) for k in settable}
    for k, v in settable.items():
        setattr(Config, k, v)
    c = types.SimpleNamespace(**case["config"])
    chain = case["validators"]
    cls = KVStore if case["backend"] == "kv" else SQLStore
    mine = asyncio.new_event_loop()
    asyncio.set_event_loop(mine)
    st = cls.__new__(cls)
    verdicts, exc = {}, None
    try:
        try:
            st.__init__(validators=chain, service_key=case["config"].get("service_privatekey"))
            built = True
        except Exception as ex:
            built, exc = False, "%s: %s" % (type(ex).__name__, ex)
            # the half-built adapter: its scratch directory and its loop
            if getattr(st, "dir", None):
                shutil.rmtree(st.dir, ignore_errors=True)
            cur = asyncio.get_event_loop()
            if cur is not mine:
                cur.close()
        if built:
            try:
                for role in ("violating", "conforming"):
                    d = case["events"][role]
                    e = types.SimpleNamespace(content=d["content"], created_at=d["created_at"], kind=d["kind"], pubkey=d["pubkey"],
                                              tags=d["tags"], id=d["id"])
                    before = st.dump()
                    res = st.add(dict(d))
                    refused = res["exc"] is not None
                    trace = refused and (bool(res["broadcast"]) or st.dump() != before or st.get(d["id"]) is not None)
                    verdicts[role] = {"refused": refused, "reason": res["reason"], "trace": trace, "violates": _violated(e, c, chain)}
            finally:
                st.close()
                if st.loop is not mine and not st.loop.is_running():
                    st.loop.close()
    finally:
        asyncio.set_event_loop(mine)
        for k, v in saved.items():
            if v is missing:
                vars(Config).pop(k, None)
            else:
                setattr(Config, k, v)
    out = _judge(report, case["backend"], case, built, exc, verdicts, seen)
    report.case(("misconfigured", case["backend"], repr(chain), case["events"]["violating"]["id"]), nontrivial=True,
                sample={"misconfigured": case["family"], "level": "storage", "backend": case["backend"], "outcome": out})
    report.count("misconfig_%s_%s" % (case["backend"], case["family"]))
    mine.close()


def _mined(key, kw, pow_ok, require):
    """a genuinely signed event whose id has at least `require` leading zero bits (pow_ok) or fewer (not pow_ok): a NIP-13
    nonce tag is counted up"""
    from aionostr.event import Event

    n = 0
    while True:
        ev = Event(**dict(kw, tags=kw["tags"] + [["nonce", str(n), str(require)]]))
        if ((256 - int(ev.id, 16).bit_length()) >= require) == pow_ok:
            break
        n += 1
    ev.sign(key.hex())
    return ev.to_json_object()


def misconfigured_cases(report, rng, tier):
    from aionostr.key import PrivateKey

    prev = asyncio.get_event_loop()
    loop = asyncio.new_event_loop()
    seen = {}
    try:
        with scratch_site():
            # -- the chain builder itself: every member of every family for every validator, random rest and position
            pub = {"member": A, "denied": B, "outsider": "dd" * 32}
            conf = dict(MISCONF_CFG, pubkey_whitelist=[A, B], pubkey_blacklist=[B], service_pubkey=C)
            c = types.SimpleNamespace(**conf)
            for rep in range(1 if tier == "quick" else 5):
                for v in POLICY_VALIDATORS:
                    ok_kw = dict(content_len=rng.randrange(0, 51), created_at=NOW - rng.randrange(0, 1000), kind=rng.choice([1, 7]),
                                 pubkey=A, id_bits=rng.randrange(1, 249), p_tags=rng.randrange(0, 4))
                    bad_kw = dict(ok_kw, **_violation_kw(rng, v, pub))
                    ok_e, bad_e = mk_ev(**ok_kw), mk_ev(**bad_kw)
                    others = [w for w in POLICY_VALIDATORS if w != v and spec(w, c, bad_e)]
                    assert not spec(v, c, bad_e) and all(spec(w, c, ok_e) for w in POLICY_VALIDATORS), (v, ok_kw, bad_kw)
                    fams = broken_entries(v)
                    fams["control"] = ["%s.%s" % (VPATH, v)]
                    for family, entries in fams.items():
                        for entry in entries:
                            if family != "control" and names_a_validator(entry):
                                report.count("misconfig_skipped_resolves_here")     # (e.g. nostr_bot is installed after all)
                                continue
                            chain, pos = _chain_around(rng, v, others, entry)
                            misconfig_direct(report, loop, {"level": "get_validator", "family": family, "meant": v, "position": pos,
                                                            "validators": chain, "config": conf,
                                                            "events": {"violating": bad_kw, "conforming": ok_kw}}, seen)
                    for chain in scalar_chains(v, ["%s.%s" % (VPATH, w) for w in rng.sample(others, min(1, len(others)))]):
                        misconfig_direct(report, loop, {"level": "get_validator", "family": "scalar-for-list", "meant": v, "position": 0,
                                                        "validators": chain, "config": conf,
                                                        "events": {"violating": bad_kw, "conforming": ok_kw}}, seen)
            # -- the storage classes of both backends, with genuinely signed events (is_signed is part of every chain)
            member, denied, outsider, service = (PrivateKey(bytes([b]) * 32) for b in (1, 2, 7, 8))
            conf = dict(MISCONF_CFG, pubkey_whitelist=[member.public_key.hex(), denied.public_key.hex()],
                        pubkey_blacklist=[denied.public_key.hex()], service_privatekey=service.hex(),
                        service_pubkey=service.public_key.hex())
            c = types.SimpleNamespace(**conf)
            serial = 0
            for v in POLICY_VALIDATORS:
                fams = broken_entries(v)
                for backend in ("kv", "sql"):
                    picks = [("control", "%s.%s" % (VPATH, v))]
                    for family, entries in fams.items():
                        entries = [x for x in entries if not names_a_validator(x)]
                        # quick: one member of each family per validator and backend (thorough: every member)
                        picks += [(family, x) for x in (entries if tier != "quick" else rng.sample(entries, min(1, len(entries))))]
                    picks.append(("scalar-for-list", rng.choice(scalar_chains(v, [VPATH + ".is_signed"]))))
                    for family, entry in picks:
                        serial += 1
                        key = {"is_author_whitelisted": outsider, "is_author_blacklisted": denied}.get(v, member)
                        kw = dict(pubkey=key.public_key.hex(), content="note %d" % serial, kind=rng.choice([1, 7]),
                                  created_at=NOW - rng.randrange(1000), tags=[["t", "n%d" % serial]])
                        ok_d = _mined(member, dict(kw, pubkey=member.public_key.hex()), True, conf["require_pow"])
                        if v == "is_not_too_large":
                            kw["content"] = "x" * (51 + rng.choice([0, 1, 100, 5000]))
                        elif v == "is_recent":
                            kw["created_at"] = rng.choice([NOW - 1001 - rng.randrange(1000), NOW + 3601 + rng.randrange(1000)])
                        elif v == "is_certain_kind":
                            kw["kind"] = rng.choice([2, 4, 8, 30000])
                        elif v == "is_not_hellthread":
                            kw["tags"] = kw["tags"] + [["p", "%064x" % (i + 1)] for i in range(rng.choice([4, 5, 40]))]
                        elif v == "is_service_event":
                            kw["kind"] = 31494
                            kw["tags"] = kw["tags"] + [["d", "n%d" % serial]]
                        bad_d = _mined(key, kw, v != "is_pow", conf["require_pow"])
                        bad_e = types.SimpleNamespace(**{k: bad_d[k] for k in ("content", "created_at", "kind", "pubkey", "tags", "id")})
                        ok_e = types.SimpleNamespace(**{k: ok_d[k] for k in ("content", "created_at", "kind", "pubkey", "tags", "id")})
                        others = [w for w in POLICY_VALIDATORS if w != v and spec(w, c, bad_e)]
                        assert not spec(v, c, bad_e) and all(spec(w, c, ok_e) for w in POLICY_VALIDATORS), (v, bad_d, ok_d)
                        chain, pos = _chain_around(rng, v, others, entry, always=["is_signed"])
                        if family == "scalar-for-list":
                            chain, pos = entry, 0
                        misconfig_store(report, {"level": "storage", "backend": backend, "family": family, "meant": v, "position": pos,
                                                 "validators": chain, "config": conf, "events": {"violating": bad_d, "conforming": ok_d}},
                                        seen)
    finally:
        loop.close()
        asyncio.set_event_loop(prev)


def run(report, tier, seed):
    rng = random.Random(seed)
    drv = common.Driver()
    loop = asyncio.new_event_loop()
    asyncio.set_event_loop(loop)
    report.coverage["rule"] = (
        "every validator at bound-1/bound/bound+1 and beyond (content length, age both ways, kinds, lists, PoW bits, p-tag "
        "count for kinds 1/7/other with limit 0/3, service kind) under an injected clock; the dynamic allow / deny validator over every "
        "pair of subsets of three keys (overlapping lists included) x author; the real pipeline of six "
        "validators through add_event on both backends with one or two violated policies; groups of 2..3 (thorough: ..6) "
        "submissions gathered in one event-loop turn (or staggered by a few turns) on both backends — a genuine event next to "
        "tampered copies that claim its id (every kind of tampering, both orders, regular and ephemeral kinds), the same payload "
        "twice, different conforming / violating events — each member owed the verdict and reason of its own payload, compared "
        "with an independent statement and with a reference store that receives the same payloads sequentially; dynamic list refreshes with an "
        "instrumented set (probe before/after every set operation and at every await of the query loop), old list empty / "
        "non-empty, new result empty / several chunks, static whitelist on/off, deny list on/off; sequences of 2..5 (thorough: ..12) "
        "refreshes of ONE ListBuilder (driven by run_once and by its own Periodic task) with the query results changing between "
        "refreshes (matches / nothing / others / the same / overlapping / events without p tags), 0..3 whitelisted keys, service key "
        "on/off, deny queries on/off: after every refresh both lists equal the p-tagged keys plus the preconfigured ones and "
        "is_pubkey_allowed gives every key of the universe the verdict of the stated rule, during every later refresh an outsider "
        "is never admitted and a preconfigured key never refused; the same through the real storage of both backends (curators' "
        "replaceable list / mute-list events published through add_event, is_pubkey_allowed in the chain, outsider / curators / "
        "friends submitting after every refresh: refused = reason, nothing stored, nothing broadcast); configuration errors: chains of "
        "real validators with one entry replaced by an entry that names no validator — every typing slip of each component of the "
        "module path and of the function name, structural variants, scratch modules / packages whose import raises (missing "
        "dependency, ImportError of a name, RuntimeError, OSError, ZeroDivisionError, SyntaxError) and nostr_relay.verification "
        "(nostr_bot absent), attributes that are not callable, YAML items that are not dotted paths (empty, null, numbers, nested "
        "list, mapping), a scalar for the list — at a random position, for each of the eight policy validators, through "
        "get_validator (every member) and through the construction + add_event of both storage backends (quick: one member per "
        "family, validator and backend), each with an event violating exactly the replaced policy and a conforming one: the "
        "construction is refused or every event is refused without trace; correctly spelt controls apply the policies")
    report.assumptions += ["GIL-level atomicity of a single set method is trusted (the probe looks between methods)",
                           "clock: validators.time replaced by a constant",
                           "configuration errors: whether an entry names a validator is decided by importing it in the harness "
                           "process (same sys.path as the relay code under test)"]
    try:
        for e in report.known:
            r = common.load_finding_replay(e)
            if "allow_old" in r:
                dynamic_case(report, drv, rng, r["allow_old"], r["allow_new"], r["deny_new"], r["whitelist"], r["outsider"])
        validator_cases(report, drv)
        dynamic_verdict_cases(report, drv)
        nip05_cases(report, drv, rng, tier)
        pipeline_cases(report, rng, tier)
        concurrent_cases(report, rng, tier)
        keys = [("%02x" % i) * 32 for i in range(1, 9)]
        for i in range(60 if tier == "quick" else 1500):
            old = rng.sample(keys, rng.choice([0, 1, 2, 3]))
            n_chunks = rng.choice([0, 1, 1, 2, 3])
            new = [rng.sample(keys, rng.choice([1, 2])) for _ in range(n_chunks)]
            deny = None if rng.random() < 0.5 else [rng.sample(keys, 1)]
            wl = [] if rng.random() < 0.5 else [keys[7]]
            outsider = "ee" * 32
            dynamic_case(report, drv, rng, old, new, deny, wl, outsider)
        refresh_sequences(report, drv, rng, tier)
        refresh_store_sequences(report, rng, tier)
        misconfigured_cases(report, rng, tier)
    finally:
        drv.close()


def replay(report, path):
    import json

    data = json.load(open(path))
    drv = common.Driver()
    loop = asyncio.new_event_loop()
    asyncio.set_event_loop(loop)
    rng = random.Random(0)
    try:
        for it in (data.get("violations") or []) + (data.get("correspondence_breaks") or []):
            r = it.get("replay") or it.get("input")
            if "allow_old" in r:
                dynamic_case(report, drv, rng, r["allow_old"], r["allow_new"], r["deny_new"], r["whitelist"], r["outsider"])
            elif "refresh_sequence" in r:
                seq = r["refresh_sequence"]
                if seq["level"] == "instrumented":
                    refresh_sequence_case(report, drv, seq)
                else:
                    refresh_store_case(report, seq)
                asyncio.set_event_loop(loop)
            elif "misconfigured" in r:
                case = r["misconfigured"]
                with scratch_site():
                    if case["level"] == "get_validator":
                        misconfig_direct(report, loop, case)
                    else:
                        misconfig_store(report, case)
                asyncio.set_event_loop(loop)
            elif "concurrent" in r:
                rig = ConcurrentRig()
                try:
                    rig.group(report, r.get("shape", "replay"), r["concurrent"], stagger=r.get("stagger", 0), backends=[r["backend"]])
                finally:
                    rig.close()
            else:
                validator_cases(report, drv)
    finally:
        drv.close()
