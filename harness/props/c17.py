"""
C17 — garbage collection removes expired and ephemeral events and nothing else.
Tie: real QueryGarbageCollector.collect (SQLite) and KVGarbageCollector.collect + the queued deletions
(LMDB) under an injected clock vs the Lean models (`gcSql`, `gcCollect` + `del` tasks); α = stored ids /
full key list after the pass.  Search: removed = exactly {ephemeral kinds} ∪ {events whose expiration is a
well-formed timestamp earlier than T}; nothing without expiration, with a future or malformed expiration
goes; index entries go with the record.
"""
import random

from lib import common, gen
from lib.hist import KVStore, SQLStore
from lib.kvimpl import model_event
from props.c10 import coherence_violations

THEOREMS_TIED = ["C17_sql_gc_exact", "C17_sql_gc_keeps_unexpiring", "C17_sql_gc_removes_ephemeral", "C17_kv_gc_sound",
                 "C17_kv_gc_coherent"]

T = 1700000001
EXPS = [str(T - 1), str(T), str(T + 1), "1", "999", "1699999999", "17000000000", "99999999999", "1700abc", "1600abc", "abc", "",
        "0", "01700000000", " 1700000000", "1700000000.5", "-5",
        # not timestamps, although Python's int() would take them: sign, blanks, digit separators, non-ASCII digits
        "+1600000000", " 1600000000", "1600000000 ", "1_500_000_000", "\uff11\uff16\uff10\uff10\uff10\uff10\uff10\uff10\uff10\uff10",
        "\u0661\u0666\u0660\u0660\u0660\u0660\u0660\u0660\u0660\u0660", "1600000000\n"]
KINDS = [1, 1, 1, 7, 19999, 20000, 20001, 29999, 30000, 10002, 5, 0, 4, 6, 40000]
AUTH = gen.AUTHORS[2:4]


def well_formed_ts(v):
    return isinstance(v, str) and v.isascii() and v.isdigit()


def expirations(ev):
    return [t[1] for t in ev["tags"] if len(t) >= 2 and t[0] == "expiration"]


def should_collect(ev, now):
    if 20000 <= ev["kind"] < 30000:
        return True
    return any(well_formed_ts(v) and int(v) < now for v in expirations(ev))


def may_collect(ev, now):
    """the property's 'nothing else': ephemeral, or a well-formed expiration earlier than now"""
    return should_collect(ev, now)


def gen_store(rng):
    evs = []
    for i in range(rng.randint(3, 14)):
        e = gen.gen_event(rng, authors=AUTH, kinds=KINDS, times=[gen.T0, gen.T0 + 1, gen.T0 + 2])
        e["tags"] = [t for t in e["tags"] if t and t[0] not in ("expiration", "d", "e")]
        r = rng.random()
        if r < 0.6:
            e["tags"].append(["expiration", rng.choice(EXPS)])
        if r < 0.08:
            e["tags"].append(["expiration", rng.choice(EXPS)])
        e["id"] = "%02x" % i + e["id"][2:]
        evs.append(e)
    return evs


def string_rule(ev, backend, now):
    """the recorded finding, exactly: expirations are compared as byte strings with str(now) (LMDB: a range walk of the tag
    index from the value "0"; SQL: tags.value < 'now')"""
    hi = str(now).encode()
    for v in expirations(ev):
        if not isinstance(v, str):
            continue
        b = v.encode("utf-8", "surrogatepass")
        if b < hi and (backend == "sql" or b >= b"0"):
            return True
    return False


def classify(ev, backend, was_removed=None, now=None):
    """the open class covers an outcome only when it is the one the string comparison produces; any other wrong outcome for an
    odd expiration value is a different violation"""
    vals = expirations(ev)
    if any(not (well_formed_ts(v) and len(v) == len(str(T))) for v in vals):
        if was_removed is None or was_removed == ((20000 <= ev["kind"] < 30000) or string_rule(ev, backend, now)):
            return "gc-expiration-string-compare-" + backend
    return None


def run_case(report, drv, store, evs, now, tag):
    store.reset()
    lines = [{"op": "kv.reset"}] if store.backend == "kv" else [{"op": "sql.reset"}]
    expect = ["ok"]
    by_id = {}
    in_model = True
    for n in evs:
        res = store.add(n)
        by_id.setdefault(n["id"], n)
        me = model_event(n)
        if me is None:
            in_model = False
        if in_model:
            if store.backend == "kv":
                if not (20000 <= n["kind"] < 30000):
                    lines.append({"op": "kv.task", "task": {"t": "add", "ev": me}})
                    expect.append(None)
            else:
                lines.append({"op": "sql.add", "ev": me})
                expect.append(None)
    before = store.ids()
    store.gc(now)
    after = store.ids()
    if in_model:
        if store.backend == "kv":
            lines.append({"op": "kv.gc", "now": now})
            expect.append("IDS")
        else:
            lines.append({"op": "sql.gc", "now": now})
            expect.append(None)
            lines.append({"op": "sql.dump"})
            expect.append(store.dump())
    got = drv.batch(lines)
    if in_model and store.backend == "kv":
        ids = got[-1]
        more = [{"op": "kv.task", "task": {"t": "del", "id": i}} for i in ids] + [{"op": "kv.dump"}]
        got2 = drv.batch(more)
        if got2[-1] != store.dump():
            report.correspondence_break("kv.KVGarbageCollector.collect", {"backend": "kv", "events": evs, "now": now},
                                        {"stored": sorted(after)}, {"queued": ids})
    elif in_model:
        for i, (g, e) in enumerate(zip(got, expect)):
            if e is not None and g != e:
                report.correspondence_break("db.QueryGarbageCollector.collect", {"backend": "sql", "events": evs, "now": now},
                                            {"stored": sorted(after)}, {"model_events": g.get("events") if isinstance(g, dict) else g})
                break
    payload = {"backend": store.backend, "events": evs, "now": now}
    removed = before - after
    for i in before:
        ev = by_id.get(i)
        if ev is None:
            continue
        if i in removed and not may_collect(ev, now):
            report.property_failure(
                "%s: GC at %d removed %s (kind %d, expiration %r) which is neither ephemeral nor expired"
                % (store.backend, now, i[:8], ev["kind"], expirations(ev)), payload, classify(ev, store.backend, True, now))
        if i not in removed and should_collect(ev, now):
            cls = classify(ev, store.backend, False, now)
            report.property_failure(
                "%s: GC at %d kept %s (kind %d, expiration %r) which is ephemeral or expired"
                % (store.backend, now, i[:8], ev["kind"], expirations(ev)), payload, cls)
    if store.backend == "kv":
        # index entries go with the record
        class _I:
            pass
        bad = coherence_violations(_KVView(store))
        if bad:
            report.property_failure("kv: keyspace incoherent after GC: %r" % (bad[:2],), payload, None)
    else:
        d = store.dump()
        have = set(d["events"])
        orphans = [t for t in d["tags"] if t.split("|")[0] not in have]
        if orphans:
            report.property_failure("sql%s: the pass at %d left %d tag-index rows of removed events behind (e.g. %s)"
                                    % (" (pass overlapping a streaming reader)" if getattr(store, "gc_overlap", False) else "",
                                       now, len(orphans), orphans[0][:90]), {**payload, "overlap": getattr(store, "gc_overlap", False)}, None)
        if getattr(store, "gc_overlap", False):
            report.count("passes_sql_overlapping_reader")
    report.case((store.backend, tag, now, repr([(e["kind"], expirations(e)) for e in evs])), nontrivial=bool(removed),
                sample={"backend": store.backend, "now": now, "events": [(e["kind"], expirations(e)) for e in evs[:8]],
                        "removed": len(removed)})
    report.count("passes_" + store.backend)
    report.count("removed_" + store.backend, len(removed))


def two_pass_case(report, drv, store, rng, tag):
    """a long-lived collector (as in the running relay) makes two passes; between them events arrive, some of which
    had already expired before the first pass (late arrival), some expire between the passes, some later"""
    store.reset()
    coll = store.new_collector()
    now1, now2 = T - 1000, T
    by_id, evs_all = {}, []
    lines = [{"op": "kv.reset"}] if store.backend == "kv" else [{"op": "sql.reset"}]

    def add(evs):
        for n in evs:
            store.add(n)
            by_id.setdefault(n["id"], n)
            evs_all.append(n)
            me = model_event(n)
            if store.backend == "kv":
                lines.append({"op": "kv.task", "task": {"t": "add", "ev": me}})
            else:
                lines.append({"op": "sql.add", "ev": me})

    def mk(i, exp):
        e = gen.gen_event(rng, authors=AUTH, kinds=[1, 7], times=[gen.T0 - 5000 + i])
        e["tags"] = [] if exp is None else [["expiration", str(exp)]]
        e["id"] = "%02x" % i + e["id"][2:]
        return e

    first = [mk(i, rng.choice([now1 - 500, now1 - 1, now1, now1 + 1, now1 + 400, now2 + 50, None])) for i in range(rng.randint(2, 6))]
    add(first)
    store.gc(now1, coll)
    mid = set(store.ids())
    second = [mk(20 + i, rng.choice([now1 - 700, now1 - 2, now1, now1 + 3, now2 - 1, now2, now2 + 1, None])) for i in range(rng.randint(2, 6))]
    add(second)
    store.gc(now2, coll)
    after = set(store.ids())
    payload = {"backend": store.backend, "first": first, "pass1": now1, "second": second, "pass2": now2}
    for n in first:
        if should_collect(n, now1) and n["id"] in mid:
            report.property_failure("%s: pass at %d kept %s.. (expiration %r)" % (store.backend, now1, n["id"][:8], expirations(n)), payload, None)
        if not may_collect(n, now1) and n["id"] not in mid:
            report.property_failure("%s: pass at %d removed %s.. (expiration %r)" % (store.backend, now1, n["id"][:8], expirations(n)), payload, None)
    for n in evs_all:
        if should_collect(n, now2) and n["id"] in after:
            report.property_failure("%s: second pass of a long-lived collector at %d kept %s.. whose expiration %r is earlier than the pass"
                                    % (store.backend, now2, n["id"][:8], expirations(n)), payload, None)
        if not may_collect(n, now2) and n["id"] not in after:
            report.property_failure("%s: second pass at %d removed %s.. (expiration %r)" % (store.backend, now2, n["id"][:8], expirations(n)), payload, None)
    report.case((store.backend, "two-pass", tag, repr([expirations(e) for e in evs_all])), nontrivial=len(after) < len(evs_all),
                sample={"backend": store.backend, "two_pass": True, "stored": len(evs_all), "left": len(after)})
    report.count("two_pass_" + store.backend)


class _KVView:
    """adapter giving props.c10.coherence_violations what it needs from a KVStore"""

    def __init__(self, store):
        self.store = store

    def dump(self):
        return self.store.dump()

    def stored(self):
        kv = self.store.kv
        out = {}
        with self.store.env.begin(buffers=True) as txn:
            for k, v in txn.cursor().iternext():
                k = bytes(k)
                if k[:1] == b"\x00":
                    out[k[1:].hex()] = kv.decode_event(kv.unpackb(bytes(v), use_list=False))
        return out


def run(report, tier, seed):
    rng = random.Random(seed)
    drv = common.Driver()
    # a third store: SQLite on a file (a real connection pool), its passes overlapping a reader that holds a connection
    fdir = common.scratch_dir("nrc17-")
    overlapped = SQLStore(url="sqlite+aiosqlite:///%s/gc.sqlite3" % fdir)
    overlapped.gc_overlap = True
    stores = [KVStore(), SQLStore(), overlapped]
    report.coverage["rule"] = (
        "stores of 3-14 events with kinds 1/7/19999/20000/20001/29999/30000/10002 and expiration tags T-1, T, T+1, 1, "
        "999, 11-digit far future, malformed ('1700abc', '', ' 1700000000', '-5', leading zero), two expiration tags; a "
        "pass at T-1 / T / T+1; two passes of one long-lived collector with events arriving in between (also already expired "
        "ones); both backends, SQL also on a file-backed database with the pass overlapping a reader that holds a pooled "
        "connection (tag rows must go with their events on whichever connection the pass gets); non-trivial = the pass removed something")
    report.assumptions += ["clock: `time` of the storage module replaced by a constant",
                           "LMDB: ephemeral kinds are never stored through add_event (they are only broadcast)"]
    try:
        for e in report.known:
            r = common.load_finding_replay(e)
            for st in stores:
                if st.backend == r["backend"]:
                    run_case(report, drv, st, r["events"], r["now"], "finding:" + e["id"])
        for i in range(12 if tier == "quick" else 300):
            for st in stores:
                if st is overlapped and i % 3:
                    continue
                two_pass_case(report, drv, st, rng, i)
        for i in range(80 if tier == "quick" else 2000):
            evs = gen_store(rng)
            now = T + rng.choice([-1, 0, 0, 1])
            for st in stores:
                if st is overlapped and i % 4:
                    continue
                run_case(report, drv, st, evs, now, i)
    finally:
        for st in stores:
            st.close()
        drv.close()
        import shutil

        shutil.rmtree(fdir, ignore_errors=True)


def replay(report, path):
    import json

    data = json.load(open(path))
    drv = common.Driver()
    stores = {"kv": KVStore(), "sql": SQLStore()}
    fdir = common.scratch_dir("nrc17-")
    try:
        for it in (data.get("violations") or []) + (data.get("correspondence_breaks") or []):
            r = it.get("replay") or it.get("input")
            if r.get("overlap") and "sql-overlap" not in stores:
                stores["sql-overlap"] = SQLStore(url="sqlite+aiosqlite:///%s/gc.sqlite3" % fdir)
                stores["sql-overlap"].gc_overlap = True
            if "backend" in r:
                run_case(report, drv, stores["sql-overlap" if r.get("overlap") else r["backend"]], r["events"], r["now"], "replay")
    finally:
        for st in stores.values():
            st.close()
        drv.close()
