"""
C17 — garbage collection removes expired and ephemeral events and nothing else.
Tie: real QueryGarbageCollector.collect (SQLite) and KVGarbageCollector.collect + the queued deletions
(LMDB) under an injected clock vs the Lean models (`gcSql`, `gcCollect` + `del` tasks); α = stored ids /
full key list after the pass.  Search: removed = exactly {ephemeral kinds} ∪ {events whose expiration is a
well-formed timestamp earlier than T}; nothing without expiration, with a future or malformed expiration
goes; index entries go with the record.  The passes are also run the way the relay runs them — one collector object under
its periodic loop — with passes that fail mid-way (locked database, failing statement, engine errors, failing queued
deletions) followed by unobstructed ones, which must be as exact as any other pass.  And the same points in time are stored in
several spellings side by side (JSON string, JSON integer, number with a fraction, strings with blanks, booleans, null): whether an
event has expired does not depend on the JSON type that carried its timestamp.
"""
import random

from lib import common, gen
from lib.hist import KVStore, SQLStore
from lib.kvimpl import model_event
from props.c10 import coherence_violations

THEOREMS_TIED = ["C17_sql_gc_exact", "C17_sql_gc_keeps_unexpiring", "C17_sql_gc_removes_ephemeral", "C17_kv_gc_sound",
                 "C17_kv_gc_coherent"]

T = 1700000001
EXPS = [str(T - 1), str(T), str(T + 1), "1", "999", "1699999999", "17000000000", "99999999999", "1700abc", "1600abc", "abc", "",
        "0", "01700000000", " 1700000000", "1700000000.5", "-5",
        # not timestamps, although Python's int() would take them: sign, blanks, digit separators, non-ASCII digits
        "+1600000000", " 1600000000", "1600000000 ", "1_500_000_000", "\uff11\uff16\uff10\uff10\uff10\uff10\uff10\uff10\uff10\uff10",
        "\u0661\u0666\u0660\u0660\u0660\u0660\u0660\u0660\u0660\u0660", "1600000000\n"]
KINDS = [1, 1, 1, 7, 19999, 20000, 20001, 29999, 30000, 10002, 5, 0, 4, 6, 40000]
AUTH = gen.AUTHORS[2:4]


def well_formed_ts(v):
    return isinstance(v, str) and v.isascii() and v.isdigit()


def expirations(ev):
    return [t[1] for t in ev["tags"] if len(t) >= 2 and t[0] == "expiration"]


def spelled(v):
    """the value of an expiration tag as the text it stands for.  NIP-40 writes the timestamp as a JSON string, but JSON has
    numbers, clients publish them and so does the relay's own test-suite (test_main.test_expiration_tag): the JSON integer n IS
    the timestamp "n" -- the property speaks of the expiration of an event, not of the JSON type that carried it.  A JSON number
    with a fraction or an exponent is given its shortest decimal text (which is not a row of digits: see numeric_reading); every
    other value (strings of course, booleans, null) is taken as it is."""
    if isinstance(v, bool):
        return v
    if isinstance(v, int):
        return str(v)
    if isinstance(v, float) and v == v and abs(v) != float("inf"):
        return repr(v)
    return v


def numeric_reading(v):
    """values that are not well-formed timestamps and yet denote a number under a reading nobody could call wrong: a JSON number
    written with a fraction (1700000000.0, 1699999999.5) and the booleans (in Python, the relay's language, True == 1).  The
    property is not sharp about them, so it grants both outcomes when that number is earlier than the pass (may_collect) and
    forbids the removal when it is not.  Strings get no such reading (" 1700000000", "1700000000.0", "+1600000000" are malformed:
    that was settled with the int()-lenient change of round 8)."""
    if isinstance(v, bool):
        return int(v)
    if isinstance(v, float) and v == v and abs(v) != float("inf"):
        return v
    return None


def should_collect(ev, now):
    if 20000 <= ev["kind"] < 30000:
        return True
    return any(well_formed_ts(v) and int(v) < now for v in map(spelled, expirations(ev)))


def may_collect(ev, now):
    """the property's 'nothing else': ephemeral, or a well-formed expiration earlier than now (or, inside the freedom described
    at numeric_reading, a fractional number / boolean earlier than now)"""
    if should_collect(ev, now):
        return True
    return any(numeric_reading(v) is not None and numeric_reading(v) < now for v in expirations(ev))


def gen_store(rng):
    evs = []
    for i in range(rng.randint(3, 14)):
        e = gen.gen_event(rng, authors=AUTH, kinds=KINDS, times=[gen.T0, gen.T0 + 1, gen.T0 + 2])
        e["tags"] = [t for t in e["tags"] if t and t[0] not in ("expiration", "d", "e")]
        r = rng.random()
        if r < 0.6:
            e["tags"].append(["expiration", rng.choice(EXPS)])
        if r < 0.08:
            e["tags"].append(["expiration", rng.choice(EXPS)])
        e["id"] = "%02x" % i + e["id"][2:]
        evs.append(e)
    return evs


def string_rule(ev, backend, now):
    """the recorded finding, exactly: expirations are compared as byte strings with str(now) (LMDB: a range walk of the tag
    index from the value "0"; SQL: tags.value < 'now')"""
    hi = str(now).encode()
    for v in map(spelled, expirations(ev)):
        if not isinstance(v, str):
            continue
        b = v.encode("utf-8", "surrogatepass")
        if b < hi and (backend == "sql" or b >= b"0"):
            return True
    return False


def classify(ev, backend, was_removed=None, now=None):
    """the open class covers an outcome only when it is the one the string comparison produces; any other wrong outcome for an
    odd expiration value is a different violation"""
    vals = [spelled(v) for v in expirations(ev)]
    if any(not (well_formed_ts(v) and len(v) == len(str(T))) for v in vals):
        if was_removed is None or was_removed == ((20000 <= ev["kind"] < 30000) or string_rule(ev, backend, now)):
            return "gc-expiration-string-compare-" + backend
    return None


def run_case(report, drv, store, evs, now, tag):
    store.reset()
    lines = [{"op": "kv.reset"}] if store.backend == "kv" else [{"op": "sql.reset"}]
    expect = ["ok"]
    by_id = {}
    in_model = True
    for n in evs:
        res = store.add(n)
        by_id.setdefault(n["id"], n)
        me = model_event(n)
        if me is None:
            in_model = False
        if in_model:
            if store.backend == "kv":
                if not (20000 <= n["kind"] < 30000):
                    lines.append({"op": "kv.task", "task": {"t": "add", "ev": me}})
                    expect.append(None)
            else:
                lines.append({"op": "sql.add", "ev": me})
                expect.append(None)
    before = store.ids()
    store.gc(now)
    after = store.ids()
    if in_model:
        if store.backend == "kv":
            lines.append({"op": "kv.gc", "now": now})
            expect.append("IDS")
        else:
            lines.append({"op": "sql.gc", "now": now})
            expect.append(None)
            lines.append({"op": "sql.dump"})
            expect.append(store.dump())
    got = drv.batch(lines)
    if in_model and store.backend == "kv":
        ids = got[-1]
        more = [{"op": "kv.task", "task": {"t": "del", "id": i}} for i in ids] + [{"op": "kv.dump"}]
        got2 = drv.batch(more)
        if got2[-1] != store.dump():
            report.correspondence_break("kv.KVGarbageCollector.collect", {"backend": "kv", "events": evs, "now": now},
                                        {"stored": sorted(after)}, {"queued": ids})
    elif in_model:
        for i, (g, e) in enumerate(zip(got, expect)):
            if e is not None and g != e:
                report.correspondence_break("db.QueryGarbageCollector.collect", {"backend": "sql", "events": evs, "now": now},
                                            {"stored": sorted(after)}, {"model_events": g.get("events") if isinstance(g, dict) else g})
                break
    payload = {"backend": store.backend, "events": evs, "now": now}
    removed = before - after
    for i in before:
        ev = by_id.get(i)
        if ev is None:
            continue
        if i in removed and not may_collect(ev, now):
            report.property_failure(
                "%s: GC at %d removed %s (kind %d, expiration %r) which is neither ephemeral nor expired"
                % (store.backend, now, i[:8], ev["kind"], expirations(ev)), payload, classify(ev, store.backend, True, now))
        if i not in removed and should_collect(ev, now):
            cls = classify(ev, store.backend, False, now)
            report.property_failure(
                "%s: GC at %d kept %s (kind %d, expiration %r) which is ephemeral or expired"
                % (store.backend, now, i[:8], ev["kind"], expirations(ev)), payload, cls)
    if store.backend == "kv":
        # index entries go with the record
        class _I:
            pass
        bad = coherence_violations(_KVView(store))
        if bad:
            report.property_failure("kv: keyspace incoherent after GC: %r" % (bad[:2],), payload, None)
    else:
        d = store.dump()
        have = set(d["events"])
        orphans = [t for t in d["tags"] if t.split("|")[0] not in have]
        if orphans:
            report.property_failure("sql%s: the pass at %d left %d tag-index rows of removed events behind (e.g. %s)"
                                    % (" (pass overlapping a streaming reader)" if getattr(store, "gc_overlap", False) else "",
                                       now, len(orphans), orphans[0][:90]), {**payload, "overlap": getattr(store, "gc_overlap", False)}, None)
        if getattr(store, "gc_overlap", False):
            report.count("passes_sql_overlapping_reader")
    report.case((store.backend, tag, now, repr([(e["kind"], expirations(e)) for e in evs])), nontrivial=bool(removed),
                sample={"backend": store.backend, "now": now, "events": [(e["kind"], expirations(e)) for e in evs[:8]],
                        "removed": len(removed)})
    report.count("passes_" + store.backend)
    report.count("removed_" + store.backend, len(removed))
    return before, after


def two_pass_case(report, drv, store, rng, tag):
    """a long-lived collector (as in the running relay) makes two passes; between them events arrive, some of which
    had already expired before the first pass (late arrival), some expire between the passes, some later"""
    store.reset()
    coll = store.new_collector()
    now1, now2 = T - 1000, T
    by_id, evs_all = {}, []
    lines = [{"op": "kv.reset"}] if store.backend == "kv" else [{"op": "sql.reset"}]

    def add(evs):
        for n in evs:
            store.add(n)
            by_id.setdefault(n["id"], n)
            evs_all.append(n)
            me = model_event(n)
            if store.backend == "kv":
                lines.append({"op": "kv.task", "task": {"t": "add", "ev": me}})
            else:
                lines.append({"op": "sql.add", "ev": me})

    def mk(i, exp):
        e = gen.gen_event(rng, authors=AUTH, kinds=[1, 7], times=[gen.T0 - 5000 + i])
        e["tags"] = [] if exp is None else [["expiration", str(exp)]]
        e["id"] = "%02x" % i + e["id"][2:]
        return e

    first = [mk(i, rng.choice([now1 - 500, now1 - 1, now1, now1 + 1, now1 + 400, now2 + 50, None])) for i in range(rng.randint(2, 6))]
    add(first)
    store.gc(now1, coll)
    mid = set(store.ids())
    second = [mk(20 + i, rng.choice([now1 - 700, now1 - 2, now1, now1 + 3, now2 - 1, now2, now2 + 1, None])) for i in range(rng.randint(2, 6))]
    add(second)
    store.gc(now2, coll)
    after = set(store.ids())
    payload = {"backend": store.backend, "first": first, "pass1": now1, "second": second, "pass2": now2}
    for n in first:
        if should_collect(n, now1) and n["id"] in mid:
            report.property_failure("%s: pass at %d kept %s.. (expiration %r)" % (store.backend, now1, n["id"][:8], expirations(n)), payload, None)
        if not may_collect(n, now1) and n["id"] not in mid:
            report.property_failure("%s: pass at %d removed %s.. (expiration %r)" % (store.backend, now1, n["id"][:8], expirations(n)), payload, None)
    for n in evs_all:
        if should_collect(n, now2) and n["id"] in after:
            report.property_failure("%s: second pass of a long-lived collector at %d kept %s.. whose expiration %r is earlier than the pass"
                                    % (store.backend, now2, n["id"][:8], expirations(n)), payload, None)
        if not may_collect(n, now2) and n["id"] not in after:
            report.property_failure("%s: second pass at %d removed %s.. (expiration %r)" % (store.backend, now2, n["id"][:8], expirations(n)), payload, None)
    report.case((store.backend, "two-pass", tag, repr([expirations(e) for e in evs_all])), nontrivial=len(after) < len(evs_all),
                sample={"backend": store.backend, "two_pass": True, "stored": len(evs_all), "left": len(after)})
    report.count("two_pass_" + store.backend)


# ---- one timestamp, many spellings -----------------------------------------------------------------------------------------
#
# The expiration of an event reaches the collectors through a text index (the `tags` table on SQL, the tag index of the LMDB
# keyspace), but it reaches the relay as whatever JSON value the client put into the tag: a string (NIP-40), a number (what many
# clients and the relay's own tests publish), now and then something else.  Whether an event has expired must not depend on the
# JSON type that carried the timestamp: the stores below hold the same few points in time in several spellings side by side -- the
# string, the JSON integer, the number with a fraction, strings with blanks / sign / leading zero / ".0", booleans, null, next to a
# second expiration tag of another spelling and to numbers under other indexed tag names -- on every kind class, and each pass is
# judged by the one oracle of this file (run_case: removed = exactly ephemeral + well-formed-expired, index entries included)
# plus a clause that needs no oracle at all: events that differ only in how the same timestamp is spelled (string / JSON integer)
# share their fate on each backend.  The two backends' answers on the same events are compared as well and counted.

SPELL_KINDS = [1, 1, 1, 1, 7, 5, 4, 0, 10002, 30000, 40000, 19999, 20000, 29999]


def spell_numbers(now):
    """points in time around the pass and T, long past, far future (also where the recorded string comparison goes wrong)"""
    return [now - 1, now - 1, now, now + 1, now - 2, T - 1000, T + 1000, 1699999999, 1600000000, 1, 999, 0, 17000000000,
            99999999999, -5]


def spell(rng, n):
    """one spelling of the number n (or a value that is no number at all); the first two are the ones clients really send"""
    k = rng.choice(["str", "int", "str", "int", "int", "float", "half", "blank", "text", "bool", "null"])
    if k == "str":
        return str(n)
    if k == "int":
        return n
    if k == "float":
        return float(n)
    if k == "half":
        return n + rng.choice([0.5, -0.5])
    if k == "blank":
        return rng.choice([" %d", "%d ", "\t%d", "%d\n", " %d "]) % n
    if k == "text":
        return rng.choice(["%d.0", "+%d", "0%d", "%d.5", "%de0"]) % n
    if k == "bool":
        return rng.choice([True, False])
    return None


def gen_spelling_store(rng, now):
    evs = []
    for n in rng.sample(spell_numbers(now), rng.randint(2, 4)):
        # the same number as a string and as a JSON integer on the same kind (the pair the no-oracle clause needs), then others
        kind = rng.choice(SPELL_KINDS[:6])
        forms = [(kind, str(n)), (kind, n)] + [(rng.choice(SPELL_KINDS), spell(rng, n)) for _ in range(rng.randint(0, 3))]
        rng.shuffle(forms)
        for kind, v in forms:
            e = gen.gen_event(rng, authors=AUTH, kinds=[kind], times=[gen.T0, gen.T0 + 1, gen.T0 + 2])
            e["tags"] = [t for t in e["tags"] if t and t[0] not in ("expiration", "d", "e")]
            r = rng.random()
            if r < 0.15:
                # a second expiration tag in another spelling, before or after
                e["tags"].insert(rng.randrange(len(e["tags"]) + 1), ["expiration", spell(rng, rng.choice(spell_numbers(now)))])
            elif r < 0.3:
                # a number under another indexed tag name: its index entry has to go with the record like any other
                e["tags"].append([rng.choice(["t", "x", "delegation"]), rng.choice([n, now - 1, 7, 2.5])])
            e["tags"].insert(rng.randrange(len(e["tags"]) + 1), ["expiration", v])
            e["id"] = "%02x" % len(evs) + e["id"][2:]
            evs.append(e)
    return evs


def spelling_case(report, drv, stores, evs, now, tag):
    fate = {}
    by_id = {e["id"]: e for e in evs}
    for st in stores:
        before, after = run_case(report, drv, st, evs, now, ("spelling", tag))
        payload = {"backend": st.backend, "events": evs, "now": now}
        if getattr(st, "gc_overlap", False):
            payload["overlap"] = True
        # same timestamp, same kind class, spelled as a string or as a JSON integer: same fate
        groups = {}
        for i in sorted(before):
            ev = by_id.get(i)
            vals = expirations(ev) if ev else []
            if ev is None or len(vals) != 1 or 20000 <= ev["kind"] < 30000:
                continue
            v = vals[0]
            if (isinstance(v, int) and not isinstance(v, bool)) or well_formed_ts(v):
                groups.setdefault(spelled(v), []).append(i)
        for text, ids in sorted(groups.items()):
            if len({type(expirations(by_id[i])[0]) for i in ids}) < 2:
                continue
            report.count("spelling_pairs_" + st.backend)
            gone = [i for i in ids if i not in after]
            if gone and len(gone) != len(ids):
                kept = [i for i in ids if i in after]
                report.property_failure(
                    "%s: GC at %d removed %s (expiration %r) and kept %s (expiration %r): the same timestamp, spelled as a JSON "
                    "string and as a JSON number" % (st.backend, now, gone[0][:8], expirations(by_id[gone[0]]), kept[0][:8],
                                                     expirations(by_id[kept[0]])), payload, None)
        if not getattr(st, "gc_overlap", False):
            fate[st.backend] = (before, after)
    for ev in evs:
        for v in expirations(ev):
            report.count("spelling_value_" + ("null" if v is None else type(v).__name__))
    if len(fate) == 2:
        # the two backends on the same events (ephemeral kinds are never stored on LMDB): counted; a difference on an event
        # whose fate the property determines is a failure of one of the two and has been reported above
        (b1, a1), (b2, a2) = fate["kv"], fate["sql"]
        for i in sorted(b1 & b2):
            ev = by_id.get(i)
            if ev is None:
                continue
            if (i in a1) == (i in a2):
                report.count("spelling_backends_agree")
            elif should_collect(ev, now) == may_collect(ev, now) and classify(ev, "kv", i not in a1, now) is None \
                    and classify(ev, "sql", i not in a2, now) is None:
                report.count("spelling_backends_differ_on_a_determined_event")
            else:
                report.count("spelling_backends_differ_within_freedom_or_recorded_class")


# ---- passes that fail mid-way, and the passes after them ---------------------------------------------------------------------
#
# In the running relay a collector is one long-lived object whose passes are started by util.Periodic (start() -> _run():
# sleep, run_once(), log and swallow whatever run_once raised, sleep, ...).  A pass can fail for reasons that have nothing to do
# with the events: the database is locked by another process, a statement fails, the engine refuses a transaction or raises in
# the middle of a walk, a queued deletion fails in the writer.  The property is about every pass at time T, so it has to hold for
# the passes that come after such a failure as well: one bad pass must not change what the later ones remove.  The scenarios
# below run the collector exactly that way (the real start() / Periodic._run / run_once; only the sleep between passes — the
# `wait_function` hook Periodic has for it — waits for the harness instead of the clock), put an obstacle in the way of one or
# two passes, take it away and judge the passes that follow by the same oracle as everywhere else in this file.

class _Relayed:
    """one collector object driven by its real periodic loop; `tick(now)` lets exactly one pass run with the clock at `now`"""

    def __init__(self, store, coll):
        import asyncio

        self.store, self.coll = store, coll
        self.mod = store.kv if store.backend == "kv" else store.impl.db
        self.ticks, self.idle = asyncio.Queue(), asyncio.Queue()
        self.ended = None          # set when the periodic loop itself ended (it must not: nothing would ever be collected again)
        self.last_raised = None
        inner = coll.run_once

        async def observed():      # observation only: what escaped run_once is passed on unchanged to Periodic._run
            try:
                return await inner()
            except Exception as e:
                self.last_raised = "%s: %s" % (type(e).__name__, " ".join(str(e).split())[:100])
                raise

        async def wait_function():
            self.idle.put_nowait(None)
            await self.ticks.get()

        coll.run_once = observed
        coll.wait_function = wait_function
        store.run(coll.start())
        store.run(self._until_idle())

    async def _until_idle(self):
        import asyncio

        if self.ended is not None:
            return
        getter = asyncio.ensure_future(self.idle.get())
        done, _ = await asyncio.wait({getter, self.coll._task}, timeout=120, return_when=asyncio.FIRST_COMPLETED)
        if getter in done:
            return
        getter.cancel()
        if self.coll._task in done:
            exc = None if self.coll._task.cancelled() else self.coll._task.exception()
            self.ended = "periodic loop ended (%s)" % (type(exc).__name__ if exc else "returned")
            return
        raise RuntimeError("C17 harness: a collection pass did not come back within 120 s")

    def tick(self, now):
        """one pass at `now`; returns what escaped run_once (None = the pass returned normally)"""
        self.last_raised = None
        if self.ended is not None:
            return self.ended
        orig = self.mod.time
        self.mod.time = lambda: now
        try:
            self.ticks.put_nowait(now)
            self.store.run(self._until_idle())
        finally:
            self.mod.time = orig
        if self.store.backend == "kv":
            self.store.quiesce()           # the writer works off the deletions the pass queued
        return self.last_raised

    def stop(self):
        try:
            self.store.run(self.coll.stop())
        except Exception:
            pass


class _Obstacle:
    """something that makes a pass fail, described by a small dict (so that it can be replayed):
      sql  {"kind": "lock"}                       another connection holds SQLite's write lock (file-backed database only)
      sql  {"kind": "statement", "when": w, "k"}  the k-th statement of the pass fails, before / after the engine ran it
      kv   {"kind": "begin"}                      the engine refuses the pass's transaction (readers table full, map resized ...)
      kv   {"kind": "seek", "k"}                  the k-th positioning of a cursor raises
      kv   {"kind": "walk", "k"}                  the k-th key handed out by a cursor walk raises
      kv   {"kind": "writer", "k"}                the k-th put/delete of the writer working off the queued deletions raises
    `reached` tells afterwards whether the pass ran into it at all."""

    def __init__(self, store, spec):
        self.store, self.spec, self.reached = store, spec, False
        self._undo = []

    def __enter__(self):
        kind, st = self.spec["kind"], self.store
        if st.backend == "sql":
            if kind == "lock":
                import sqlite3

                blocker = sqlite3.connect(st.dbfile, timeout=0.05, isolation_level=None)
                blocker.execute("BEGIN IMMEDIATE")
                self.reached = True
                self._undo.append(lambda: (blocker.execute("ROLLBACK"), blocker.close()))
            else:
                import sqlalchemy as sa

                engine, name, seen = st.storage.db.sync_engine, self.spec["when"] + "_cursor_execute", [0]

                def hook(conn, cursor, statement, parameters, context, executemany):
                    word = statement.split(None, 1)[0].upper() if statement.strip() else ""
                    if word in ("PRAGMA", "BEGIN", "COMMIT", "ROLLBACK", "SAVEPOINT", "RELEASE"):
                        return
                    seen[0] += 1
                    if seen[0] == self.spec["k"]:
                        self.reached = True
                        raise RuntimeError("injected: statement %d of the pass fails (%s)" % (seen[0], word))

                sa.event.listen(engine, name, hook)
                self._undo.append(lambda: sa.event.remove(engine, name, hook))
        else:
            lmdb = st.kv.lmdb
            if kind == "begin":
                orig = lmdb.Environment.begin

                def begin(env, *a, **k):
                    if env is st.env and not k.get("write") and not self.reached:
                        self.reached = True
                        raise lmdb.Error("injected: the engine refuses a read transaction")
                    return orig(env, *a, **k)

                lmdb.Environment.begin = begin
                self._undo.append(lambda: setattr(lmdb.Environment, "begin", orig))
            elif kind == "seek":
                orig, seen = lmdb.Cursor.set_range, [0]

                def set_range(cur, key):
                    seen[0] += 1
                    if seen[0] == self.spec["k"]:
                        self.reached = True
                        raise lmdb.Error("injected: cursor positioning fails")
                    return orig(cur, key)

                lmdb.Cursor.set_range = set_range
                self._undo.append(lambda: setattr(lmdb.Cursor, "set_range", orig))
            elif kind == "walk":
                orig, seen = lmdb.Cursor.iternext, [0]

                def iternext(cur, *a, **k):
                    for item in orig(cur, *a, **k):
                        seen[0] += 1
                        if seen[0] == self.spec["k"]:
                            self.reached = True
                            raise lmdb.Error("injected: the engine raises in the middle of a walk")
                        yield item

                lmdb.Cursor.iternext = iternext
                self._undo.append(lambda: setattr(lmdb.Cursor, "iternext", orig))
            else:
                lmdb.FAULT = {"countdown": self.spec["k"], "exc": lmdb.Error}

                def undo():
                    self.reached = bool(lmdb.FAULT) and lmdb.FAULT["countdown"] <= 0
                    lmdb.FAULT = None

                self._undo.append(undo)
        return self

    def __exit__(self, *exc):
        while self._undo:
            self._undo.pop()()
        return False


def gen_failed_pass_plan(rng, store):
    """a replayable description of one scenario: events, an optional clean pass, one or two obstructed passes, late arrivals,
    then two or three unobstructed passes of the same collector"""
    def batch(base):
        evs = gen_store(rng)
        for i, e in enumerate(evs):
            e["id"] = "%02x" % (base + i) + e["id"][2:]
        # make sure something is collectable on either backend whatever the draw (LMDB never stores ephemeral kinds)
        e = gen.gen_event(rng, authors=AUTH, kinds=[1, 7], times=[gen.T0])
        e["tags"] = [["expiration", str(T - rng.choice([2, 50, 100000]))]]
        e["id"] = "%02x" % (base + len(evs)) + e["id"][2:]
        evs.insert(rng.randrange(len(evs) + 1), e)
        return evs

    if store.backend == "sql":
        kinds = ["statement", "statement"] + (["lock", "lock"] if getattr(store, "dbfile", None) else [])
        kind = rng.choice(kinds)
        obstacle = {"kind": "lock"} if kind == "lock" else {"kind": "statement", "when": rng.choice(["before", "after"]), "k": 1}
    else:
        kind = rng.choice(["begin", "seek", "walk", "writer"])
        obstacle = {"kind": kind}
        if kind != "begin":
            obstacle["k"] = rng.choice([1, 2]) if kind == "seek" else rng.choice([1, 1, 2, 3])
    t_fail = T + rng.choice([-1, 0])
    later = sorted(rng.choice([t_fail, T, T + 1]) for _ in range(rng.choice([2, 3])))
    return {"scenario": "failed-pass", "backend": store.backend, "file": bool(getattr(store, "dbfile", None)),
            "first": batch(0), "clean_pass_before": rng.choice([None, None, T - 1000]), "obstacle": obstacle,
            "failing_passes": [t_fail] * rng.choice([1, 1, 2]), "late": batch(0x80) if rng.random() < 0.5 else [],
            "passes_after": [max(t, t_fail) for t in later]}


def failed_pass_case(report, store, plan, tag):
    store.reset()
    by_id = {}
    for n in plan["first"] + plan["late"]:
        by_id.setdefault(n["id"], n)
    obstacle = plan["obstacle"]
    name = "%s %s" % (store.backend, obstacle["kind"])
    relay = _Relayed(store, store.new_collector())
    payload = dict(plan)

    def nothing_else(before, after, now, what):
        for i in sorted(before - after):
            ev = by_id.get(i)
            if ev is not None and not may_collect(ev, now):
                report.property_failure("%s: %s at %d removed %s (kind %d, expiration %r) which is neither ephemeral nor expired"
                                        % (name, what, now, i[:8], ev["kind"], expirations(ev)), payload,
                                        classify(ev, store.backend, True, now))
        for i in sorted(after - before):
            report.property_failure("%s: %s at %d made %s appear" % (name, what, now, i[:8]), payload, None)

    def everything_due(after, now, what):
        for i in sorted(after):
            ev = by_id.get(i)
            if ev is not None and should_collect(ev, now):
                report.property_failure("%s: %s kept %s (kind %d, expiration %r) which is ephemeral or expired at %d"
                                        % (name, what, i[:8], ev["kind"], expirations(ev), now), payload,
                                        classify(ev, store.backend, False, now))

    def index_rows(what):
        if store.backend == "kv":
            bad = coherence_violations(_KVView(store))
            if bad:
                report.property_failure("%s: keyspace incoherent after %s: %r" % (name, what, bad[:2]), payload, None)
        else:
            d = store.dump()
            have = set(d["events"])
            orphans = [t for t in d["tags"] if t.split("|")[0] not in have]
            if orphans:
                report.property_failure("%s: %s left %d tag-index rows of removed events behind (e.g. %s)"
                                        % (name, what, len(orphans), orphans[0][:90]), payload, None)

    try:
        for n in plan["first"]:
            store.add(n)
        if plan["clean_pass_before"] is not None:
            now = plan["clean_pass_before"]
            before = store.ids()
            raised = relay.tick(now)
            after = store.ids()
            if raised:
                report.property_failure("%s: an unobstructed pass at %d did not complete: %s" % (name, now, raised), payload, None)
            nothing_else(before, after, now, "the pass")
            everything_due(after, now, "the pass at %d" % now)
        reached = escaped = 0
        for now in plan["failing_passes"]:
            before = store.ids()
            with _Obstacle(store, obstacle) as ob:
                raised = relay.tick(now)
            reached += bool(ob.reached)
            escaped += bool(raised)
            # a pass that failed may have done part of its work or none of it; what it did must still be "nothing else"
            nothing_else(before, store.ids(), now, "the obstructed pass")
            index_rows("the obstructed pass at %d" % now)
        for n in plan["late"]:
            store.add(n)
        due_before = {i for i in store.ids() if i in by_id and should_collect(by_id[i], plan["passes_after"][-1])}
        removed = 0
        for j, now in enumerate(plan["passes_after"]):
            before = store.ids()
            raised = relay.tick(now)
            after = store.ids()
            removed += len(before - after)
            if raised:
                report.property_failure("%s: pass %d after the obstacle was gone (at %d) did not complete: %s"
                                        % (name, j + 1, now, raised), payload, None)
            nothing_else(before, after, now, "pass %d after the obstructed one" % (j + 1))
        # the statement of the property, after the last of the unobstructed passes (not after the first: a collector that
        # waits one interval after a failure would be within the property)
        what = "%d unobstructed passes of the same collector after %d pass(es) that failed (%s)" % (
            len(plan["passes_after"]), len(plan["failing_passes"]), obstacle["kind"])
        everything_due(store.ids(), plan["passes_after"][-1], what)
        index_rows(what)
    finally:
        relay.stop()
    report.case((store.backend, "failed-pass", tag, repr(obstacle), repr([(e["kind"], expirations(e)) for e in plan["first"] + plan["late"]])),
                nontrivial=bool(reached and due_before),
                sample={"backend": store.backend, "failed_pass": obstacle, "file": plan["file"], "stored": len(by_id),
                        "obstacle_reached": reached, "run_once_raised": escaped, "due_afterwards": len(due_before),
                        "removed_afterwards": removed})
    report.count("failed_pass_%s_%s" % (store.backend, obstacle["kind"]))
    if reached:
        report.count("failed_pass_obstacle_reached_" + store.backend)
    if escaped:
        report.count("failed_pass_run_once_raised_" + store.backend)
    report.count("failed_pass_removed_afterwards_" + store.backend, removed)


class _KVView:
    """adapter giving props.c10.coherence_violations what it needs from a KVStore"""

    def __init__(self, store):
        self.store = store

    def dump(self):
        return self.store.dump()

    def stored(self):
        kv = self.store.kv
        out = {}
        with self.store.env.begin(buffers=True) as txn:
            for k, v in txn.cursor().iternext():
                k = bytes(k)
                if k[:1] == b"\x00":
                    out[k[1:].hex()] = kv.decode_event(kv.unpackb(bytes(v), use_list=False))
        return out


def run(report, tier, seed):
    rng = random.Random(seed)
    drv = common.Driver()
    # a third store: SQLite on a file (a real connection pool), its passes overlapping a reader that holds a connection
    fdir = common.scratch_dir("nrc17-")
    overlapped = SQLStore(url="sqlite+aiosqlite:///%s/gc.sqlite3" % fdir)
    overlapped.gc_overlap = True
    # a fourth one for the passes that fail: file-backed as well, so that another connection can hold the write lock; its own
    # connections give up on a locked database after 50 ms (sqlite3's default is 5 s: same outcome, a hundred times slower)
    lockable = SQLStore(url="sqlite+aiosqlite:///%s/gc-lockable.sqlite3?timeout=0.05" % fdir)
    lockable.dbfile = "%s/gc-lockable.sqlite3" % fdir
    stores = [KVStore(), SQLStore(), overlapped, lockable]
    report.coverage["rule"] = (
        "stores of 3-14 events with kinds 1/7/19999/20000/20001/29999/30000/10002 and expiration tags T-1, T, T+1, 1, "
        "999, 11-digit far future, malformed ('1700abc', '', ' 1700000000', '-5', leading zero), two expiration tags; a "
        "pass at T-1 / T / T+1; two passes of one long-lived collector with events arriving in between (also already expired "
        "ones); both backends, SQL also on a file-backed database with the pass overlapping a reader that holds a pooled "
        "connection (tag rows must go with their events on whichever connection the pass gets); non-trivial = the pass removed something; "
        "passes that fail mid-way: one collector object run by its real periodic loop (start / Periodic._run / run_once, only the "
        "sleep replaced), an optional clean pass, one or two passes with an obstacle (SQL: the write lock held by another "
        "connection of a file-backed database, the statement failing before / after the engine ran it; LMDB: the read transaction "
        "refused, a cursor positioning or the k-th step of a walk raising, the k-th put/delete of the queued deletions raising in "
        "the writer), late arrivals, then two or three unobstructed passes of the same object: each pass removes nothing else, "
        "after the last one everything due is gone, index rows included; non-trivial = the obstacle was reached and something was due; "
        "one timestamp in many spellings: stores of 4-20 events holding 2-4 points in time (around the pass, long past, far future) "
        "each as a JSON string AND as a JSON integer on the same kind, plus numbers with a fraction, strings with blanks / sign / "
        "leading zero / '.0', booleans, null, a second expiration tag of another spelling, numbers under other indexed tag names, on "
        "kinds 1/7/5/4/0/10002/30000/40000/19999/20000/29999, both backends (SQL also file-backed with an overlapping reader): the "
        "JSON integer n is the timestamp 'n' (same oracle), string and integer spellings of one timestamp share their fate on each "
        "backend, fractional numbers and booleans earlier than the pass may go or stay (granted freedom), the two backends' "
        "answers on the same events are counted")
    report.assumptions += ["clock: `time` of the storage module replaced by a constant",
                           "LMDB: ephemeral kinds are never stored through add_event (they are only broadcast)"]
    try:
        for e in report.known:
            r = common.load_finding_replay(e)
            for st in stores[:3]:
                if st.backend == r["backend"]:
                    run_case(report, drv, st, r["events"], r["now"], "finding:" + e["id"])
        for i in range(12 if tier == "quick" else 300):
            for st in stores[:3]:
                if st is overlapped and i % 3:
                    continue
                two_pass_case(report, drv, st, rng, i)
        for i in range(80 if tier == "quick" else 2000):
            evs = gen_store(rng)
            now = T + rng.choice([-1, 0, 0, 1])
            for st in stores[:3]:
                if st is overlapped and i % 4:
                    continue
                run_case(report, drv, st, evs, now, i)
        # passes that fail mid-way and the passes of the same collector after them (every kind of obstacle several times)
        for i in range(16 if tier == "quick" else 400):
            for st in (stores[0], stores[1], lockable):
                failed_pass_case(report, st, gen_failed_pass_plan(rng, st), i)
        # one timestamp, many spellings (after the other families, so that their draws are what they were)
        for i in range(40 if tier == "quick" else 1000):
            now = T + rng.choice([-1, 0, 0, 1])
            spelling_case(report, drv, stores[:2] + ([overlapped] if i % 4 == 0 else []), gen_spelling_store(rng, now), now, i)
    finally:
        for st in stores:
            st.close()
        drv.close()
        import shutil

        shutil.rmtree(fdir, ignore_errors=True)


def replay(report, path):
    import json

    data = json.load(open(path))
    drv = common.Driver()
    stores = {"kv": KVStore(), "sql": SQLStore()}
    fdir = common.scratch_dir("nrc17-")
    try:
        for it in (data.get("violations") or []) + (data.get("correspondence_breaks") or []):
            r = it.get("replay") or it.get("input")
            if r.get("overlap") and "sql-overlap" not in stores:
                stores["sql-overlap"] = SQLStore(url="sqlite+aiosqlite:///%s/gc.sqlite3" % fdir)
                stores["sql-overlap"].gc_overlap = True
            if r.get("scenario") == "failed-pass":
                if r["backend"] == "sql" and r.get("file") and "sql-lockable" not in stores:
                    stores["sql-lockable"] = SQLStore(url="sqlite+aiosqlite:///%s/gc-lockable.sqlite3?timeout=0.05" % fdir)
                    stores["sql-lockable"].dbfile = "%s/gc-lockable.sqlite3" % fdir
                failed_pass_case(report, stores["sql-lockable" if r["backend"] == "sql" and r.get("file") else r["backend"]], r, "replay")
            elif "backend" in r and "events" in r:
                run_case(report, drv, stores["sql-overlap" if r.get("overlap") else r["backend"]], r["events"], r["now"], "replay")
    finally:
        for st in stores.values():
            st.close()
        drv.close()
        import shutil

        shutil.rmtree(fdir, ignore_errors=True)
