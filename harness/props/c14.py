"""
C14 — role-based authorization is enforced on every read and write path.
Tie: the real Authenticator.can_do vs the Lean `canDo` on the full matrix of configured action roles x
token roles.  Search through the real web.start_client on both backends: for every (save roles, query
roles, connection identity) an EVENT is stored/broadcast iff the roles intersect 'save' (else OK false
'restricted', no trace), a REQ is served iff they intersect 'query' (else NOTICE 'restricted', no
subscription, no frames); a configured output validator filters stored answers *and* live pushes; role
assignments read back exactly as last set.
"""
import asyncio
import itertools
import random

from lib import common
from lib.proto import Relay, Conn

THEOREMS_TIED = ["C14_canDo_spec", "C14_canDo_disabled", "C14_canDo_closed", "C14_canDo_no_roles", "C14_roles_roundtrip"]

URL = "ws://localhost:6969"


def auth_answer(relay, sk, challenge):
    return relay.signed_event(sk, kind=22242, tags=[["relay", URL], ["challenge", challenge]])


def can_do_matrix(report, drv):
    from nostr_relay import auth

    class _S:
        async def get_auth_roles(self, pk):
            return set("a")

    loop = asyncio.get_event_loop()
    for enabled in (True, False):
        # "" and [] = an action explicitly configured with no role at all (a closed / read-only relay): nobody may
        for action_roles in ("a", "r", "w", "rw", "s", "arws", "", [], None):
            actions = {} if action_roles is None else {"zap": action_roles}
            model_roles = "".join(action_roles) if action_roles is not None else None
            a = auth.Authenticator(_S(), {"enabled": enabled, "actions": actions})
            for tr in ("", "a", "r", "w", "rw", "s", None):
                token = None if tr is None else ({} if tr == "" else {"pubkey": "aa" * 32, "roles": set(tr)})
                got = loop.run_until_complete(a.can_do(token, "zap"))
                eff = "a" if (tr is None or tr == "") else tr
                mv = drv.call({"op": "adm.canDo", "enabled": enabled, "action_roles": model_roles, "token_roles": eff})
                if bool(got) != mv:
                    report.correspondence_break("auth.Authenticator.can_do", {"enabled": enabled, "action": action_roles, "token": tr}, got, mv)
                want = True if (not enabled or action_roles is None) else bool(set(action_roles) & set(eff))
                if bool(got) != want:
                    report.property_failure("can_do(%r roles, action needs %r, enabled=%r) = %r" % (eff, action_roles, enabled, got),
                                            {"case": "can_do"}, None)
                report.case(("can_do", enabled, repr(action_roles), tr), nontrivial=enabled, sample={"action": action_roles, "token": tr, "allowed": got})


# ---------------------------------------------------------------------------------------------------------------------
# PARTIAL configurations of the `actions` mapping
# ---------------------------------------------------------------------------------------------------------------------
# The property speaks of "the roles configured for the action"; the documented configuration lets an operator name only
# the actions he wants to change: an action that the `actions` section does NOT name keeps its default — for the two
# actions the relay itself enforces (save, query) that is the anonymous role 'a' alone — whatever else the section
# names (the other action, read_dm, an action of a plug-in) and however the section is spelled (role letters as a
# string, a list of letters, a Role member; action names as strings or Action members).  So the verdict for one action
# is a function of THAT action's entry only.  A configuration is described symbolically (so that it is its own replay):
#     {"save": letters | None, "query": letters | None, "extra": {other action: letters}, "spelling": str | list | enum,
#      "section": False = no `actions` key at all}
PARTIAL_SAVE = [None, "w", "ws", "a", ""]
PARTIAL_QUERY = [None, "r", "ar", "s", ""]
PARTIAL_EXTRA = [{}, {"read_dm": "s"}, {"zap": "rw", "read_dm": "r"}]
SPELLINGS = ["str", "list", "enum"]
# token role sets: None = unauthenticated, "{}" = an empty token; then explicit assignments — with and WITHOUT the anonymous
# role (a pubkey that was given roles holds exactly those: 'w' alone, 'rws', or nothing at all)
PARTIAL_TOKENS = [None, "{}", "", "a", "r", "w", "s", "rw", "rws", "aw", "arws"]
PROBED_ACTIONS = ["save", "query", "read_dm", "zap"]
DEFAULT_ROLES = {"save": "a", "query": "a"}           # the documented default of the two enforced actions


def build_actions(cfg):
    """the `actions` mapping of a symbolic configuration, in the requested spelling (None = no section at all)"""
    from nostr_relay.auth import Action, Role

    if cfg.get("section") is False:
        return None
    spelling = cfg.get("spelling", "str")
    known_actions = {a.value for a in Action}
    known_roles = {r.value for r in Role}

    def key(name):
        return Action(name) if spelling == "enum" and name in known_actions else name

    def val(letters):
        if spelling == "list":
            return list(letters)
        if spelling == "enum" and letters in known_roles:
            return Role(letters)
        return letters

    entries = [(n, cfg.get(n)) for n in ("save", "query")] + sorted((cfg.get("extra") or {}).items())
    return {key(n): val(r) for n, r in entries if r is not None}


def needed_roles(cfg, action):
    """the statement: the letters one of which a token must hold for `action` (None = the action is not restricted)"""
    own = cfg.get(action) if action in ("save", "query") else (cfg.get("extra") or {}).get(action)
    if own is not None:
        return own
    return DEFAULT_ROLES.get(action)


def describe_config(cfg):
    a = build_actions(cfg)
    return "no `actions` section" if a is None else "actions = %r" % (a,)


def partial_can_do_cell(report, drv, cfg, enabled, tr, action, memo=None):
    """one cell: the real Authenticator (parse_options + can_do) for the configuration, one token, one action"""
    from nostr_relay import auth

    class _S:
        async def get_auth_roles(self, pk):
            return set("a")

    options = {"enabled": enabled, "relay_urls": [URL]}
    actions = build_actions(cfg)
    if actions is not None:
        options["actions"] = actions
    a = auth.Authenticator(_S(), options)
    token = None if tr is None else ({} if tr == "{}" else {"pubkey": "aa" * 32, "roles": set(tr), "now": 0})
    got = asyncio.get_event_loop().run_until_complete(a.can_do(token, action))
    eff = "a" if tr in (None, "{}") else tr
    need = needed_roles(cfg, action)
    mk = (enabled, need, "".join(sorted(eff)))
    if memo is None or mk not in memo:
        mv = drv.call({"op": "adm.canDo", "enabled": enabled, "action_roles": need, "token_roles": eff})
        if memo is not None:
            memo[mk] = mv
    else:
        mv = memo[mk]
    payload = {"case": "can_do_partial", "config": cfg, "enabled": enabled, "token": tr, "action": action}
    if bool(got) != mv:
        report.correspondence_break("auth.Authenticator.parse_options+can_do", payload, got, mv)
    want = True if (not enabled or need is None) else bool(set(need) & set(eff))
    if bool(got) != want:
        configured =(cfg.get(action) is not None) if action in ("save", "query") else action in (cfg.get("extra") or {})
        report.property_failure(
            "can_do(%s, %r) = %r with %s (authentication %s): %r is %s, so a token with roles %r must be %s" % (
                "no token" if tr is None else ("an empty token" if tr == "{}" else "token roles %r" % sorted(tr)), action, got,
                describe_config(cfg), "enabled" if enabled else "disabled", action,
                ("configured with %r" % need) if configured else
                ("not named, it keeps the default %r" % need if need is not None else "not restricted"),
                sorted(eff), "allowed" if want else "refused"), payload, None)
    return got, want, need


def partial_can_do_matrix(report, drv, tier):
    """every subset of {save, query} configured (x other actions named or not x spelling) x token role sets x probed action"""
    memo = {}
    configs = [{"save": None, "query": None, "extra": {}, "spelling": "str", "section": False}]
    configs += [{"save": s, "query": q, "extra": x, "spelling": sp}
                for s in PARTIAL_SAVE for q in PARTIAL_QUERY for x in PARTIAL_EXTRA for sp in SPELLINGS]
    for cfg in configs:
        named = [n for n in ("save", "query") if cfg[n] is not None]
        partial = len(named) < 2 and (bool(named) or bool(cfg["extra"]))
        # authentication disabled: everything is allowed whatever is configured — one spelling is enough for that half
        for enabled in ((True, False) if cfg["spelling"] == "str" else (True,)):
            for tr in PARTIAL_TOKENS:
                for action in PROBED_ACTIONS:
                    got, want, need = partial_can_do_cell(report, drv, cfg, enabled, tr, action, memo)
                    by_default = enabled and action in DEFAULT_ROLES and cfg[action] is None
                    if by_default and partial and not want:
                        report.count("partial_can_do_refused_by_default_roles")
                    report.case(("can_do_partial", enabled, repr(cfg), tr, action), nontrivial=enabled and (by_default or not want),
                                sample={"config": describe_config(cfg), "token": tr, "action": action, "allowed": bool(got)})
        report.count("partial_configs_" + ("partial" if partial else ("full" if len(named) == 2 else "empty")))


def path_case(report, backend, save_roles, query_roles, ident_roles, keys, kind=1, extra=None, spelling="str"):
    """one connection with the given identity (None = unauthenticated) tries EVENT and REQ.
    save_roles / query_roles None = the action is not named in the `actions` section (it keeps its default, the anonymous
    role); extra = other actions the section names; spelling: see build_actions"""
    cfg = {"save": save_roles, "query": query_roles, "extra": extra or {}, "spelling": spelling}
    relay = Relay(backend, authentication={"enabled": True, "relay_urls": [URL], "actions": build_actions(cfg)})
    try:
        sk = keys[0]
        payload = {"backend": backend, "save": save_roles, "query": query_roles, "identity": ident_roles, "kind": kind,
                   "extra": extra or {}, "spelling": spelling}
        partial = save_roles is None or query_roles is None
        # from here on: the letters the statement asks for, and how to say so in a message
        save_roles, query_roles = needed_roles(cfg, "save"), needed_roles(cfg, "query")
        save_says = repr(save_roles) if cfg["save"] is not None else "%r: not named in %s, so the default" % (save_roles, describe_config(cfg))
        query_says = repr(query_roles) if cfg["query"] is not None else "%r: not named in %s, so the default" % (query_roles, describe_config(cfg))
        if ident_roles is not None:
            relay.set_roles(sk.public_key.hex(), ident_roles)
        c = Conn(relay)
        if ident_roles is not None:
            c.send(["AUTH", auth_answer(relay, sk, c.challenge())])
        eff = set(ident_roles.lower()) if ident_roles is not None else set("a")
        # a witness subscription of an all-powerful observer, to see broadcasts
        obs_key = keys[1]
        relay.set_roles(obs_key.public_key.hex(), "arws")
        obs = Conn(relay)
        obs.send(["AUTH", auth_answer(relay, obs_key, obs.challenge())])
        obs.send(["REQ", "watch", {"kinds": [1, 5, 20001, 30000]}])
        n_obs = len(obs.out)
        before = relay.store.ids()
        ev = relay.signed_event(sk, kind=kind, content="hello from %s" % (ident_roles,), tags=[["d", "x"]] if kind == 30000 else [])
        ephemeral = 20000 <= kind < 30000
        n = len(c.out)
        c.send(["EVENT", ev])
        oks = [f for f in c.frames(n) if isinstance(f, list) and f and f[0] == "OK"]
        allowed = bool(eff & set(save_roles))
        stored = ev["id"] in relay.store.ids()
        pushed = any(isinstance(f, list) and f[0] == "EVENT" and f[2]["id"] == ev["id"] for f in obs.frames(n_obs))
        if len(oks) != 1:
            report.property_failure("%s: %d OK frames for one EVENT" % (backend, len(oks)), payload, None)
        elif allowed:
            # with 'query' closed to everybody not even the observer holds a subscription: a broadcast has no witness
            witness = bool(set("arws") & set(query_roles))
            if not (oks[0][2] and (stored or (ephemeral and (pushed or not witness)))):
                report.property_failure("%s: an authorised EVENT (kind %d) was refused or not stored / broadcast: %r" % (backend, kind, oks[0]), payload, None)
        else:
            if oks[0][2] or stored or pushed:
                report.property_failure(
                    "%s: a connection with roles %r (save needs %s) got its kind-%d event %s" % (
                        backend, sorted(eff), save_says, kind,
                        "acknowledged" if oks[0][2] else ("stored" if stored else "broadcast")), payload, None)
            elif "restricted" not in str(oks[0][3]):
                report.property_failure("%s: refusal does not say 'restricted': %r" % (backend, oks[0]), payload, None)
        # REQ
        seed = relay.signed_event(obs_key, kind=1, content="stored before")
        obs.send(["EVENT", seed])
        n = len(c.out)
        c.send(["REQ", "mine", {"kinds": [1]}])
        fr = c.frames(n)
        q_allowed = bool(eff & set(query_roles))
        subs = relay.open_subscriptions()
        mine_open = any("mine" in v for v in subs.values())
        got_events = [f for f in fr if isinstance(f, list) and f[0] == "EVENT"]
        notices = [f for f in fr if isinstance(f, list) and f[0] == "NOTICE"]
        if q_allowed:
            # (with 'save' closed to everybody nothing is stored: the answer is then a bare EOSE)
            have_stored = seed["id"] in relay.store.ids()
            if (have_stored and not got_events) or not any(isinstance(f, list) and f[0] == "EOSE" for f in fr):
                report.property_failure("%s: an authorised REQ was not served: %r" % (backend, fr[:3]), payload, None)
        else:
            if got_events or mine_open:
                report.property_failure("%s: a connection with roles %r (query needs %s) was served %d events / holds a subscription"
                                        % (backend, sorted(eff), query_says, len(got_events)), payload, None)
            elif not any("restricted" in str(x[1]) for x in notices):
                report.property_failure("%s: refused REQ not answered with a 'restricted' NOTICE: %r" % (backend, fr), payload, None)
            # nothing may arrive later either (a refused REQ must not leave a live subscription behind)
            n2 = len(c.out)
            obs.send(["EVENT", relay.signed_event(obs_key, kind=1, content="published later")])
            c.send(["REQ", "junk", {"ids": ["not-hex"]}])
            late = [f for f in c.frames(n2) if isinstance(f, list) and f[0] == "EVENT"]
            if late:
                report.property_failure("%s: events were pushed to a connection whose REQ had been refused" % backend, payload, None)
        c.close()
        obs.close()
        report.case(("path", backend, cfg["save"], cfg["query"], ident_roles, kind, repr(cfg["extra"]), spelling),
                    nontrivial=not (allowed and q_allowed),
                    sample={**payload, "event_ok": oks[0][2] if oks else None, "req_events": len(got_events)})
        report.count("paths_" + backend)
        if partial:
            report.count("paths_partial_config_" + backend)
            if ("a" not in eff) and not (allowed and q_allowed):
                report.count("paths_partial_refused_by_default_roles_" + backend)
    finally:
        relay.close()


def output_validator_case(report, backend, keys):
    """the homeserver recipe's output validator: only whitelisted authors are visible to outsiders"""
    from nostr_relay.config import Config

    w, x = keys[0], keys[1]
    Config.pubkey_whitelist = [w.public_key.hex()]
    relay = Relay(backend, output_validator="nostr_relay.recipe.homeserver.whitelist_output_validator")
    try:
        pub = Conn(relay)
        ew, ex = relay.signed_event(w, content="by whitelisted"), relay.signed_event(x, content="by outsider")
        pub.send(["EVENT", ew])
        pub.send(["EVENT", ex])
        c = Conn(relay)
        n = len(c.out)
        c.send(["REQ", "s", {"kinds": [1]}])
        stored = [f[2]["id"] for f in c.frames(n) if isinstance(f, list) and f[0] == "EVENT"]
        payload = {"backend": backend, "case": "output_validator"}
        if ex["id"] in stored or ew["id"] not in stored:
            report.property_failure("%s: output validator not applied to stored events: %r" % (backend, [s[:6] for s in stored]), payload, None)
        n = len(c.out)
        lw, lx = relay.signed_event(w, content="live by whitelisted"), relay.signed_event(x, content="live by outsider")
        pub.send(["EVENT", lw])
        pub.send(["EVENT", lx])
        live = [f[2]["id"] for f in c.frames(n) if isinstance(f, list) and f[0] == "EVENT"]
        if lx["id"] in live:
            report.property_failure("%s: the output validator is not applied to live pushes: the outsider's event was pushed" % backend,
                                    payload, None)
        if lw["id"] not in live:
            report.property_failure("%s: a permitted event was not pushed live" % backend, payload, None)
        c.close()
        pub.close()
        report.case(("output_validator", backend), nontrivial=True, sample={"stored": len(stored), "live": len(live)})
    finally:
        relay.close()
        Config.pubkey_whitelist = None


def roles_roundtrip(report, backend, rng, keys):
    relay = Relay(backend, authentication={"enabled": True, "relay_urls": [URL], "actions": {"save": "w", "query": "a"}})
    try:
        pks = [k.public_key.hex() for k in keys]
        last = {}
        for i in range(8):
            pk = rng.choice(pks)
            roles = rng.choice(["r", "w", "rw", "RW", "s", "arws", "a", "W"])
            relay.set_roles(pk, roles)
            last[pk] = roles
            for p, r in last.items():
                got = relay.run(relay.storage.get_auth_roles(p))
                if set(got) != set(r.lower()):
                    report.property_failure("%s: roles of %s.. read back as %r after setting %r" % (backend, p[:6], sorted(got), r),
                                            {"backend": backend, "case": "roles"}, None)
        unknown = relay.run(relay.storage.get_auth_roles("ee" * 32))
        if set(unknown) != set("a"):
            report.property_failure("%s: an unknown pubkey has roles %r" % (backend, unknown), {"backend": backend, "case": "roles"}, None)
        report.case(("roles", backend, repr(last)), nontrivial=True, sample={"backend": backend, "assignments": len(last)})
    finally:
        relay.close()


def role_change_case(report, backend, rng, keys):
    """the roles of a pubkey are changed between two authentications (in the same process, within seconds): each new
    authentication must act on the roles as last set — revoked, narrowed, widened"""
    relay = Relay(backend, authentication={"enabled": True, "relay_urls": [URL], "actions": {"save": "w", "query": "r"}})
    try:
        sk = keys[0]
        pk = sk.public_key.hex()
        seq = [rng.choice(["rw", "w", "r"])] + rng.sample(["s", "r", "w", "rw", "z"], 3)
        seeded = False
        for step, roles in enumerate(seq):
            relay.set_roles(pk, roles)
            got = relay.run(relay.storage.get_auth_roles(pk))
            payload = {"backend": backend, "case": "role-change", "sequence": seq, "step": step}
            if set(got) != set(roles):
                report.property_failure("%s: roles of %s.. read back as %r after setting %r" % (backend, pk[:6], sorted(got), roles), payload, None)
            c = Conn(relay)
            c.send(["AUTH", auth_answer(relay, sk, c.challenge())])
            ev = relay.signed_event(sk, kind=1, content="step %d as %s" % (step, roles))
            n = len(c.out)
            c.send(["EVENT", ev])
            oks = [f for f in c.frames(n) if isinstance(f, list) and f and f[0] == "OK"]
            stored = ev["id"] in relay.store.ids()
            may_save = "w" in roles
            if len(oks) != 1 or bool(oks[0][2]) != may_save or stored != may_save:
                report.property_failure(
                    "%s: after the roles of a pubkey were changed %s -> %r and it authenticated again, its EVENT was %s (save needs 'w')"
                    % (backend, " -> ".join(repr(x) for x in seq[:step]) or "(unset)", roles,
                       "accepted" if (oks and oks[0][2]) or stored else "refused"), payload, None)
            seeded = seeded or stored
            n = len(c.out)
            c.send(["REQ", "q", {"kinds": [1]}])
            fr = c.frames(n)
            served = any(isinstance(f, list) and f[0] in ("EVENT", "EOSE") for f in fr)
            may_query = "r" in roles
            if served != may_query:
                report.property_failure(
                    "%s: after the roles of a pubkey were changed %s -> %r and it authenticated again, its REQ was %s (query needs 'r')"
                    % (backend, " -> ".join(repr(x) for x in seq[:step]) or "(unset)", roles, "served" if served else "refused"),
                    payload, None)
            c.close()
            report.case(("role-change", backend, tuple(seq), step), nontrivial=True, sample={"backend": backend, "sequence": seq, "step": step})
            report.count("role_changes_" + backend)
    finally:
        relay.close()


# ---------------------------------------------------------------------------------------------------------------------
# identity sessions: connections whose identity CHANGES while they live, and that re-use what they hold
# ---------------------------------------------------------------------------------------------------------------------
ROLE_ALPHABET = ["r", "w", "rw", "s", "a", "z", "RW", "rs"]
IDSESS_CONFIGS = [("w", "r"), ("ws", "rw"), ("w", "a"), ("a", "r"), ("rw", "s")]
SUB_IDS = ["s0", "s1"]          # a deliberately tiny pool: a REQ very often carries the id of a subscription that is open


def gen_identity_program(rng, pks, steps, save_roles="w", query_roles="r"):
    """a random program for two long-lived connections (same remote address) and the storage behind them: (re-)authentication
    as any of three pubkeys, failed authentication, role assignments in storage, REQ / CLOSE over a tiny pool of
    subscription ids, new events (regular, ephemeral, parameterised replaceable with a tiny pool of d values =
    replacements), re-submissions of earlier events, and publications by a third party (live deliveries).
    Only symbolic steps: events are built when the program runs, so the program is its own replay.
    The generator keeps a rough picture of the session (who holds which roles, which ids are probably open) for one purpose
    only: to steer towards histories in which a connection's verdict CHANGES while it holds something — role sets are drawn
    from both sides of each configured action, and a REQ prefers an id that is probably open."""
    filters = [{"kinds": [1]}, {"kinds": [1, 30000]}, {"kinds": [20001, 30000]}, {"kinds": [1, 20001, 30000], "limit": 10},
               {"kinds": [1, 30000], "authors": [pks[0], pks[1]]}, {"kinds": [1], "authors": [pks[2]]}]

    def pick_roles():
        action = set(rng.choice([save_roles, query_roles, query_roles]))
        side = rng.random() < 0.6
        pool = [r for r in ROLE_ALPHABET if bool(set(r.lower()) & action) == side]
        return rng.choice(pool or ROLE_ALPHABET)

    prog = []
    assigned = {}
    for k in rng.sample(range(3), rng.choice([2, 3])):        # (a pubkey without assignment has the anonymous role)
        assigned[k] = pick_roles()
        prog.append({"op": "roles", "k": k, "roles": assigned[k]})
    holds = {0: None, 1: None}
    tok = {0: "a", 1: "a"}
    probably_open = {0: [], 1: []}
    made = []                                                 # steps that created an event

    def req(c, sub):
        prog.append({"op": "req", "c": c, "sub": sub, "f": [rng.choice(filters)]})
        if set(tok[c]) & set(query_roles):
            if sub not in probably_open[c]:
                probably_open[c].append(sub)
        elif sub in probably_open[c]:
            probably_open[c].remove(sub)

    def auth(c, k):
        prog.append({"op": "auth", "c": c, "k": k})
        holds[c], tok[c] = k, assigned.get(k, "a").lower()
        # the moment that matters: right after its identity has changed the connection re-uses something it holds
        if rng.random() < 0.6:
            y = rng.random()
            if y < 0.55 and probably_open[c]:
                req(c, rng.choice(probably_open[c]))
            elif y < 0.8 and made:
                prog.append({"op": "resend", "c": c, "ref": rng.choice(made)})
            else:
                made.append(len(prog))
                prog.append({"op": "event", "c": c, "k": rng.randrange(3), "kind": 30000, "d": rng.choice("xy")})

    while len(prog) < steps:
        x = rng.random()
        c = rng.randrange(2)
        if x < 0.16:
            auth(c, rng.randrange(3))
        elif x < 0.19:
            prog.append({"op": "auth_bad", "c": c, "k": rng.randrange(3)})
        elif x < 0.29:
            held = [k for k in holds.values() if k is not None]
            k = rng.choice(held) if held and rng.random() < 0.7 else rng.randrange(3)
            assigned[k] = pick_roles()
            prog.append({"op": "roles", "k": k, "roles": assigned[k]})
            # mostly the connection that holds this pubkey authenticates again and so picks the new roles up
            for cc, kk in list(holds.items()):
                if kk == k and rng.random() < 0.6:
                    auth(cc, k)
        elif x < 0.53:
            req(c, rng.choice(probably_open[c]) if probably_open[c] and rng.random() < 0.7 else rng.choice(SUB_IDS))
        elif x < 0.56:
            sub = rng.choice(SUB_IDS)
            prog.append({"op": "close", "c": c, "sub": sub})
            if sub in probably_open[c]:
                probably_open[c].remove(sub)
        elif x < 0.74:
            kind = rng.choice([1, 1, 20001, 30000, 30000])
            made.append(len(prog))
            prog.append({"op": "event", "c": c, "k": rng.randrange(3), "kind": kind, "d": rng.choice("xy")})
        elif x < 0.83 and made:
            prog.append({"op": "resend", "c": c, "ref": rng.choice(made)})
        else:
            made.append(len(prog))
            prog.append({"op": "publish", "kind": rng.choice([1, 1, 20001, 30000]), "d": rng.choice("xy")})
    return prog


def _matches(ev, filters):
    return any(ev["kind"] in f.get("kinds", [ev["kind"]]) and ev["pubkey"] in f.get("authors", [ev["pubkey"]]) for f in filters)


def identity_session(report, backend, save_roles, query_roles, program, keys):
    """runs one program (gen_identity_program) through the real start_client.  Oracle = the property, stated over the
    history: every REQ / EVENT is judged by the roles of the token the connection holds AT THAT MOMENT (the anonymous role
    before the first successful AUTH; the roles its pubkey had in storage when it last authenticated successfully) —
      EVENT: roles ∩ save = ∅  =>  one OK false 'restricted', the event is neither stored nor pushed to anybody by this submission;
             else not 'restricted', and a first submission is stored / broadcast;
      REQ:   roles ∩ query = ∅ =>  NOTICE 'restricted', no stored answer, no EOSE, the connection holds no subscription of that
             id, and nothing is delivered under that id later on either (until an authorised REQ opens it again);
             else served (EOSE, stored matches),
    whatever the connection was allowed to do earlier, whatever it holds already (an open subscription of the same id, an
    event it submitted before).  Where the roles in storage of the held pubkey have changed since the authentication and the
    two role sets give different verdicts, the property text does not decide ('the connection's roles'): not judged."""
    import time
    from aionostr.key import PrivateKey

    relay = Relay(backend, authentication={"enabled": True, "relay_urls": [URL], "actions": {"save": save_roles, "query": query_roles}})
    try:
        pks = [k.public_key.hex() for k in keys]
        obs_key = PrivateKey(bytes([9]) * 32)
        relay.set_roles(obs_key.public_key.hex(), "arws")
        obs = Conn(relay)
        obs.send(["AUTH", auth_answer(relay, obs_key, obs.challenge())])
        obs.send(["REQ", "watch", {"kinds": [1, 20001, 30000]}])
        conns = [Conn(relay), Conn(relay)]
        everybody = conns + [obs]
        base = int(time.time()) - 2000
        stored_roles = {}                       # pubkey -> role set as last assigned
        token = [None, None]                    # per connection: None or (pubkey, role set at authentication)
        ever = [{frozenset("a")}, {frozenset("a")}]      # role sets the connection has held so far (it starts anonymous)
        open_ids = [set(), set()]               # subscription ids open by the specification
        refused = [set(), set()]                # ids whose last REQ was refused: nothing may arrive under them
        events = {}                             # step -> event
        accepted = {}                           # id -> event, acknowledged with OK true
        need = {"save": set(save_roles), "query": set(query_roles)}
        cut_short = False

        def verdict(c, action):
            """(allowed by the token, decided?)"""
            if token[c] is None:
                return bool(set("a") & need[action]), True
            pk, roles = token[c]
            by_token = bool(roles & need[action])
            by_storage = bool(stored_roles.get(pk, set("a")) & need[action])
            return by_token, by_token == by_storage

        def who(c):
            return "connection %d holding roles %r%s" % (
                c, sorted(token[c][1]) if token[c] else ["a"], "" if token[c] else " (unauthenticated)")

        for step, st in enumerate(program):
            op = st["op"]
            payload = {"case": "identity-session", "backend": backend, "save": save_roles, "query": query_roles,
                       "program": program, "step": step}
            marks = [len(x.out) for x in everybody]
            key = None
            if op == "roles":
                relay.set_roles(pks[st["k"]], st["roles"])
                stored_roles[pks[st["k"]]] = set(st["roles"].lower())
                got = relay.run(relay.storage.get_auth_roles(pks[st["k"]]))
                if set(got) != stored_roles[pks[st["k"]]]:
                    report.property_failure("%s: roles of %s.. read back as %r after setting %r"
                                            % (backend, pks[st["k"]][:6], sorted(got), st["roles"]), payload, None)
            elif op in ("auth", "auth_bad"):
                c = st["c"]
                ch = conns[c].challenge()
                conns[c].send(["AUTH", auth_answer(relay, keys[st["k"]], ch if op == "auth" else "00" * 16)])
                said_no = any(isinstance(f, list) and f[0] == "NOTICE" for f in conns[c].frames(marks[c]))
                if op == "auth" and not said_no:
                    pk = pks[st["k"]]
                    new = (pk, set(stored_roles.get(pk, set("a"))))
                    if token[c] is not None and token[c] != new:
                        report.count("idsess_identity_changes")
                    token[c] = new
                    ever[c].add(frozenset(new[1]))
                elif op == "auth":
                    report.count("idsess_valid_auth_answered_with_notice")      # (C15's business; the identity then stays)
            elif op == "req":
                c, sub = st["c"], st["sub"]
                allowed, decided = verdict(c, "query")
                reuse = sub in open_ids[c]
                conns[c].send(["REQ", sub] + st["f"])
                fr = [f for f in conns[c].frames(marks[c]) if isinstance(f, list)]
                answer = [f for f in fr if f[0] in ("EVENT", "EOSE") and f[1] == sub]
                restricted = any(f[0] == "NOTICE" and "restricted" in str(f[1]) for f in fr)
                holds = any(i == sub and getattr(s, "queue", None) is conns[c]._queue
                            for subs in relay.storage.clients.values() for i, s in subs.items())
                how = "%s sent REQ %r%s" % (who(c), sub, " (an id it has open already)" if reuse else "")
                if not decided:
                    report.count("idsess_stale_token_unjudged")
                    allowed = any(f[0] == "EOSE" for f in answer)
                elif allowed:
                    have = [e for e in accepted.values() if e["id"] in relay.store.ids() and _matches(e, st["f"])]
                    if restricted or not any(f[0] == "EOSE" for f in answer) or (have and not any(f[0] == "EVENT" for f in answer)):
                        report.property_failure("%s: %s (query needs %r) and was not served: %r" % (backend, how, query_roles, fr[:3]),
                                                payload, None)
                else:
                    if answer or holds:
                        report.property_failure(
                            "%s: %s (query needs %r) and was served: %d events%s%s, instead of being refused" % (
                                backend, how, query_roles, sum(1 for f in answer if f[0] == "EVENT"),
                                ", EOSE" if any(f[0] == "EOSE" for f in answer) else "",
                                ", and holds a subscription of that id" if holds else ""), payload, None)
                    elif not restricted:
                        report.property_failure("%s: %s (query needs %r): the refusal is not a 'restricted' NOTICE: %r"
                                                % (backend, how, query_roles, fr), payload, None)
                    if reuse:
                        report.count("idsess_req_refused_under_open_id")
                if reuse:
                    report.count("idsess_req_under_open_id")
                if allowed:
                    open_ids[c].add(sub)
                    refused[c].discard(sub)
                else:
                    open_ids[c].discard(sub)
                    refused[c].add(sub)
                key = (op, allowed, decided, reuse, len(ever[c]) > 1)
            elif op == "close":
                c = st["c"]
                conns[c].send(["CLOSE", st["sub"]])
                open_ids[c].discard(st["sub"])
            elif op in ("event", "resend", "publish"):
                if op == "resend":
                    ev = events[st["ref"]]
                else:
                    sk = obs_key if op == "publish" else keys[st["k"]]
                    ev = relay.signed_event(sk, kind=st["kind"], content="step %d" % step, created_at=base + step,
                                            tags=[["d", st["d"]]] if st["kind"] == 30000 else [])
                    events[step] = ev
                ephemeral = 20000 <= ev["kind"] < 30000
                was_stored = ev["id"] in relay.store.ids()
                first = not was_stored and ev["id"] not in accepted
                # a replaceable event older than an accepted one of the same address may rightly be turned away
                superseded = any(e["id"] != ev["id"] and (e["pubkey"], e["kind"], e["tags"]) == (ev["pubkey"], ev["kind"], ev["tags"])
                                 and e["created_at"] >= ev["created_at"] for e in accepted.values() if e["kind"] == 30000)
                if op == "publish":
                    sender, c, allowed, decided = obs, None, True, True
                else:
                    c = st["c"]
                    sender = conns[c]
                    allowed, decided = verdict(c, "save")
                n = len(sender.out)
                sender.send(["EVENT", ev])
                oks = [f for f in sender.frames(n) if isinstance(f, list) and f[0] == "OK"]
                stored = ev["id"] in relay.store.ids()
                pushed_to = [i for i, x in enumerate(everybody) for f in x.frames(marks[i])
                             if isinstance(f, list) and f[0] == "EVENT" and isinstance(f[2], dict) and f[2].get("id") == ev["id"]]
                how = "%s %s a kind-%d event" % ("the observer" if c is None else who(c),
                                                 "re-submitted" if op == "resend" else "submitted", ev["kind"])
                if len(oks) != 1:
                    report.property_failure("%s: %s: %d OK frames" % (backend, how, len(oks)), payload, None)
                elif not decided:
                    report.count("idsess_stale_token_unjudged")
                elif allowed:
                    if "restricted" in str(oks[0][3]):
                        report.property_failure("%s: %s (save needs %r) and was told %r" % (backend, how, save_roles, oks[0][3]), payload, None)
                    elif first and not superseded and not (oks[0][2] and (stored or (ephemeral and 2 in pushed_to))):
                        report.property_failure("%s: %s (save needs %r): refused or not stored / broadcast: %r"
                                                % (backend, how, save_roles, oks[0]), payload, None)
                else:
                    if oks[0][2] or (stored and not was_stored) or pushed_to:
                        report.property_failure(
                            "%s: %s (save needs %r) and it was %s" % (
                                backend, how, save_roles,
                                "acknowledged" if oks[0][2] else ("stored" if stored and not was_stored else "pushed to subscribers")),
                            payload, None)
                    elif "restricted" not in str(oks[0][3]):
                        report.property_failure("%s: %s (save needs %r): the refusal does not say 'restricted': %r"
                                                % (backend, how, save_roles, oks[0]), payload, None)
                    if op == "resend":
                        report.count("idsess_resend_refused")
                if oks and oks[0][2]:
                    accepted[ev["id"]] = ev
                key = (op, ev["kind"], allowed, decided, first, c is not None and len(ever[c]) > 1)
            # whatever the step was: nothing arrives under an id whose REQ was refused
            for c in (0, 1):
                late = [f for f in conns[c].frames(marks[c]) if isinstance(f, list) and f[0] in ("EVENT", "EOSE") and f[1] in refused[c]]
                if late and not (op == "req" and st["c"] == c and st["sub"] == late[0][1]):      # (that one is reported above)
                    report.property_failure(
                        "%s: connection %d received %d frame(s) under subscription id %r although its last REQ of that id had been "
                        "refused ('restricted')" % (backend, c, len(late), late[0][1]), payload, None)
            if key is not None:
                report.case(("identity-session", backend, save_roles, query_roles) + key, nontrivial=True,
                            sample={"backend": backend, "save": save_roles, "query": query_roles, "step": st})
            report.count("idsess_steps_" + backend)
            # what waits in a connection's queue after the relay has been given time to settle counts as well: a connection
            # none of whose REQs was served has no sender task, so whatever is pushed to it stays there.  The relay then never
            # comes to rest (every further step would wait for the settle time-out), so the program is cut short here
            unsettled = False
            for c in (0, 1):
                q = conns[c]._queue
                waiting = list(getattr(q, "_queue", ())) if q is not None else []
                unsettled = unsettled or bool(waiting)
                bad = [i for i in waiting if isinstance(i, tuple) and i and i[0] in refused[c]]
                if bad:
                    report.property_failure(
                        "%s: %d frame(s) were queued for connection %d under subscription id %r although its last REQ of that id had "
                        "been refused ('restricted')" % (backend, len(bad), c, bad[0][0]), payload, None)
            if unsettled or any(x.done for x in everybody):
                report.count("idsess_programs_cut_short")
                cut_short = True
                for c in (0, 1):                # (recorded above; taken away so that closing down does not wait for them)
                    q = conns[c]._queue
                    while q is not None and not q.empty():
                        q.get_nowait()
                break
        for x in everybody:
            x.close()
        return not cut_short
    finally:
        relay.close()


# ---------------------------------------------------------------------------------------------------------------------
# integrity of the role store: what clients publish must never act as (or on) a role assignment
# ---------------------------------------------------------------------------------------------------------------------
# Where the role assignments live is the backend's business (SQL: a table of its own; LMDB: records in the event store
# itself).  The property does not care: 'role assignments read back exactly as last set' — set by the operator through
# set_auth_roles, by nobody else.  So the clients of this family publish, through the ordinary EVENT path, events that
# are shaped like role records or that name role records (deletions), and the roles are then read back and used.
STRANGER = "ee" * 32                    # a pubkey nobody holds the key of: only ever a target
LOOKALIKE_KINDS = [31494, 31494, 30078, 30000, 1, 10000, 0]      # the service kind under the client's own key, and others
LOOKALIKE_SHAPES = ["d", "d+t+p", "x,d", "d,d"]
# created_at of the published event relative to 'now' (the operator's assignments are made at 'now'): well before, just
# before, the same second, just after, well after
LOOKALIKE_DT = [-86400, -3600, -5, 0, 5, 90, 3600]
FORGERY_CONFIGS = [("a", "r"), ("aw", "rs"), ("w", "r"), ("rw", "s")]


def gen_forgery_program(rng, steps, save_roles, query_roles):
    """a random symbolic program: the operator assigns roles (to three pubkeys that connect, and to a stranger); clients
    that may save publish events that look like role records — any kind, their own signature, a d tag 'auth:<pubkey>'
    naming themselves or somebody else, role letters as content, older and newer than the operator's assignment — and
    deletion events that name the operator's records; pubkeys log in (NIP-42) and use the relay.
    The generator keeps a rough picture of who may save (so that most publications are accepted) and of who has been
    named by a look-alike (so that the logins mostly concern those); the oracle does not use that picture."""
    assigned = {}
    named = []
    prog = []

    def pick_roles():
        action = set(rng.choice([save_roles, query_roles]))
        side = rng.random() < 0.5
        pool = [r for r in ROLE_ALPHABET if bool(set(r.lower()) & action) == side]
        return rng.choice(pool or ROLE_ALPHABET)

    def assign(k, roles=None):
        assigned[k] = roles or pick_roles()
        prog.append({"op": "assign", "k": k, "roles": assigned[k]})

    def via():
        """through which connection: None = one that never authenticated, k = one freshly authenticated as key k"""
        can = ([None] if "a" in save_roles else []) + [k for k in range(3) if set(assigned.get(k, "a").lower()) & set(save_roles)]
        return rng.choice(can) if can and rng.random() < 0.85 else rng.choice([None, 0, 1, 2])

    if "a" not in save_roles:           # somebody must be able to publish at all
        assign(rng.randrange(3), rng.choice([r for r in ROLE_ALPHABET if set(r.lower()) & set(save_roles)]))
    for k in rng.sample(range(4), rng.choice([1, 2])):
        if k not in assigned:
            assign(k)
    letters = [x for x in dict.fromkeys([query_roles, save_roles, "arws", "rws", query_roles + save_roles, "z", "a", ""])]
    while len(prog) < steps:
        x = rng.random()
        if x < 0.13:
            assign(rng.randrange(4))
        elif x < 0.58:
            by = rng.randrange(3)
            target = by if rng.random() < 0.45 else rng.randrange(4)
            named.append(target)
            prog.append({"op": "lookalike", "via": via(), "by": by, "target": target, "kind": rng.choice(LOOKALIKE_KINDS),
                         "shape": rng.choice(LOOKALIKE_SHAPES), "content": rng.choice(letters), "dt": rng.choice(LOOKALIKE_DT)})
        elif x < 0.66:
            prog.append({"op": "delete", "via": via(), "by": rng.randrange(3),
                         "target": rng.choice(list(assigned) if assigned and rng.random() < 0.8 else range(4)),
                         "dt": rng.choice([5, 90, 3600])})
        else:
            pool = [k for k in named if k < 3]
            prog.append({"op": "login", "k": rng.choice(pool) if pool and rng.random() < 0.7 else rng.randrange(3)})
    return prog


def role_forgery_session(report, backend, save_roles, query_roles, program, keys):
    """runs one program of gen_forgery_program through the real set_auth_roles / get_auth_roles / get_all_auth_roles and
    the real start_client.  Oracle = the property: the only thing that assigns roles is the operator's set_auth_roles.
      after EVERY step, for every pubkey of the scenario: get_auth_roles = the letters the operator last set (the
          anonymous role if the operator never set any), and get_all_auth_roles lists exactly the operator's
          assignments — whatever clients have published in between;
      publication: a connection whose roles (by the operator's assignment) do not meet 'save' gets OK false
          'restricted' and nothing is stored; one whose roles do is not told 'restricted';
      login: after a successful AUTH as a pubkey, an EVENT is accepted iff the operator's assignment of that pubkey
          meets 'save', a REQ is served iff it meets 'query' (else 'restricted', nothing delivered, no subscription)."""
    import time

    relay = Relay(backend, authentication={"enabled": True, "relay_urls": [URL], "actions": {"save": save_roles, "query": query_roles}})
    try:
        targets = [k.public_key.hex() for k in keys] + [STRANGER]
        service_pk = relay.storage.service_pubkey
        need = {"save": set(save_roles), "query": set(query_roles)}
        assigned = {}                    # pubkey -> letters as last set by the operator
        published = {}                   # pubkey -> descriptions of the accepted client events that name it
        now = int(time.time())
        anon = Conn(relay)

        def operator_roles(pk):
            return set(assigned[pk].lower()) if pk in assigned else set("a")

        def says(pk):
            return ("the operator last set %r" % assigned[pk]) if pk in assigned else "the operator never assigned it a role"

        def connection(k):
            """(connection, does it hold a token)"""
            if k is None:
                return anon, True
            c = Conn(relay)
            n = len(c.out)
            c.send(["AUTH", auth_answer(relay, keys[k], c.challenge())])
            return c, not any(isinstance(f, list) and f[0] == "NOTICE" for f in c.frames(n))

        def read_back(payload, after):
            for pk in targets:
                got = relay.run(relay.storage.get_auth_roles(pk))
                report.count("forgery_readbacks_" + backend)
                if set(got) != operator_roles(pk):
                    report.property_failure(
                        "%s: the roles of %s.. read back as %r although %s — %s; client events naming it so far: %s" % (
                            backend, pk[:6], sorted(got), says(pk), after, "; ".join(published.get(pk, [])[-3:]) or "none"),
                        payload, None)

            async def everything():
                return [(p, set(r)) async for p, r in relay.storage.get_all_auth_roles()]
            listed = relay.run(everything())
            want = sorted((p, sorted(operator_roles(p))) for p in assigned)
            if sorted((p, sorted(r)) for p, r in listed) != want:
                report.property_failure(
                    "%s: get_all_auth_roles lists %r, the operator's assignments are %r — %s" % (
                        backend, sorted((p[:6], "".join(sorted(r))) for p, r in listed),
                        [(p[:6], "".join(r)) for p, r in want], after), payload, None)

        def submit(c, ev):
            n = len(c.out)
            c.send(["EVENT", ev])
            return [f for f in c.frames(n) if isinstance(f, list) and f and f[0] == "OK"]

        for step, st in enumerate(program):
            op = st["op"]
            payload = {"case": "role-forgery", "backend": backend, "save": save_roles, "query": query_roles,
                       "program": program, "step": step}
            key = None
            if op == "assign":
                pk = targets[st["k"]]
                relay.set_roles(pk, st["roles"])
                assigned[pk] = st["roles"]
                after = "after the operator set the roles of %s.. to %r" % (pk[:6], st["roles"])
                key = (op, bool(published.get(pk)))
            elif op in ("lookalike", "delete"):
                sk = keys[st["by"]]
                target = targets[st["target"]]
                if op == "lookalike":
                    d = ["d", "auth:" + target]
                    tags = {"d": [d], "d+t+p": [d, ["t", "auth"], ["p", target]], "x,d": [["d", "x"], d],
                            "d,d": [d, ["d", "auth:" + targets[(st["target"] + 1) % 4]]]}[st["shape"]]
                    ev = relay.signed_event(sk, kind=st["kind"], content=st["content"], tags=tags, created_at=now + st["dt"])
                    what = "a kind-%d event signed by %s.. with tags %s, content %r, created_at now%+d" % (
                        st["kind"], ev["pubkey"][:6], [[t[0], t[1][:11] + ".."] if len(t[1]) > 12 else t for t in tags],
                        st["content"], st["dt"])
                else:
                    # a deletion request of a client that names the operator's record of the target: by id where the
                    # record is an event (LMDB), and by address
                    recs = relay.store.query([{"kinds": [31494], "authors": [service_pk], "#d": ["auth:" + target]}])
                    tags = [["e", r.id] for r in recs] + [["a", "31494:%s:auth:%s" % (service_pk, target)]]
                    ev = relay.signed_event(sk, kind=5, content="", tags=tags, created_at=now + st["dt"])
                    what = "a deletion request (kind 5) signed by %s.. naming the role record of %s.. (%d by id, 1 by address)" % (
                        ev["pubkey"][:6], target[:6], len(recs))
                c, has_token = connection(st["via"])
                roles = set("a") if st["via"] is None else operator_roles(targets[st["via"]])
                may_save = bool(roles & need["save"])
                oks = submit(c, ev) if has_token else []
                stored = ev["id"] in relay.store.ids()
                if not has_token:
                    report.count("forgery_valid_auth_answered_with_notice")          # (C15's business)
                elif len(oks) != 1:
                    report.property_failure("%s: %d OK frames for one EVENT" % (backend, len(oks)), payload, None)
                elif not may_save and (oks[0][2] or "restricted" not in str(oks[0][3])):
                    report.property_failure("%s: a connection with roles %r (save needs %r) published %s and was answered %r"
                                            % (backend, sorted(roles), save_roles, what, oks[0][2:]), payload, None)
                elif may_save and "restricted" in str(oks[0][3]):
                    report.property_failure("%s: a connection with roles %r (save needs %r) published %s and was told %r"
                                            % (backend, sorted(roles), save_roles, what, oks[0][3]), payload, None)
                if st["via"] is not None:
                    c.close()
                if stored:
                    published.setdefault(target, []).append(what)
                    report.count("forgery_%ss_stored_%s" % (op, backend))
                after = "after a client published %s (%s)" % (what, "stored" if stored else "not stored")
                key = (op, st.get("kind"), st.get("shape"), (st["dt"] > 0) - (st["dt"] < 0), st["by"] == st["target"],
                       target in assigned, st["via"] is None, stored)
            elif op == "login":
                pk = targets[st["k"]]
                roles = operator_roles(pk)
                c, has_token = connection(st["k"])
                after = "after %s.. logged in" % pk[:6]
                if not has_token:
                    report.count("forgery_valid_auth_answered_with_notice")
                else:
                    who = "%s.. (%s; %d stored client events name it) authenticated and" % (pk[:6], says(pk), len(published.get(pk, [])))
                    ev = relay.signed_event(keys[st["k"]], kind=1, content="login at step %d" % step, created_at=now)
                    oks = submit(c, ev)
                    stored = ev["id"] in relay.store.ids()
                    may_save = bool(roles & need["save"])
                    if len(oks) != 1 or bool(oks[0][2]) != may_save or stored != may_save:
                        report.property_failure("%s: %s its EVENT was %s (save needs %r): %r" % (
                            backend, who, "accepted" if (oks and oks[0][2]) or stored else "refused", save_roles, oks[:1]), payload, None)
                    elif not may_save and "restricted" not in str(oks[0][3]):
                        report.property_failure("%s: %s the refusal of its EVENT does not say 'restricted': %r" % (backend, who, oks[0]),
                                                payload, None)
                    n = len(c.out)
                    c.send(["REQ", "q", {"kinds": [1, 5, 31494, 30078]}])
                    fr = [f for f in c.frames(n) if isinstance(f, list)]
                    answer = [f for f in fr if f[0] in ("EVENT", "EOSE")]
                    holds = any(getattr(s, "queue", None) is c._queue for subs in relay.storage.clients.values() for s in subs.values())
                    may_query = bool(roles & need["query"])
                    if may_query and not any(f[0] == "EOSE" for f in answer):
                        report.property_failure("%s: %s its REQ was not served (query needs %r): %r" % (backend, who, query_roles, fr[:3]),
                                                payload, None)
                    elif not may_query and (answer or holds):
                        report.property_failure("%s: %s its REQ was served (query needs %r): %d events%s%s" % (
                            backend, who, query_roles, sum(1 for f in answer if f[0] == "EVENT"),
                            ", EOSE" if any(f[0] == "EOSE" for f in answer) else "", ", holds a subscription" if holds else ""),
                            payload, None)
                    elif not may_query and not any(f[0] == "NOTICE" and "restricted" in str(f[1]) for f in fr):
                        report.property_failure("%s: %s its refused REQ was not answered with a 'restricted' NOTICE: %r" % (backend, who, fr),
                                                payload, None)
                    report.count("forgery_logins_" + backend)
                    key = (op, pk in assigned, bool(published.get(pk)), may_save, may_query)
                c.close()
            read_back(payload, after)
            if key is not None:
                report.case(("role-forgery", backend, save_roles, query_roles) + key, nontrivial=True,
                            sample={"backend": backend, "save": save_roles, "query": query_roles, "step": st})
            report.count("forgery_steps_" + backend)
        anon.close()
    finally:
        relay.close()


# ---------------------------------------------------------------------------------------------------------------------
# the HTTP read path: GET /e/<id>
# ---------------------------------------------------------------------------------------------------------------------
HTTP_QUERY_ROLES = ["a", "r", "rw", "arws", "", [], None]        # None = 'query' not configured at all


def http_read_case(report, backend, enabled, query_roles, with_validator, keys):
    """GET /e/<id> (web.ViewEventResource, through falcon's ASGI test conductor) is a read path like REQ.  An HTTP client
    holds no token, i.e. it has the default (anonymous) role.  Oracle, stated over the configuration and the stored event:
      the response carries the event  iff  the event is stored
                                       and (authentication is disabled or 'query' is not configured or 'a' is one of its roles)
                                       and (no output validator is configured or it lets the event through — for the
                                            homeserver recipe: author whitelisted, or kind 10002);
      otherwise the response is not a 200 and nothing of the event is in its body.
    The same oracle judges a REQ for the same ids of a websocket connection that never authenticated."""
    import json
    import falcon.asgi
    import falcon.testing
    from nostr_relay import web
    from nostr_relay.config import Config

    w, x = keys[0], keys[1]
    Config.pubkey_whitelist = [w.public_key.hex()]
    actions = {"save": "a"}
    if query_roles is not None:
        actions["query"] = query_roles
    relay = Relay(backend, authentication={"enabled": enabled, "relay_urls": [URL], "actions": actions},
                  output_validator="nostr_relay.recipe.homeserver.whitelist_output_validator" if with_validator else None)
    try:
        payload = {"case": "http", "backend": backend, "enabled": enabled, "query": query_roles, "validator": with_validator}
        evs = [relay.signed_event(w, kind=1, content="note by the whitelisted author"),
               relay.signed_event(w, kind=30000, content="list by the whitelisted author", tags=[["d", "x"]]),
               relay.signed_event(x, kind=1, content="note by an outsider"),
               relay.signed_event(x, kind=10002, content="relay list of an outsider", tags=[["r", "wss://example.com"]])]
        for ev in evs:
            relay.store.add(ev)
        stored = relay.store.ids()
        never = relay.signed_event(x, kind=1, content="never submitted")
        app = falcon.asgi.App()
        app.add_route("/e/{event_id}", web.ViewEventResource(relay.storage))

        async def get(event_id):
            async with falcon.testing.ASGIConductor(app) as c:
                r = await c.simulate_get("/e/%s" % event_id)
                return r.status_code, r.text or ""

        may_query = (not enabled) or query_roles is None or bool(set("a") & set(query_roles))
        config = "authentication %s, query %s, %s output validator" % (
            "enabled" if enabled else "disabled", "not configured" if query_roles is None else "needs %r" % (query_roles,),
            "the homeserver" if with_validator else "no")
        visible = set()
        for ev in evs + [never]:
            passes = (not with_validator) or ev["pubkey"] in Config.pubkey_whitelist or ev["kind"] == 10002
            want = ev["id"] in stored and may_query and passes
            if want:
                visible.add(ev["id"])
            status, text = relay.run(get(ev["id"]))
            body = None
            if status == 200:
                try:
                    body = json.loads(text)
                except Exception:
                    body = text
            leaked = status == 200 or ev["id"] in text or ev["sig"] in text or ev["content"] in text
            what = "kind-%d event %r" % (ev["kind"], ev["content"])
            if want and not (isinstance(body, dict) and body.get("id") == ev["id"] and body.get("sig") == ev["sig"]):
                report.property_failure("%s: GET /e/<id> of the stored %s (%s) did not return it: %d %r"
                                        % (backend, what, config, status, text[:80]), payload, None)
            elif not want and leaked:
                report.property_failure(
                    "%s: GET /e/<id> served the %s to an HTTP client (no token = the anonymous role) although %s: %d %r" % (
                        backend, what, "it was never stored" if ev["id"] not in stored else
                        ("%s" % config if not may_query else "the output validator hides it (%s)" % config), status, text[:80]),
                    payload, None)
            report.count("http_%d_%s" % (status, backend))
            report.case(("http", backend, enabled, repr(query_roles), with_validator, ev["kind"], ev["pubkey"] == evs[0]["pubkey"],
                         ev["id"] in stored), nontrivial=not want,
                        sample={**payload, "kind": ev["kind"], "status": status, "served": status == 200})
        # the websocket REQ of a connection that never authenticated, for the same ids
        c = Conn(relay)
        n = len(c.out)
        c.send(["REQ", "byid", {"ids": [e["id"] for e in evs + [never]]}])
        fr = [f for f in c.frames(n) if isinstance(f, list)]
        got = {f[2]["id"] for f in fr if f[0] == "EVENT"}
        if got != visible or (may_query and not any(f[0] == "EOSE" for f in fr)):
            report.property_failure("%s: a REQ by ids of an unauthenticated connection (%s) delivered %d events, %d are visible to it: %r"
                                    % (backend, config, len(got), len(visible), [f[:2] for f in fr][:4]), payload, None)
        c.close()
        report.case(("http-ws", backend, enabled, repr(query_roles), with_validator), nontrivial=not may_query or with_validator,
                    sample={**payload, "ws_events": len(got)})
        report.count("http_configs_" + backend)
    finally:
        relay.close()
        Config.pubkey_whitelist = None


def run(report, tier, seed):
    rng = random.Random(seed)
    drv = common.Driver()
    loop = asyncio.new_event_loop()
    asyncio.set_event_loop(loop)
    from aionostr.key import PrivateKey

    keys = [PrivateKey(bytes([i + 1]) * 32) for i in range(3)]
    report.coverage["rule"] = (
        "can_do over enabled x configured roles {a,r,w,rw,s,arws,unset} x token roles {none,{},a,r,w,rw,s}; through "
        "start_client on both backends: save roles x query roles x connection identity (unauthenticated, r, w, rw, s) x event kind "
        "(regular, ephemeral, parameterised replaceable) with "
        "an all-powerful observer watching broadcasts; the homeserver output validator on stored answers and live pushes; "
        "role assignments set repeatedly and read back; the roles of a pubkey changed (revoked / narrowed / widened) between two "
        "authentications, EVENT and REQ after each; identity sessions: random programs over two long-lived connections (one "
        "address) that authenticate again and again as any of three pubkeys (also unsuccessfully) while role assignments change "
        "in storage, and that re-use what they hold — REQ over a pool of two subscription ids (so mostly an id that is open), "
        "re-submission of earlier events, replacements — with third-party publications in between; every REQ / EVENT judged by "
        "the roles of the token held at that moment, and nothing may arrive under an id whose REQ was refused; "
        "integrity of the role store: random programs in which the operator assigns roles while clients that may save publish "
        "events shaped like role records (kinds {31494, 30078, 30000, 1, 10000, 0} under their own key, d tag auth:<pubkey> "
        "naming themselves / others / a stranger, role letters as content, created_at from a day before to an hour after the "
        "assignment, four tag shapes) and deletion requests naming the operator's records (by id and by address); after every "
        "step get_auth_roles of every pubkey and get_all_auth_roles must equal the operator's last assignments, and after a "
        "NIP-42 login EVENT / REQ are judged by the operator's assignment; "
        "the HTTP read path GET /e/<id> (falcon ASGI conductor) over authentication enabled / disabled x query roles "
        "{a, r, rw, arws, '', [], not configured} x homeserver output validator present / absent, four stored events (whitelisted "
        "author / outsider, kinds 1, 30000, 10002) and one never stored: served iff stored and the anonymous role may query and "
        "the validator lets it through, else no 200 and nothing of the event in the body; the same for a REQ by ids of an "
        "unauthenticated connection; "
        "PARTIAL configurations of the actions section: every combination of save {not named, w, ws, a, ''} x query {not named, "
        "r, ar, s, ''} x other actions named {none, read_dm, zap + read_dm} x spelling {letters, list of letters, Role / Action "
        "members} and no section at all, x token {none, empty, '', a, r, w, s, rw, rws, aw, arws} x probed action {save, query, "
        "read_dm, zap} on the real Authenticator (parse_options + can_do) against the statement 'the verdict for an action "
        "depends on that action's entry only; save / query not named keep the anonymous role, other actions not named are not "
        "restricted'; and through start_client on both backends with only save, only query, or only another action named, "
        "for identities with and without the anonymous role (unauthenticated, a, aw, w, r, s, rws); "
        "non-trivial = something must be refused")
    report.assumptions += ["identities are established with real NIP-42 answers; the per-object hook evaluate_target is the shipped no-op"]
    try:
        can_do_matrix(report, drv)
        partial_can_do_matrix(report, drv, tier)
        # partial configurations through start_client.  Which action is left out x who asks: identities WITHOUT the
        # anonymous role (explicit assignments) are the ones an un-named action must refuse; the others it must serve.
        # An rng of its own (derived from the seed), so that the programs of the older families are drawn as before
        prng = random.Random(seed * 1000003 + 14)
        only_save, only_query, neither = [("w", None), ("ws", None)], [(None, "r"), (None, "ar")], [(None, None)]
        # (the EMPTY assignment is exercised on the Authenticator only: through start_client such a pubkey cannot be observed,
        # its connection is closed — code 1013 — by its own AUTH: should_throttle takes max() over the roles of the token)
        lacking, holding = ["w", "r", "s", "rws"], [None, "a", "aw"]
        if tier == "quick":
            # both directions with an identity that may do the named action and lacks the anonymous role, the section that
            # names only a third action, and a few drawn from the whole product; spelling and event kind rotate
            partial_cases = [("w", None, prng.choice(["w", "rws"]), {}), (None, "r", prng.choice(["r", "rws"]), {}),
                             (None, None, prng.choice(lacking), {"read_dm": "s"}),
                             prng.choice(only_save) + (prng.choice(holding), prng.choice(PARTIAL_EXTRA)),
                             prng.choice(only_query) + (prng.choice(lacking + holding), prng.choice(PARTIAL_EXTRA)),
                             prng.choice(only_save + only_query) + (prng.choice(lacking), {})]
        else:
            partial_cases = [(s, q, i, x) for (s, q) in only_save + only_query + neither for i in lacking + holding
                             for x in PARTIAL_EXTRA if (s, q) != (None, None) or x]
        partial_cases = [(s, q, i, x, SPELLINGS[n % 3], [1, 20001, 30000][(n // 3 + n) % 3]) for n, (s, q, i, x) in enumerate(partial_cases)]
        combos = [("w", "a"), ("w", "r"), ("ws", "rw"), ("a", "a")]
        # an action configured with the empty role set admits nobody, whoever asks
        closed = [("", "a"), ("w", ""), ("", "")]
        idents = [None, "r", "w", "rw", "s"]
        if tier == "quick":
            cases = [(s, q, i) for (s, q) in combos[:3] for i in idents]
            rng.shuffle(cases)
            cases = cases[:8] + [(s, q, i) for (s, q) in closed[:2] for i in rng.sample(idents, 2)]
        else:
            cases = [(s, q, i) for (s, q) in combos + closed for i in idents]
        for backend in ("sql", "kv"):
            for n, (s, q, i) in enumerate(cases):
                path_case(report, backend, s, q, i, keys)
                # the same path for an ephemeral (never stored, only broadcast) and a parameterised replaceable kind
                if tier != "quick" or n % 2 == 0:
                    path_case(report, backend, s, q, i, keys, kind=20001)
                if tier != "quick" or n % 4 == 1:
                    path_case(report, backend, s, q, i, keys, kind=30000)
            for (s, q, i, x, sp, kind) in partial_cases:
                path_case(report, backend, s, q, i, keys, kind=kind, extra=x, spelling=sp)
                if tier != "quick" and kind != 1:
                    path_case(report, backend, s, q, i, keys, kind=1, extra=x, spelling=sp)
            output_validator_case(report, backend, keys)
            # the HTTP read path over enabled x query roles (also empty / not configured) x output validator present or not.
            # quick: every query configuration with authentication enabled (the validator alternating, its phase drawn
            # from the seed) and two with authentication disabled; thorough: the full matrix
            if tier == "quick":
                ph = rng.randrange(2)
                http_cases = [(True, q, (n + ph) % 2 == 0) for n, q in enumerate(HTTP_QUERY_ROLES)] + \
                             [(False, "r", ph == 0), (False, "", ph == 1)]
            else:
                http_cases = [(e, q, v) for e in (True, False) for q in HTTP_QUERY_ROLES for v in (False, True)]
            for e, q, v in http_cases:
                http_read_case(report, backend, e, q, v, keys)
            roles_roundtrip(report, backend, rng, keys)
            for _ in range(2 if tier == "quick" else 12):
                role_change_case(report, backend, rng, keys)
            # connections whose identity changes during their lifetime and that re-use what they hold.  The sizes are chosen
            # on general grounds: ~16 % of the steps are authentications and ~24 % REQs over two ids, so that a program of 48
            # steps contains several "REQ under an open id after the verdict of the connection has changed" in either direction
            # (the counters idsess_* in the evidence say how many there were)
            pks = [k.public_key.hex() for k in keys]
            n_prog, n_steps = (6, 48) if tier == "quick" else (40, 60)
            cut = 0
            for i in range(n_prog):
                s, q = IDSESS_CONFIGS[i % len(IDSESS_CONFIGS)] if i < len(IDSESS_CONFIGS) else rng.choice(IDSESS_CONFIGS)
                prog = gen_identity_program(rng, pks, n_steps, s, q)        # (always drawn: the rng stream does not depend on outcomes)
                # a program that had to be cut short (the relay no longer comes to rest) costs a settle time-out; after two of
                # them the rest is skipped for this backend (idsess_programs_cut_short / _skipped in the evidence; 0 normally)
                if cut >= 2:
                    report.count("idsess_programs_skipped")
                elif not identity_session(report, backend, s, q, prog, keys):
                    cut += 1
            # the role store against what clients publish.  Both backends, whatever their representation of an assignment;
            # every configuration of FORGERY_CONFIGS once (they differ in who may publish: anybody, or only pubkeys the
            # operator gave a role to), ~45 % of the steps are look-alike publications, ~1/3 logins, and everything is read
            # back after every step (the counters forgery_* in the evidence say how many were stored / read / used)
            n_prog, n_steps = (len(FORGERY_CONFIGS), 28) if tier == "quick" else (24, 60)
            for i in range(n_prog):
                s, q = FORGERY_CONFIGS[i % len(FORGERY_CONFIGS)]
                role_forgery_session(report, backend, s, q, gen_forgery_program(rng, n_steps, s, q), keys)
    finally:
        drv.close()


def replay(report, path):
    import json

    data = json.load(open(path))
    drv = common.Driver()
    loop = asyncio.new_event_loop()
    asyncio.set_event_loop(loop)
    from aionostr.key import PrivateKey

    keys = [PrivateKey(bytes([i + 1]) * 32) for i in range(3)]
    try:
        for it in (data.get("violations") or []):
            r = it.get("replay") or {}
            if r.get("case") == "can_do_partial":
                partial_can_do_cell(report, drv, r["config"], r["enabled"], r["token"], r["action"])
            elif r.get("case") == "http":
                http_read_case(report, r["backend"], r["enabled"], r["query"], r["validator"], keys)
            elif r.get("case") == "role-forgery":
                role_forgery_session(report, r["backend"], r["save"], r["query"], r["program"], keys)
            elif r.get("case") == "identity-session":
                identity_session(report, r["backend"], r["save"], r["query"], r["program"], keys)
            elif "save" in r:
                path_case(report, r["backend"], r["save"], r["query"], r["identity"], keys, kind=r.get("kind", 1),
                          extra=r.get("extra"), spelling=r.get("spelling", "str"))
            elif r.get("case") == "output_validator":
                output_validator_case(report, r["backend"], keys)
    finally:
        drv.close()
