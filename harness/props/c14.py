"""
C14 — role-based authorization is enforced on every read and write path.
Tie: the real Authenticator.can_do vs the Lean `canDo` on the full matrix of configured action roles x
token roles.  Search through the real web.start_client on both backends: for every (save roles, query
roles, connection identity) an EVENT is stored/broadcast iff the roles intersect 'save' (else OK false
'restricted', no trace), a REQ is served iff they intersect 'query' (else NOTICE 'restricted', no
subscription, no frames); a configured output validator filters stored answers *and* live pushes; role
assignments read back exactly as last set.
"""
import asyncio
import itertools
import random

from lib import common
from lib.proto import Relay, Conn

THEOREMS_TIED = ["C14_canDo_spec", "C14_canDo_disabled", "C14_canDo_closed", "C14_canDo_no_roles", "C14_roles_roundtrip"]

URL = "ws://localhost:6969"


def auth_answer(relay, sk, challenge):
    return relay.signed_event(sk, kind=22242, tags=[["relay", URL], ["challenge", challenge]])


def can_do_matrix(report, drv):
    from nostr_relay import auth

    class _S:
        async def get_auth_roles(self, pk):
            return set("a")

    loop = asyncio.get_event_loop()
    for enabled in (True, False):
        # "" and [] = an action explicitly configured with no role at all (a closed / read-only relay): nobody may
        for action_roles in ("a", "r", "w", "rw", "s", "arws", "", [], None):
            actions = {} if action_roles is None else {"zap": action_roles}
            model_roles = "".join(action_roles) if action_roles is not None else None
            a = auth.Authenticator(_S(), {"enabled": enabled, "actions": actions})
            for tr in ("", "a", "r", "w", "rw", "s", None):
                token = None if tr is None else ({} if tr == "" else {"pubkey": "aa" * 32, "roles": set(tr)})
                got = loop.run_until_complete(a.can_do(token, "zap"))
                eff = "a" if (tr is None or tr == "") else tr
                mv = drv.call({"op": "adm.canDo", "enabled": enabled, "action_roles": model_roles, "token_roles": eff})
                if bool(got) != mv:
                    report.correspondence_break("auth.Authenticator.can_do", {"enabled": enabled, "action": action_roles, "token": tr}, got, mv)
                want = True if (not enabled or action_roles is None) else bool(set(action_roles) & set(eff))
                if bool(got) != want:
                    report.property_failure("can_do(%r roles, action needs %r, enabled=%r) = %r" % (eff, action_roles, enabled, got),
                                            {"case": "can_do"}, None)
                report.case(("can_do", enabled, repr(action_roles), tr), nontrivial=enabled, sample={"action": action_roles, "token": tr, "allowed": got})


def path_case(report, backend, save_roles, query_roles, ident_roles, keys, kind=1):
    """one connection with the given identity (None = unauthenticated) tries EVENT and REQ"""
    relay = Relay(backend, authentication={"enabled": True, "relay_urls": [URL], "actions": {"save": save_roles, "query": query_roles}})
    try:
        sk = keys[0]
        payload = {"backend": backend, "save": save_roles, "query": query_roles, "identity": ident_roles, "kind": kind}
        if ident_roles is not None:
            relay.set_roles(sk.public_key.hex(), ident_roles)
        c = Conn(relay)
        if ident_roles is not None:
            c.send(["AUTH", auth_answer(relay, sk, c.challenge())])
        eff = set(ident_roles.lower()) if ident_roles is not None else set("a")
        # a witness subscription of an all-powerful observer, to see broadcasts
        obs_key = keys[1]
        relay.set_roles(obs_key.public_key.hex(), "arws")
        obs = Conn(relay)
        obs.send(["AUTH", auth_answer(relay, obs_key, obs.challenge())])
        obs.send(["REQ", "watch", {"kinds": [1, 5, 20001, 30000]}])
        n_obs = len(obs.out)
        before = relay.store.ids()
        ev = relay.signed_event(sk, kind=kind, content="hello from %s" % (ident_roles,), tags=[["d", "x"]] if kind == 30000 else [])
        ephemeral = 20000 <= kind < 30000
        n = len(c.out)
        c.send(["EVENT", ev])
        oks = [f for f in c.frames(n) if isinstance(f, list) and f and f[0] == "OK"]
        allowed = bool(eff & set(save_roles))
        stored = ev["id"] in relay.store.ids()
        pushed = any(isinstance(f, list) and f[0] == "EVENT" and f[2]["id"] == ev["id"] for f in obs.frames(n_obs))
        if len(oks) != 1:
            report.property_failure("%s: %d OK frames for one EVENT" % (backend, len(oks)), payload, None)
        elif allowed:
            # with 'query' closed to everybody not even the observer holds a subscription: a broadcast has no witness
            witness = bool(set("arws") & set(query_roles))
            if not (oks[0][2] and (stored or (ephemeral and (pushed or not witness)))):
                report.property_failure("%s: an authorised EVENT (kind %d) was refused or not stored / broadcast: %r" % (backend, kind, oks[0]), payload, None)
        else:
            if oks[0][2] or stored or pushed:
                report.property_failure(
                    "%s: a connection with roles %r (save needs %r) got its kind-%d event %s" % (
                        backend, sorted(eff), save_roles, kind,
                        "acknowledged" if oks[0][2] else ("stored" if stored else "broadcast")), payload, None)
            elif "restricted" not in str(oks[0][3]):
                report.property_failure("%s: refusal does not say 'restricted': %r" % (backend, oks[0]), payload, None)
        # REQ
        seed = relay.signed_event(obs_key, kind=1, content="stored before")
        obs.send(["EVENT", seed])
        n = len(c.out)
        c.send(["REQ", "mine", {"kinds": [1]}])
        fr = c.frames(n)
        q_allowed = bool(eff & set(query_roles))
        subs = relay.open_subscriptions()
        mine_open = any("mine" in v for v in subs.values())
        got_events = [f for f in fr if isinstance(f, list) and f[0] == "EVENT"]
        notices = [f for f in fr if isinstance(f, list) and f[0] == "NOTICE"]
        if q_allowed:
            # (with 'save' closed to everybody nothing is stored: the answer is then a bare EOSE)
            have_stored = seed["id"] in relay.store.ids()
            if (have_stored and not got_events) or not any(isinstance(f, list) and f[0] == "EOSE" for f in fr):
                report.property_failure("%s: an authorised REQ was not served: %r" % (backend, fr[:3]), payload, None)
        else:
            if got_events or mine_open:
                report.property_failure("%s: a connection with roles %r (query needs %r) was served %d events / holds a subscription"
                                        % (backend, sorted(eff), query_roles, len(got_events)), payload, None)
            elif not any("restricted" in str(x[1]) for x in notices):
                report.property_failure("%s: refused REQ not answered with a 'restricted' NOTICE: %r" % (backend, fr), payload, None)
            # nothing may arrive later either (a refused REQ must not leave a live subscription behind)
            n2 = len(c.out)
            obs.send(["EVENT", relay.signed_event(obs_key, kind=1, content="published later")])
            c.send(["REQ", "junk", {"ids": ["not-hex"]}])
            late = [f for f in c.frames(n2) if isinstance(f, list) and f[0] == "EVENT"]
            if late:
                report.property_failure("%s: events were pushed to a connection whose REQ had been refused" % backend, payload, None)
        c.close()
        obs.close()
        report.case(("path", backend, save_roles, query_roles, ident_roles, kind), nontrivial=not (allowed and q_allowed),
                    sample={**payload, "event_ok": oks[0][2] if oks else None, "req_events": len(got_events)})
        report.count("paths_" + backend)
    finally:
        relay.close()


def output_validator_case(report, backend, keys):
    """the homeserver recipe's output validator: only whitelisted authors are visible to outsiders"""
    from nostr_relay.config import Config

    w, x = keys[0], keys[1]
    Config.pubkey_whitelist = [w.public_key.hex()]
    relay = Relay(backend, output_validator="nostr_relay.recipe.homeserver.whitelist_output_validator")
    try:
        pub = Conn(relay)
        ew, ex = relay.signed_event(w, content="by whitelisted"), relay.signed_event(x, content="by outsider")
        pub.send(["EVENT", ew])
        pub.send(["EVENT", ex])
        c = Conn(relay)
        n = len(c.out)
        c.send(["REQ", "s", {"kinds": [1]}])
        stored = [f[2]["id"] for f in c.frames(n) if isinstance(f, list) and f[0] == "EVENT"]
        payload = {"backend": backend, "case": "output_validator"}
        if ex["id"] in stored or ew["id"] not in stored:
            report.property_failure("%s: output validator not applied to stored events: %r" % (backend, [s[:6] for s in stored]), payload, None)
        n = len(c.out)
        lw, lx = relay.signed_event(w, content="live by whitelisted"), relay.signed_event(x, content="live by outsider")
        pub.send(["EVENT", lw])
        pub.send(["EVENT", lx])
        live = [f[2]["id"] for f in c.frames(n) if isinstance(f, list) and f[0] == "EVENT"]
        if lx["id"] in live:
            report.property_failure("%s: the output validator is not applied to live pushes: the outsider's event was pushed" % backend,
                                    payload, None)
        if lw["id"] not in live:
            report.property_failure("%s: a permitted event was not pushed live" % backend, payload, None)
        c.close()
        pub.close()
        report.case(("output_validator", backend), nontrivial=True, sample={"stored": len(stored), "live": len(live)})
    finally:
        relay.close()
        Config.pubkey_whitelist = None


def roles_roundtrip(report, backend, rng, keys):
    relay = Relay(backend, authentication={"enabled": True, "relay_urls": [URL], "actions": {"save": "w", "query": "a"}})
    try:
        pks = [k.public_key.hex() for k in keys]
        last = {}
        for i in range(8):
            pk = rng.choice(pks)
            roles = rng.choice(["r", "w", "rw", "RW", "s", "arws", "a", "W"])
            relay.set_roles(pk, roles)
            last[pk] = roles
            for p, r in last.items():
                got = relay.run(relay.storage.get_auth_roles(p))
                if set(got) != set(r.lower()):
                    report.property_failure("%s: roles of %s.. read back as %r after setting %r" % (backend, p[:6], sorted(got), r),
                                            {"backend": backend, "case": "roles"}, None)
        unknown = relay.run(relay.storage.get_auth_roles("ee" * 32))
        if set(unknown) != set("a"):
            report.property_failure("%s: an unknown pubkey has roles %r" % (backend, unknown), {"backend": backend, "case": "roles"}, None)
        report.case(("roles", backend, repr(last)), nontrivial=True, sample={"backend": backend, "assignments": len(last)})
    finally:
        relay.close()


def role_change_case(report, backend, rng, keys):
    """the roles of a pubkey are changed between two authentications (in the same process, within seconds): each new
    authentication must act on the roles as last set — revoked, narrowed, widened"""
    relay = Relay(backend, authentication={"enabled": True, "relay_urls": [URL], "actions": {"save": "w", "query": "r"}})
    try:
        sk = keys[0]
        pk = sk.public_key.hex()
        seq = [rng.choice(["rw", "w", "r"])] + rng.sample(["s", "r", "w", "rw", "z"], 3)
        seeded = False
        for step, roles in enumerate(seq):
            relay.set_roles(pk, roles)
            got = relay.run(relay.storage.get_auth_roles(pk))
            payload = {"backend": backend, "case": "role-change", "sequence": seq, "step": step}
            if set(got) != set(roles):
                report.property_failure("%s: roles of %s.. read back as %r after setting %r" % (backend, pk[:6], sorted(got), roles), payload, None)
            c = Conn(relay)
            c.send(["AUTH", auth_answer(relay, sk, c.challenge())])
            ev = relay.signed_event(sk, kind=1, content="step %d as %s" % (step, roles))
            n = len(c.out)
            c.send(["EVENT", ev])
            oks = [f for f in c.frames(n) if isinstance(f, list) and f and f[0] == "OK"]
            stored = ev["id"] in relay.store.ids()
            may_save = "w" in roles
            if len(oks) != 1 or bool(oks[0][2]) != may_save or stored != may_save:
                report.property_failure(
                    "%s: after the roles of a pubkey were changed %s -> %r and it authenticated again, its EVENT was %s (save needs 'w')"
                    % (backend, " -> ".join(repr(x) for x in seq[:step]) or "(unset)", roles,
                       "accepted" if (oks and oks[0][2]) or stored else "refused"), payload, None)
            seeded = seeded or stored
            n = len(c.out)
            c.send(["REQ", "q", {"kinds": [1]}])
            fr = c.frames(n)
            served = any(isinstance(f, list) and f[0] in ("EVENT", "EOSE") for f in fr)
            may_query = "r" in roles
            if served != may_query:
                report.property_failure(
                    "%s: after the roles of a pubkey were changed %s -> %r and it authenticated again, its REQ was %s (query needs 'r')"
                    % (backend, " -> ".join(repr(x) for x in seq[:step]) or "(unset)", roles, "served" if served else "refused"),
                    payload, None)
            c.close()
            report.case(("role-change", backend, tuple(seq), step), nontrivial=True, sample={"backend": backend, "sequence": seq, "step": step})
            report.count("role_changes_" + backend)
    finally:
        relay.close()


def run(report, tier, seed):
    rng = random.Random(seed)
    drv = common.Driver()
    loop = asyncio.new_event_loop()
    asyncio.set_event_loop(loop)
    from aionostr.key import PrivateKey

    keys = [PrivateKey(bytes([i + 1]) * 32) for i in range(3)]
    report.coverage["rule"] = (
        "can_do over enabled x configured roles {a,r,w,rw,s,arws,unset} x token roles {none,{},a,r,w,rw,s}; through "
        "start_client on both backends: save roles x query roles x connection identity (unauthenticated, r, w, rw, s) x event kind "
        "(regular, ephemeral, parameterised replaceable) with "
        "an all-powerful observer watching broadcasts; the homeserver output validator on stored answers and live pushes; "
        "role assignments set repeatedly and read back; the roles of a pubkey changed (revoked / narrowed / widened) between two "
        "authentications, EVENT and REQ after each; non-trivial = something must be refused")
    report.assumptions += ["identities are established with real NIP-42 answers; the per-object hook evaluate_target is the shipped no-op"]
    try:
        can_do_matrix(report, drv)
        combos = [("w", "a"), ("w", "r"), ("ws", "rw"), ("a", "a")]
        # an action configured with the empty role set admits nobody, whoever asks
        closed = [("", "a"), ("w", ""), ("", "")]
        idents = [None, "r", "w", "rw", "s"]
        if tier == "quick":
            cases = [(s, q, i) for (s, q) in combos[:3] for i in idents]
            rng.shuffle(cases)
            cases = cases[:8] + [(s, q, i) for (s, q) in closed[:2] for i in rng.sample(idents, 2)]
        else:
            cases = [(s, q, i) for (s, q) in combos + closed for i in idents]
        for backend in ("sql", "kv"):
            for n, (s, q, i) in enumerate(cases):
                path_case(report, backend, s, q, i, keys)
                # the same path for an ephemeral (never stored, only broadcast) and a parameterised replaceable kind
                if tier != "quick" or n % 2 == 0:
                    path_case(report, backend, s, q, i, keys, kind=20001)
                if tier != "quick" or n % 4 == 1:
                    path_case(report, backend, s, q, i, keys, kind=30000)
            output_validator_case(report, backend, keys)
            roles_roundtrip(report, backend, rng, keys)
            for _ in range(2 if tier == "quick" else 12):
                role_change_case(report, backend, rng, keys)
    finally:
        drv.close()


def replay(report, path):
    import json

    data = json.load(open(path))
    drv = common.Driver()
    loop = asyncio.new_event_loop()
    asyncio.set_event_loop(loop)
    from aionostr.key import PrivateKey

    keys = [PrivateKey(bytes([i + 1]) * 32) for i in range(3)]
    try:
        for it in (data.get("violations") or []):
            r = it.get("replay") or {}
            if "save" in r:
                path_case(report, r["backend"], r["save"], r["query"], r["identity"], keys, kind=r.get("kind", 1))
            elif r.get("case") == "output_validator":
                output_validator_case(report, r["backend"], keys)
    finally:
        drv.close()
