"""
C14 — role-based authorization is enforced on every read and write path.
Tie: the real Authenticator.can_do vs the Lean `canDo` on the full matrix of configured action roles x
token roles.  Search through the real web.start_client on both backends: for every (save roles, query
roles, connection identity) an EVENT is stored/broadcast iff the roles intersect 'save' (else OK false
'restricted', no trace), a REQ is served iff they intersect 'query' (else NOTICE 'restricted', no
subscription, no frames); a configured output validator filters stored answers *and* live pushes; role
assignments read back exactly as last set.
"""
import asyncio
import itertools
import random

from lib import common
from lib.proto import Relay, Conn

THEOREMS_TIED = ["C14_canDo_spec", "C14_canDo_disabled", "C14_canDo_closed", "C14_canDo_no_roles", "C14_roles_roundtrip"]

URL = "ws://localhost:6969"


def auth_answer(relay, sk, challenge):
    return relay.signed_event(sk, kind=22242, tags=[["relay", URL], ["challenge", challenge]])


def can_do_matrix(report, drv):
    from nostr_relay import auth

    class _S:
        async def get_auth_roles(self, pk):
            return set("a")

    loop = asyncio.get_event_loop()
    for enabled in (True, False):
        # "" and [] = an action explicitly configured with no role at all (a closed / read-only relay): nobody may
        for action_roles in ("a", "r", "w", "rw", "s", "arws", "", [], None):
            actions = {} if action_roles is None else {"zap": action_roles}
            model_roles = "".join(action_roles) if action_roles is not None else None
            a = auth.Authenticator(_S(), {"enabled": enabled, "actions": actions})
            for tr in ("", "a", "r", "w", "rw", "s", None):
                token = None if tr is None else ({} if tr == "" else {"pubkey": "aa" * 32, "roles": set(tr)})
                got = loop.run_until_complete(a.can_do(token, "zap"))
                eff = "a" if (tr is None or tr == "") else tr
                mv = drv.call({"op": "adm.canDo", "enabled": enabled, "action_roles": model_roles, "token_roles": eff})
                if bool(got) != mv:
                    report.correspondence_break("auth.Authenticator.can_do", {"enabled": enabled, "action": action_roles, "token": tr}, got, mv)
                want = True if (not enabled or action_roles is None) else bool(set(action_roles) & set(eff))
                if bool(got) != want:
                    report.property_failure("can_do(%r roles, action needs %r, enabled=%r) = %r" % (eff, action_roles, enabled, got),
                                            {"case": "can_do"}, None)
                report.case(("can_do", enabled, repr(action_roles), tr), nontrivial=enabled, sample={"action": action_roles, "token": tr, "allowed": got})


def path_case(report, backend, save_roles, query_roles, ident_roles, keys, kind=1):
    """one connection with the given identity (None = unauthenticated) tries EVENT and REQ"""
    relay = Relay(backend, authentication={"enabled": True, "relay_urls": [URL], "actions": {"save": save_roles, "query": query_roles}})
    try:
        sk = keys[0]
        payload = {"backend": backend, "save": save_roles, "query": query_roles, "identity": ident_roles, "kind": kind}
        if ident_roles is not None:
            relay.set_roles(sk.public_key.hex(), ident_roles)
        c = Conn(relay)
        if ident_roles is not None:
            c.send(["AUTH", auth_answer(relay, sk, c.challenge())])
        eff = set(ident_roles.lower()) if ident_roles is not None else set("a")
        # a witness subscription of an all-powerful observer, to see broadcasts
        obs_key = keys[1]
        relay.set_roles(obs_key.public_key.hex(), "arws")
        obs = Conn(relay)
        obs.send(["AUTH", auth_answer(relay, obs_key, obs.challenge())])
        obs.send(["REQ", "watch", {"kinds": [1, 5, 20001, 30000]}])
        n_obs = len(obs.out)
        before = relay.store.ids()
        ev = relay.signed_event(sk, kind=kind, content="hello from %s" % (ident_roles,), tags=[["d", "x"]] if kind == 30000 else [])
        ephemeral = 20000 <= kind < 30000
        n = len(c.out)
        c.send(["EVENT", ev])
        oks = [f for f in c.frames(n) if isinstance(f, list) and f and f[0] == "OK"]
        allowed = bool(eff & set(save_roles))
        stored = ev["id"] in relay.store.ids()
        pushed = any(isinstance(f, list) and f[0] == "EVENT" and f[2]["id"] == ev["id"] for f in obs.frames(n_obs))
        if len(oks) != 1:
            report.property_failure("%s: %d OK frames for one EVENT" % (backend, len(oks)), payload, None)
        elif allowed:
            # with 'query' closed to everybody not even the observer holds a subscription: a broadcast has no witness
            witness = bool(set("arws") & set(query_roles))
            if not (oks[0][2] and (stored or (ephemeral and (pushed or not witness)))):
                report.property_failure("%s: an authorised EVENT (kind %d) was refused or not stored / broadcast: %r" % (backend, kind, oks[0]), payload, None)
        else:
            if oks[0][2] or stored or pushed:
                report.property_failure(
                    "%s: a connection with roles %r (save needs %r) got its kind-%d event %s" % (
                        backend, sorted(eff), save_roles, kind,
                        "acknowledged" if oks[0][2] else ("stored" if stored else "broadcast")), payload, None)
            elif "restricted" not in str(oks[0][3]):
                report.property_failure("%s: refusal does not say 'restricted': %r" % (backend, oks[0]), payload, None)
        # REQ
        seed = relay.signed_event(obs_key, kind=1, content="stored before")
        obs.send(["EVENT", seed])
        n = len(c.out)
        c.send(["REQ", "mine", {"kinds": [1]}])
        fr = c.frames(n)
        q_allowed = bool(eff & set(query_roles))
        subs = relay.open_subscriptions()
        mine_open = any("mine" in v for v in subs.values())
        got_events = [f for f in fr if isinstance(f, list) and f[0] == "EVENT"]
        notices = [f for f in fr if isinstance(f, list) and f[0] == "NOTICE"]
        if q_allowed:
            # (with 'save' closed to everybody nothing is stored: the answer is then a bare EOSE)
            have_stored = seed["id"] in relay.store.ids()
            if (have_stored and not got_events) or not any(isinstance(f, list) and f[0] == "EOSE" for f in fr):
                report.property_failure("%s: an authorised REQ was not served: %r" % (backend, fr[:3]), payload, None)
        else:
            if got_events or mine_open:
                report.property_failure("%s: a connection with roles %r (query needs %r) was served %d events / holds a subscription"
                                        % (backend, sorted(eff), query_roles, len(got_events)), payload, None)
            elif not any("restricted" in str(x[1]) for x in notices):
                report.property_failure("%s: refused REQ not answered with a 'restricted' NOTICE: %r" % (backend, fr), payload, None)
            # nothing may arrive later either (a refused REQ must not leave a live subscription behind)
            n2 = len(c.out)
            obs.send(["EVENT", relay.signed_event(obs_key, kind=1, content="published later")])
            c.send(["REQ", "junk", {"ids": ["not-hex"]}])
            late = [f for f in c.frames(n2) if isinstance(f, list) and f[0] == "EVENT"]
            if late:
                report.property_failure("%s: events were pushed to a connection whose REQ had been refused" % backend, payload, None)
        c.close()
        obs.close()
        report.case(("path", backend, save_roles, query_roles, ident_roles, kind), nontrivial=not (allowed and q_allowed),
                    sample={**payload, "event_ok": oks[0][2] if oks else None, "req_events": len(got_events)})
        report.count("paths_" + backend)
    finally:
        relay.close()


def output_validator_case(report, backend, keys):
    """the homeserver recipe's output validator: only whitelisted authors are visible to outsiders"""
    from nostr_relay.config import Config

    w, x = keys[0], keys[1]
    Config.pubkey_whitelist = [w.public_key.hex()]
    relay = Relay(backend, output_validator="nostr_relay.recipe.homeserver.whitelist_output_validator")
    try:
        pub = Conn(relay)
        ew, ex = relay.signed_event(w, content="by whitelisted"), relay.signed_event(x, content="by outsider")
        pub.send(["EVENT", ew])
        pub.send(["EVENT", ex])
        c = Conn(relay)
        n = len(c.out)
        c.send(["REQ", "s", {"kinds": [1]}])
        stored = [f[2]["id"] for f in c.frames(n) if isinstance(f, list) and f[0] == "EVENT"]
        payload = {"backend": backend, "case": "output_validator"}
        if ex["id"] in stored or ew["id"] not in stored:
            report.property_failure("%s: output validator not applied to stored events: %r" % (backend, [s[:6] for s in stored]), payload, None)
        n = len(c.out)
        lw, lx = relay.signed_event(w, content="live by whitelisted"), relay.signed_event(x, content="live by outsider")
        pub.send(["EVENT", lw])
        pub.send(["EVENT", lx])
        live = [f[2]["id"] for f in c.frames(n) if isinstance(f, list) and f[0] == "EVENT"]
        if lx["id"] in live:
            report.property_failure("%s: the output validator is not applied to live pushes: the outsider's event was pushed" % backend,
                                    payload, None)
        if lw["id"] not in live:
            report.property_failure("%s: a permitted event was not pushed live" % backend, payload, None)
        c.close()
        pub.close()
        report.case(("output_validator", backend), nontrivial=True, sample={"stored": len(stored), "live": len(live)})
    finally:
        relay.close()
        Config.pubkey_whitelist = None


def roles_roundtrip(report, backend, rng, keys):
    relay = Relay(backend, authentication={"enabled": True, "relay_urls": [URL], "actions": {"save": "w", "query": "a"}})
    try:
        pks = [k.public_key.hex() for k in keys]
        last = {}
        for i in range(8):
            pk = rng.choice(pks)
            roles = rng.choice(["r", "w", "rw", "RW", "s", "arws", "a", "W"])
            relay.set_roles(pk, roles)
            last[pk] = roles
            for p, r in last.items():
                got = relay.run(relay.storage.get_auth_roles(p))
                if set(got) != set(r.lower()):
                    report.property_failure("%s: roles of %s.. read back as %r after setting %r" % (backend, p[:6], sorted(got), r),
                                            {"backend": backend, "case": "roles"}, None)
        unknown = relay.run(relay.storage.get_auth_roles("ee" * 32))
        if set(unknown) != set("a"):
            report.property_failure("%s: an unknown pubkey has roles %r" % (backend, unknown), {"backend": backend, "case": "roles"}, None)
        report.case(("roles", backend, repr(last)), nontrivial=True, sample={"backend": backend, "assignments": len(last)})
    finally:
        relay.close()


def role_change_case(report, backend, rng, keys):
    """the roles of a pubkey are changed between two authentications (in the same process, within seconds): each new
    authentication must act on the roles as last set — revoked, narrowed, widened"""
    relay = Relay(backend, authentication={"enabled": True, "relay_urls": [URL], "actions": {"save": "w", "query": "r"}})
    try:
        sk = keys[0]
        pk = sk.public_key.hex()
        seq = [rng.choice(["rw", "w", "r"])] + rng.sample(["s", "r", "w", "rw", "z"], 3)
        seeded = False
        for step, roles in enumerate(seq):
            relay.set_roles(pk, roles)
            got = relay.run(relay.storage.get_auth_roles(pk))
            payload = {"backend": backend, "case": "role-change", "sequence": seq, "step": step}
            if set(got) != set(roles):
                report.property_failure("%s: roles of %s.. read back as %r after setting %r" % (backend, pk[:6], sorted(got), roles), payload, None)
            c = Conn(relay)
            c.send(["AUTH", auth_answer(relay, sk, c.challenge())])
            ev = relay.signed_event(sk, kind=1, content="step %d as %s" % (step, roles))
            n = len(c.out)
            c.send(["EVENT", ev])
            oks = [f for f in c.frames(n) if isinstance(f, list) and f and f[0] == "OK"]
            stored = ev["id"] in relay.store.ids()
            may_save = "w" in roles
            if len(oks) != 1 or bool(oks[0][2]) != may_save or stored != may_save:
                report.property_failure(
                    "%s: after the roles of a pubkey were changed %s -> %r and it authenticated again, its EVENT was %s (save needs 'w')"
                    % (backend, " -> ".join(repr(x) for x in seq[:step]) or "(unset)", roles,
                       "accepted" if (oks and oks[0][2]) or stored else "refused"), payload, None)
            seeded = seeded or stored
            n = len(c.out)
            c.send(["REQ", "q", {"kinds": [1]}])
            fr = c.frames(n)
            served = any(isinstance(f, list) and f[0] in ("EVENT", "EOSE") for f in fr)
            may_query = "r" in roles
            if served != may_query:
                report.property_failure(
                    "%s: after the roles of a pubkey were changed %s -> %r and it authenticated again, its REQ was %s (query needs 'r')"
                    % (backend, " -> ".join(repr(x) for x in seq[:step]) or "(unset)", roles, "served" if served else "refused"),
                    payload, None)
            c.close()
            report.case(("role-change", backend, tuple(seq), step), nontrivial=True, sample={"backend": backend, "sequence": seq, "step": step})
            report.count("role_changes_" + backend)
    finally:
        relay.close()


# ---------------------------------------------------------------------------------------------------------------------
# identity sessions: connections whose identity CHANGES while they live, and that re-use what they hold
# ---------------------------------------------------------------------------------------------------------------------
ROLE_ALPHABET = ["r", "w", "rw", "s", "a", "z", "RW", "rs"]
IDSESS_CONFIGS = [("w", "r"), ("ws", "rw"), ("w", "a"), ("a", "r"), ("rw", "s")]
SUB_IDS = ["s0", "s1"]          # a deliberately tiny pool: a REQ very often carries the id of a subscription that is open


def gen_identity_program(rng, pks, steps, save_roles="w", query_roles="r"):
    """a random program for two long-lived connections (same remote address) and the storage behind them: (re-)authentication
    as any of three pubkeys, failed authentication, role assignments in storage, REQ / CLOSE over a tiny pool of
    subscription ids, new events (regular, ephemeral, parameterised replaceable with a tiny pool of d values =
    replacements), re-submissions of earlier events, and publications by a third party (live deliveries).
    Only symbolic steps: events are built when the program runs, so the program is its own replay.
    The generator keeps a rough picture of the session (who holds which roles, which ids are probably open) for one purpose
    only: to steer towards histories in which a connection's verdict CHANGES while it holds something — role sets are drawn
    from both sides of each configured action, and a REQ prefers an id that is probably open."""
    filters = [{"kinds": [1]}, {"kinds": [1, 30000]}, {"kinds": [20001, 30000]}, {"kinds": [1, 20001, 30000], "limit": 10},
               {"kinds": [1, 30000], "authors": [pks[0], pks[1]]}, {"kinds": [1], "authors": [pks[2]]}]

    def pick_roles():
        action = set(rng.choice([save_roles, query_roles, query_roles]))
        side = rng.random() < 0.6
        pool = [r for r in ROLE_ALPHABET if bool(set(r.lower()) & action) == side]
        return rng.choice(pool or ROLE_ALPHABET)

    prog = []
    assigned = {}
    for k in rng.sample(range(3), rng.choice([2, 3])):        # (a pubkey without assignment has the anonymous role)
        assigned[k] = pick_roles()
        prog.append({"op": "roles", "k": k, "roles": assigned[k]})
    holds = {0: None, 1: None}
    tok = {0: "a", 1: "a"}
    probably_open = {0: [], 1: []}
    made = []                                                 # steps that created an event

    def req(c, sub):
        prog.append({"op": "req", "c": c, "sub": sub, "f": [rng.choice(filters)]})
        if set(tok[c]) & set(query_roles):
            if sub not in probably_open[c]:
                probably_open[c].append(sub)
        elif sub in probably_open[c]:
            probably_open[c].remove(sub)

    def auth(c, k):
        prog.append({"op": "auth", "c": c, "k": k})
        holds[c], tok[c] = k, assigned.get(k, "a").lower()
        # the moment that matters: right after its identity has changed the connection re-uses something it holds
        if rng.random() < 0.6:
            y = rng.random()
            if y < 0.55 and probably_open[c]:
                req(c, rng.choice(probably_open[c]))
            elif y < 0.8 and made:
                prog.append({"op": "resend", "c": c, "ref": rng.choice(made)})
            else:
                made.append(len(prog))
                prog.append({"op": "event", "c": c, "k": rng.randrange(3), "kind": 30000, "d": rng.choice("xy")})

    while len(prog) < steps:
        x = rng.random()
        c = rng.randrange(2)
        if x < 0.16:
            auth(c, rng.randrange(3))
        elif x < 0.19:
            prog.append({"op": "auth_bad", "c": c, "k": rng.randrange(3)})
        elif x < 0.29:
            held = [k for k in holds.values() if k is not None]
            k = rng.choice(held) if held and rng.random() < 0.7 else rng.randrange(3)
            assigned[k] = pick_roles()
            prog.append({"op": "roles", "k": k, "roles": assigned[k]})
            # mostly the connection that holds this pubkey authenticates again and so picks the new roles up
            for cc, kk in list(holds.items()):
                if kk == k and rng.random() < 0.6:
                    auth(cc, k)
        elif x < 0.53:
            req(c, rng.choice(probably_open[c]) if probably_open[c] and rng.random() < 0.7 else rng.choice(SUB_IDS))
        elif x < 0.56:
            sub = rng.choice(SUB_IDS)
            prog.append({"op": "close", "c": c, "sub": sub})
            if sub in probably_open[c]:
                probably_open[c].remove(sub)
        elif x < 0.74:
            kind = rng.choice([1, 1, 20001, 30000, 30000])
            made.append(len(prog))
            prog.append({"op": "event", "c": c, "k": rng.randrange(3), "kind": kind, "d": rng.choice("xy")})
        elif x < 0.83 and made:
            prog.append({"op": "resend", "c": c, "ref": rng.choice(made)})
        else:
            made.append(len(prog))
            prog.append({"op": "publish", "kind": rng.choice([1, 1, 20001, 30000]), "d": rng.choice("xy")})
    return prog


def _matches(ev, filters):
    return any(ev["kind"] in f.get("kinds", [ev["kind"]]) and ev["pubkey"] in f.get("authors", [ev["pubkey"]]) for f in filters)


def identity_session(report, backend, save_roles, query_roles, program, keys):
    """runs one program (gen_identity_program) through the real start_client.  Oracle = the property, stated over the
    history: every REQ / EVENT is judged by the roles of the token the connection holds AT THAT MOMENT (the anonymous role
    before the first successful AUTH; the roles its pubkey had in storage when it last authenticated successfully) —
      EVENT: roles ∩ save = ∅  =>  one OK false 'restricted', the event is neither stored nor pushed to anybody by this submission;
             else not 'restricted', and a first submission is stored / broadcast;
      REQ:   roles ∩ query = ∅ =>  NOTICE 'restricted', no stored answer, no EOSE, the connection holds no subscription of that
             id, and nothing is delivered under that id later on either (until an authorised REQ opens it again);
             else served (EOSE, stored matches),
    whatever the connection was allowed to do earlier, whatever it holds already (an open subscription of the same id, an
    event it submitted before).  Where the roles in storage of the held pubkey have changed since the authentication and the
    two role sets give different verdicts, the property text does not decide ('the connection's roles'): not judged."""
    import time
    from aionostr.key import PrivateKey

    relay = Relay(backend, authentication={"enabled": True, "relay_urls": [URL], "actions": {"save": save_roles, "query": query_roles}})
    try:
        pks = [k.public_key.hex() for k in keys]
        obs_key = PrivateKey(bytes([9]) * 32)
        relay.set_roles(obs_key.public_key.hex(), "arws")
        obs = Conn(relay)
        obs.send(["AUTH", auth_answer(relay, obs_key, obs.challenge())])
        obs.send(["REQ", "watch", {"kinds": [1, 20001, 30000]}])
        conns = [Conn(relay), Conn(relay)]
        everybody = conns + [obs]
        base = int(time.time()) - 2000
        stored_roles = {}                       # pubkey -> role set as last assigned
        token = [None, None]                    # per connection: None or (pubkey, role set at authentication)
        ever = [{frozenset("a")}, {frozenset("a")}]      # role sets the connection has held so far (it starts anonymous)
        open_ids = [set(), set()]               # subscription ids open by the specification
        refused = [set(), set()]                # ids whose last REQ was refused: nothing may arrive under them
        events = {}                             # step -> event
        accepted = {}                           # id -> event, acknowledged with OK true
        need = {"save": set(save_roles), "query": set(query_roles)}

        def verdict(c, action):
            """(allowed by the token, decided?)"""
            if token[c] is None:
                return bool(set("a") & need[action]), True
            pk, roles = token[c]
            by_token = bool(roles & need[action])
            by_storage = bool(stored_roles.get(pk, set("a")) & need[action])
            return by_token, by_token == by_storage

        def who(c):
            return "connection %d holding roles %r%s" % (
                c, sorted(token[c][1]) if token[c] else ["a"], "" if token[c] else " (unauthenticated)")

        for step, st in enumerate(program):
            op = st["op"]
            payload = {"case": "identity-session", "backend": backend, "save": save_roles, "query": query_roles,
                       "program": program, "step": step}
            marks = [len(x.out) for x in everybody]
            key = None
            if op == "roles":
                relay.set_roles(pks[st["k"]], st["roles"])
                stored_roles[pks[st["k"]]] = set(st["roles"].lower())
                got = relay.run(relay.storage.get_auth_roles(pks[st["k"]]))
                if set(got) != stored_roles[pks[st["k"]]]:
                    report.property_failure("%s: roles of %s.. read back as %r after setting %r"
                                            % (backend, pks[st["k"]][:6], sorted(got), st["roles"]), payload, None)
            elif op in ("auth", "auth_bad"):
                c = st["c"]
                ch = conns[c].challenge()
                conns[c].send(["AUTH", auth_answer(relay, keys[st["k"]], ch if op == "auth" else "00" * 16)])
                said_no = any(isinstance(f, list) and f[0] == "NOTICE" for f in conns[c].frames(marks[c]))
                if op == "auth" and not said_no:
                    pk = pks[st["k"]]
                    new = (pk, set(stored_roles.get(pk, set("a"))))
                    if token[c] is not None and token[c] != new:
                        report.count("idsess_identity_changes")
                    token[c] = new
                    ever[c].add(frozenset(new[1]))
                elif op == "auth":
                    report.count("idsess_valid_auth_answered_with_notice")      # (C15's business; the identity then stays)
            elif op == "req":
                c, sub = st["c"], st["sub"]
                allowed, decided = verdict(c, "query")
                reuse = sub in open_ids[c]
                conns[c].send(["REQ", sub] + st["f"])
                fr = [f for f in conns[c].frames(marks[c]) if isinstance(f, list)]
                answer = [f for f in fr if f[0] in ("EVENT", "EOSE") and f[1] == sub]
                restricted = any(f[0] == "NOTICE" and "restricted" in str(f[1]) for f in fr)
                holds = any(i == sub and getattr(s, "queue", None) is conns[c]._queue
                            for subs in relay.storage.clients.values() for i, s in subs.items())
                how = "%s sent REQ %r%s" % (who(c), sub, " (an id it has open already)" if reuse else "")
                if not decided:
                    report.count("idsess_stale_token_unjudged")
                    allowed = any(f[0] == "EOSE" for f in answer)
                elif allowed:
                    have = [e for e in accepted.values() if e["id"] in relay.store.ids() and _matches(e, st["f"])]
                    if restricted or not any(f[0] == "EOSE" for f in answer) or (have and not any(f[0] == "EVENT" for f in answer)):
                        report.property_failure("%s: %s (query needs %r) and was not served: %r" % (backend, how, query_roles, fr[:3]),
                                                payload, None)
                else:
                    if answer or holds:
                        report.property_failure(
                            "%s: %s (query needs %r) and was served: %d events%s%s, instead of being refused" % (
                                backend, how, query_roles, sum(1 for f in answer if f[0] == "EVENT"),
                                ", EOSE" if any(f[0] == "EOSE" for f in answer) else "",
                                ", and holds a subscription of that id" if holds else ""), payload, None)
                    elif not restricted:
                        report.property_failure("%s: %s (query needs %r): the refusal is not a 'restricted' NOTICE: %r"
                                                % (backend, how, query_roles, fr), payload, None)
                    if reuse:
                        report.count("idsess_req_refused_under_open_id")
                if reuse:
                    report.count("idsess_req_under_open_id")
                if allowed:
                    open_ids[c].add(sub)
                    refused[c].discard(sub)
                else:
                    open_ids[c].discard(sub)
                    refused[c].add(sub)
                key = (op, allowed, decided, reuse, len(ever[c]) > 1)
            elif op == "close":
                c = st["c"]
                conns[c].send(["CLOSE", st["sub"]])
                open_ids[c].discard(st["sub"])
            elif op in ("event", "resend", "publish"):
                if op == "resend":
                    ev = events[st["ref"]]
                else:
                    sk = obs_key if op == "publish" else keys[st["k"]]
                    ev = relay.signed_event(sk, kind=st["kind"], content="step %d" % step, created_at=base + step,
                                            tags=[["d", st["d"]]] if st["kind"] == 30000 else [])
                    events[step] = ev
                ephemeral = 20000 <= ev["kind"] < 30000
                was_stored = ev["id"] in relay.store.ids()
                first = not was_stored and ev["id"] not in accepted
                # a replaceable event older than an accepted one of the same address may rightly be turned away
                superseded = any(e["id"] != ev["id"] and (e["pubkey"], e["kind"], e["tags"]) == (ev["pubkey"], ev["kind"], ev["tags"])
                                 and e["created_at"] >= ev["created_at"] for e in accepted.values() if e["kind"] == 30000)
                if op == "publish":
                    sender, c, allowed, decided = obs, None, True, True
                else:
                    c = st["c"]
                    sender = conns[c]
                    allowed, decided = verdict(c, "save")
                n = len(sender.out)
                sender.send(["EVENT", ev])
                oks = [f for f in sender.frames(n) if isinstance(f, list) and f[0] == "OK"]
                stored = ev["id"] in relay.store.ids()
                pushed_to = [i for i, x in enumerate(everybody) for f in x.frames(marks[i])
                             if isinstance(f, list) and f[0] == "EVENT" and isinstance(f[2], dict) and f[2].get("id") == ev["id"]]
                how = "%s %s a kind-%d event" % ("the observer" if c is None else who(c),
                                                 "re-submitted" if op == "resend" else "submitted", ev["kind"])
                if len(oks) != 1:
                    report.property_failure("%s: %s: %d OK frames" % (backend, how, len(oks)), payload, None)
                elif not decided:
                    report.count("idsess_stale_token_unjudged")
                elif allowed:
                    if "restricted" in str(oks[0][3]):
                        report.property_failure("%s: %s (save needs %r) and was told %r" % (backend, how, save_roles, oks[0][3]), payload, None)
                    elif first and not superseded and not (oks[0][2] and (stored or (ephemeral and 2 in pushed_to))):
                        report.property_failure("%s: %s (save needs %r): refused or not stored / broadcast: %r"
                                                % (backend, how, save_roles, oks[0]), payload, None)
                else:
                    if oks[0][2] or (stored and not was_stored) or pushed_to:
                        report.property_failure(
                            "%s: %s (save needs %r) and it was %s" % (
                                backend, how, save_roles,
                                "acknowledged" if oks[0][2] else ("stored" if stored and not was_stored else "pushed to subscribers")),
                            payload, None)
                    elif "restricted" not in str(oks[0][3]):
                        report.property_failure("%s: %s (save needs %r): the refusal does not say 'restricted': %r"
                                                % (backend, how, save_roles, oks[0]), payload, None)
                    if op == "resend":
                        report.count("idsess_resend_refused")
                if oks and oks[0][2]:
                    accepted[ev["id"]] = ev
                key = (op, ev["kind"], allowed, decided, first, c is not None and len(ever[c]) > 1)
            # whatever the step was: nothing arrives under an id whose REQ was refused
            for c in (0, 1):
                late = [f for f in conns[c].frames(marks[c]) if isinstance(f, list) and f[0] in ("EVENT", "EOSE") and f[1] in refused[c]]
                if late and not (op == "req" and st["c"] == c and st["sub"] == late[0][1]):      # (that one is reported above)
                    report.property_failure(
                        "%s: connection %d received %d frame(s) under subscription id %r although its last REQ of that id had been "
                        "refused ('restricted')" % (backend, c, len(late), late[0][1]), payload, None)
            if key is not None:
                report.case(("identity-session", backend, save_roles, query_roles) + key, nontrivial=True,
                            sample={"backend": backend, "save": save_roles, "query": query_roles, "step": st})
            report.count("idsess_steps_" + backend)
        for x in everybody:
            x.close()
    finally:
        relay.close()


def run(report, tier, seed):
    rng = random.Random(seed)
    drv = common.Driver()
    loop = asyncio.new_event_loop()
    asyncio.set_event_loop(loop)
    from aionostr.key import PrivateKey

    keys = [PrivateKey(bytes([i + 1]) * 32) for i in range(3)]
    report.coverage["rule"] = (
        "can_do over enabled x configured roles {a,r,w,rw,s,arws,unset} x token roles {none,{},a,r,w,rw,s}; through "
        "start_client on both backends: save roles x query roles x connection identity (unauthenticated, r, w, rw, s) x event kind "
        "(regular, ephemeral, parameterised replaceable) with "
        "an all-powerful observer watching broadcasts; the homeserver output validator on stored answers and live pushes; "
        "role assignments set repeatedly and read back; the roles of a pubkey changed (revoked / narrowed / widened) between two "
        "authentications, EVENT and REQ after each; identity sessions: random programs over two long-lived connections (one "
        "address) that authenticate again and again as any of three pubkeys (also unsuccessfully) while role assignments change "
        "in storage, and that re-use what they hold — REQ over a pool of two subscription ids (so mostly an id that is open), "
        "re-submission of earlier events, replacements — with third-party publications in between; every REQ / EVENT judged by "
        "the roles of the token held at that moment, and nothing may arrive under an id whose REQ was refused; "
        "non-trivial = something must be refused")
    report.assumptions += ["identities are established with real NIP-42 answers; the per-object hook evaluate_target is the shipped no-op"]
    try:
        can_do_matrix(report, drv)
        combos = [("w", "a"), ("w", "r"), ("ws", "rw"), ("a", "a")]
        # an action configured with the empty role set admits nobody, whoever asks
        closed = [("", "a"), ("w", ""), ("", "")]
        idents = [None, "r", "w", "rw", "s"]
        if tier == "quick":
            cases = [(s, q, i) for (s, q) in combos[:3] for i in idents]
            rng.shuffle(cases)
            cases = cases[:8] + [(s, q, i) for (s, q) in closed[:2] for i in rng.sample(idents, 2)]
        else:
            cases = [(s, q, i) for (s, q) in combos + closed for i in idents]
        for backend in ("sql", "kv"):
            for n, (s, q, i) in enumerate(cases):
                path_case(report, backend, s, q, i, keys)
                # the same path for an ephemeral (never stored, only broadcast) and a parameterised replaceable kind
                if tier != "quick" or n % 2 == 0:
                    path_case(report, backend, s, q, i, keys, kind=20001)
                if tier != "quick" or n % 4 == 1:
                    path_case(report, backend, s, q, i, keys, kind=30000)
            output_validator_case(report, backend, keys)
            roles_roundtrip(report, backend, rng, keys)
            for _ in range(2 if tier == "quick" else 12):
                role_change_case(report, backend, rng, keys)
            # connections whose identity changes during their lifetime and that re-use what they hold.  The sizes are chosen
            # on general grounds: ~16 % of the steps are authentications and ~24 % REQs over two ids, so that a program of 48
            # steps contains several "REQ under an open id after the verdict of the connection has changed" in either direction
            # (the counters idsess_* in the evidence say how many there were)
            pks = [k.public_key.hex() for k in keys]
            n_prog, n_steps = (6, 48) if tier == "quick" else (40, 60)
            for i in range(n_prog):
                s, q = IDSESS_CONFIGS[i % len(IDSESS_CONFIGS)] if i < len(IDSESS_CONFIGS) else rng.choice(IDSESS_CONFIGS)
                identity_session(report, backend, s, q, gen_identity_program(rng, pks, n_steps, s, q), keys)
    finally:
        drv.close()


def replay(report, path):
    import json

    data = json.load(open(path))
    drv = common.Driver()
    loop = asyncio.new_event_loop()
    asyncio.set_event_loop(loop)
    from aionostr.key import PrivateKey

    keys = [PrivateKey(bytes([i + 1]) * 32) for i in range(3)]
    try:
        for it in (data.get("violations") or []):
            r = it.get("replay") or {}
            if r.get("case") == "identity-session":
                identity_session(report, r["backend"], r["save"], r["query"], r["program"], keys)
            elif "save" in r:
                path_case(report, r["backend"], r["save"], r["query"], r["identity"], keys, kind=r.get("kind", 1))
            elif r.get("case") == "output_validator":
                output_validator_case(report, r["backend"], keys)
    finally:
        drv.close()
