"""
C13 — Subscription protocol: one EOSE per REQ, CLOSE and replacement end delivery.
Tie: random multi-connection sessions through the real web.start_client on both backends vs the Lean protocol
machine (`proto.session`: one label per message + the settled schedule): per message, the frames every
connection receives (as multisets, stored answers in any order, EOSE after its stored events) and the
registry of open subscriptions must agree.
Search (oracle on the real transcripts, independent of the model): every REQ is answered by exactly one EOSE or
a NOTICE within its step; no frame for a subscription name after its CLOSE / disconnect unless re-requested;
never more than subscription_limit open subscriptions; a refused REQ leaves the others open.
"""
import json
import random
from collections import Counter

from lib import common, psess, ptrace
from lib.proto import Relay

THEOREMS_TIED = ["C13_eose_at_most_once", "C13_req_outcomes", "C13_query_runs_to_eose", "C13_req_answered_settled", "C13_limit", "C13_limit_refusal_intact",
                 "C13_unsubscribe_effect", "C13_cancelled_puts_no_event", "C13_nothing_after_disconnect", "C13_query_enabled",
                 "C13_send_enabled"]


def check_session(report, drv, backend, rng, keys, tag, limit=3, n_msgs=None, msgs=None):
    relay = Relay(backend, subscription_limit=limit)
    try:
        run = psess.Runner(relay, rng, keys, limit)
        if msgs is None:
            msgs = psess.gen_session(rng, keys, relay, n_msgs or rng.randint(8, 22), limit)
        for m in msgs:
            run.step(m)
        payload = {"backend": backend, "limit": limit, "messages": run.sent_msgs}
        resp = drv.call({"op": "proto.session", "limit": limit, "eoc": backend == "kv", "msgs": run.model_msgs})
        n_nontrivial = 0
        corr_ok = True
        for i, (mm, real, r) in enumerate(zip(run.model_msgs, run.real_steps, resp)):
            if r == "disabled":
                report.correspondence_break("%s protocol machine: label not enabled" % backend, dict(payload, at=i), "enabled", "disabled")
                break
            model = run.model_frames(r)
            for c in (real if corr_ok else []):
                got, want = real[c], model.get(c, [])
                if mm["t"] == "req" and c == mm["c"]:
                    # C02: an event matching k filters of one REQ arrives between one and k times
                    k = max(1, len(run.sent_msgs[i]["msg"]) - 2)
                    cnt = Counter(got)
                    got = [x for x in cnt for _ in range(1 if (x[0] == "EVENT" and cnt[x] <= k) else cnt[x])]
                if Counter(got) != Counter(want):
                    report.correspondence_break("%s start_client vs protocol machine (frames of connection %d after message %d: %s)"
                                                % (backend, c, i, mm["t"]), dict(payload, at=i), [list(x) for x in got], [list(x) for x in want])
                    corr_ok = False
                    break
                # EOSE follows the stored events of its subscription within the step
                if mm["t"] == "req" and c == mm["c"]:
                    kinds = [x[0] for x in got]
                    if "EOSE" in kinds and "EVENT" in kinds[kinds.index("EOSE"):]:
                        # an EVENT after the EOSE inside the REQ's own step would be a stored event after EOSE
                        report.property_failure("%s: a stored event was sent after the EOSE of its REQ" % backend, dict(payload, at=i), None)
            if corr_ok and run.real_subs[i] != run.model_subs(r):
                report.correspondence_break("%s registry of open subscriptions after message %d (%s)" % (backend, i, mm["t"]),
                                            dict(payload, at=i), run.real_subs[i], run.model_subs(r))
                corr_ok = False
            # --- the property, on the real transcript alone ------------------------------------------------
            c = mm["c"]
            if mm["t"] == "req":
                got = real[c]
                name = psess.sub_key(run.sent_msgs[i]["msg"][1])
                eoses = [x for x in got if x[0] == "EOSE" and x[1] == name]
                notices = [x for x in got if x[0] == "NOTICE"]
                if len(eoses) + len(notices) != 1:
                    report.property_failure("%s: a REQ was answered by %d EOSE and %d NOTICE frames" % (backend, len(eoses), len(notices)),
                                            dict(payload, at=i), None)
                if notices:
                    n_nontrivial += 1
                for x in got:
                    if x[0] in ("EVENT", "EOSE") and x[1] != name and (c, x[1]) not in run_open_before(run, i):
                        report.property_failure("%s: a frame for subscription %r which is not open" % (backend, x[1]), dict(payload, at=i), None)
            if mm["t"] == "event" and mm.get("accepted"):
                for cc, got in real.items():
                    for x in got:
                        if x[0] == "EVENT" and (cc, x[1]) not in run_open_before(run, i + 1):
                            report.property_failure("%s: an event was pushed under %r to a connection that has no such open subscription"
                                                    % (backend, x[1]), dict(payload, at=i), None)
            if any(len(v) > limit for v in run.real_subs[i]):
                report.property_failure("%s: a connection holds more than subscription_limit=%d subscriptions" % (backend, limit),
                                        dict(payload, at=i), None)
        leftover = relay.open_subscriptions()
        for cno, cn in run.conns.items():
            if cn.exc is not None:
                report.property_failure("%s: an exception escaped the connection handler: %r" % (backend, cn.exc), payload, None)
        for cn in run.conns.values():
            if not cn.done:
                cn.close()
        if any(v for v in relay.open_subscriptions().values()):
            report.property_failure("%s: subscriptions survive their connections: %r" % (backend, relay.open_subscriptions()), payload, None)
        kinds = Counter(m["t"] for m in run.model_msgs)
        for k, v in kinds.items():
            report.count("msg_%s" % k, v)
        report.count("req_refused", sum(1 for m in run.model_msgs if m["t"] == "req" and not m.get("allowed", True)))
        report.count("req_unusable", sum(1 for m in run.model_msgs if m["t"] == "req" and not m.get("usable", True)))
        report.case((backend, tag, json.dumps(run.model_msgs, sort_keys=True)), nontrivial=n_nontrivial > 0 or kinds.get("close", 0) > 0,
                    sample={"backend": backend, "messages": len(run.model_msgs), "kinds": dict(kinds)})
        report.count("sessions_" + backend)
    finally:
        relay.close()


def run_open_before(run, i):
    """reference registry (conn, subname) reconstructed from the model messages up to (not including) message i"""
    inv = {v: k for k, v in run.names.ids.items()}
    open_ = set()
    for m in run.model_msgs[:i]:
        if m["t"] == "req":
            open_.discard((m["c"], inv[m["sub"]]))
            if m.get("usable") and m.get("allowed"):
                open_.add((m["c"], inv[m["sub"]]))
        elif m["t"] == "close":
            open_.discard((m["c"], inv[m["sub"]]))
        elif m["t"] == "disconnect":
            open_ = {k for k in open_ if k[0] != m["c"]}
    return open_


def directed(report, drv, backend, rng, keys):
    """hand-written histories for the corners the property names"""
    scen = {
        "replace-with-invalid": [{"t": "connect", "c": 0}, {"t": "connect", "c": 1},
                                 {"t": "req", "c": 0, "sub": "a", "nf": 1, "force_valid": True},
                                 {"t": "req", "c": 0, "sub": "a", "nf": 1, "force": "invalid"},
                                 {"t": "event", "c": 1, "what": "new"}, {"t": "event", "c": 1, "what": "new"},
                                 {"t": "event", "c": 1, "what": "new"}],
        "replace-with-nothing": [{"t": "connect", "c": 0}, {"t": "connect", "c": 1},
                                 {"t": "req", "c": 0, "sub": "a", "nf": 1, "force_valid": True},
                                 {"t": "req", "c": 0, "sub": "a", "nf": 0},
                                 {"t": "event", "c": 1, "what": "new"}, {"t": "event", "c": 1, "what": "new"}],
        "close-then-events": [{"t": "connect", "c": 0}, {"t": "connect", "c": 1},
                              {"t": "req", "c": 0, "sub": 5, "nf": 1, "force_valid": True}, {"t": "close", "c": 0, "sub": "5"},
                              {"t": "event", "c": 1, "what": "new"}, {"t": "event", "c": 1, "what": "new"}],
    }
    for name, msgs in scen.items():
        check_session(report, drv, backend, rng, keys, "directed-" + name, msgs=msgs)


def midstream_cancel(report, backend, keys, rounds=12):
    """subscriptions CLOSEd (or replaced by a REQ of the same id) while their stored events are still streaming — more often
    than the storage has query slots: every later REQ must still be answered.  The stream is stopped from outside: the
    connection's subscription queue lets the first stored event of a query through and keeps the second `put` waiting, so the
    cancellation hits a query task that holds whatever a running query holds."""
    import asyncio
    from lib import proto
    from lib.proto import Relay, Conn

    relay = Relay(backend)
    orig_put = proto._RecQueue.put
    state = {"queue": None, "gated": True, "puts": {}, "gate": None}

    async def put(self, item):
        if self is state["queue"] and state["gated"] and isinstance(item, tuple) and len(item) == 2 and item[1] is not None:
            n = state["puts"].get(item[0], 0) + 1
            state["puts"][item[0]] = n
            if n >= 2:
                proto.HELD["n"] += 1
                try:
                    await state["gate"].wait()
                finally:
                    proto.HELD["n"] -= 1
        return await orig_put(self, item)

    proto._RecQueue.put = put
    # SQL: the stream is (also) stopped where a real one waits — in the fetch of the next row, inside storage.run_query — so that
    # the cancellation is delivered *into* the query generator, as it is when a CLOSE arrives while the database is working
    orig_anext = None
    if backend == "sql":
        from sqlalchemy.ext.asyncio import AsyncResult

        orig_anext = AsyncResult.__anext__
        async def anext(self_):
            if state["gated"] and state["gate"] is not None:
                self_._verif_rows = getattr(self_, "_verif_rows", 0) + 1     # (not id(): ids are reused after collection)
                if self_._verif_rows >= 2:
                    proto.HELD["n"] += 1
                    try:
                        await state["gate"].wait()
                    finally:
                        proto.HELD["n"] -= 1
            return await orig_anext(self_)

        AsyncResult.__anext__ = anext
    try:
        pub = Conn(relay, remote_addr="3.3.3.3")
        for i in range(6):
            pub.send_event(relay.signed_event(keys[i % len(keys)], kind=1, content="stored %d %s" % (i, backend), created_at=1700000000 + i))
        c = Conn(relay)
        c.send(["REQ", "warmup", {"kinds": [7]}])
        state["queue"] = c._queue

        async def mkgate():
            state["gate"] = asyncio.Event()
        relay.run(mkgate())
        payload = {"backend": backend, "case": "midstream-cancel", "rounds": rounds}
        for i in range(rounds):
            name = "s%d" % i
            n = len(c.out)
            c.send(["REQ", name, {"kinds": [1]}])
            got = [f for f in c.frames(n) if isinstance(f, list) and f[0] == "EVENT" and f[1] == name]
            if not got:
                report.property_failure("%s: round %d: an accepted REQ streamed nothing although 6 events match (after %d subscriptions "
                                        "were ended mid-stream)" % (backend, i, i), payload, None)
                break
            if any(isinstance(f, list) and f[0] == "EOSE" and f[1] == name for f in c.frames(n)):
                report.count("midstream_not_midstream")
            # end it mid-stream: CLOSE, or a REQ reusing the id (even rounds / odd rounds)
            if i % 2 == 0:
                c.send(["CLOSE", name])
            else:
                c.send(["REQ", name, {"ids": ["nothex"]}])
        state["gated"] = False

        async def opengate():
            state["gate"].set()
        relay.run(opengate())
        relay.settle()
        n = len(c.out)
        c.send(["REQ", "final", {"kinds": [1]}])
        fr = c.frames(n)
        evs = [f for f in fr if isinstance(f, list) and f[0] == "EVENT" and f[1] == "final"]
        eose = [f for f in fr if isinstance(f, list) and f[0] == "EOSE" and f[1] == "final"]
        if len(evs) != 6 or len(eose) != 1:
            report.property_failure("%s: after %d subscriptions were ended while their stored events were streaming, an accepted REQ was "
                                    "answered with %d of 6 events and %d EOSE" % (backend, rounds, len(evs), len(eose)), payload, None)
        # and on another connection
        d = Conn(relay, remote_addr="4.4.4.4")
        n = len(d.out)
        d.send(["REQ", "other", {"kinds": [1]}])
        if not any(isinstance(f, list) and f[0] == "EOSE" and f[1] == "other" for f in d.frames(n)):
            report.property_failure("%s: after %d mid-stream cancellations another connection's REQ got no EOSE" % (backend, rounds), payload, None)
        late = [f for f in c.frames() if isinstance(f, list) and f[0] in ("EVENT", "EOSE") and str(f[1]).startswith("s") and f[1] != "final"]
        report.case(("midstream", backend), nontrivial=True, sample={"case": "midstream-cancel", "backend": backend, "rounds": rounds})
        report.count("midstream_cancel_runs")
        for x in (c, d, pub):
            x.close()
    finally:
        proto._RecQueue.put = orig_put
        if orig_anext is not None:
            AsyncResult.__anext__ = orig_anext
        relay.close()


def run(report, tier, seed):
    rng = random.Random(seed)
    drv = common.Driver()
    from aionostr.key import PrivateKey

    keys = [PrivateKey(bytes([i + 1]) * 32) for i in range(3)]
    report.coverage["rule"] = (
        "sessions of 8-22 messages (plus a burst past subscription_limit=3 and a replacement at the limit) on 2-4 connections "
        "through the real start_client on both backends: REQ with 0-3 filters (valid / invalid / not-a-query; subscription ids "
        "strings, numbers, null, with quotes), CLOSE of open and unknown ids, EVENT (new / resubmitted / bad signature), "
        "disconnect and late connect; 12 (thorough: 40) subscriptions CLOSEd or replaced while their stored events are streaming "
        "(the stream is stopped from outside after its first event), then fresh REQs on the same and on another connection; "
        "the loop is settled after every message; non-trivial = the session has a refused REQ or a CLOSE")
    report.assumptions += ["quiescence after every message (interleavings inside a step are whatever the event loop does; "
                           "all interleavings are covered by the theorems over `run`, not by this check)"]
    try:
        for backend in ("sql", "kv"):
            directed(report, drv, backend, rng, keys)
            midstream_cancel(report, backend, keys, rounds=12 if tier == "quick" else 40)
        for i in range(10 if tier == "quick" else 250):
            for backend in ("sql", "kv"):
                check_session(report, drv, backend, rng, keys, i)
        # unsettled runs (REQ / CLOSE / EVENT / disconnect queued in bursts): the recorded schedule must be a run of the machine
        for i in range(5 if tier == "quick" else 120):
            for backend in ("sql", "kv"):
                ptrace.run_trace_session(report, drv, backend, rng, keys, i, limit=3)
    finally:
        drv.close()


def replay(report, path):
    data = json.load(open(path))
    report.coverage["note"] = "replay re-runs the session generator with the recorded seed; sessions are deterministic per seed"
    run(report, "quick", data.get("seed", 1))
