"""
C13 — Subscription protocol: one EOSE per REQ, CLOSE and replacement end delivery.
Tie: random multi-connection sessions through the real web.start_client on both backends vs the Lean protocol
machine (`proto.session`: one label per message + the settled schedule): per message, the frames every
connection receives (as multisets, stored answers in any order, EOSE after its stored events) and the
registry of open subscriptions must agree.
Search (oracle on the real transcripts, independent of the model): every REQ is answered by exactly one EOSE or
a NOTICE within its step; no frame for a subscription name after its CLOSE / disconnect unless re-requested;
never more than subscription_limit open subscriptions; a refused REQ leaves the others open.
"""
import copy
import json
import random
from collections import Counter

from lib import common, psess, ptrace
from lib.proto import Relay

THEOREMS_TIED = ["C13_eose_at_most_once", "C13_req_outcomes", "C13_query_runs_to_eose", "C13_req_answered_settled", "C13_limit", "C13_limit_refusal_intact",
                 "C13_unsubscribe_effect", "C13_cancelled_puts_no_event", "C13_nothing_after_disconnect", "C13_query_enabled",
                 "C13_send_enabled"]


def check_session(report, drv, backend, rng, keys, tag, limit=3, n_msgs=None, msgs=None, filters=None):
    """`filters`: a filter generator with the signature and the contract of psess.gen_filter (-> (json filter, valid / invalid /
    notquery)) that is used for the REQs of this session instead of it (default: psess.gen_filter itself)"""
    relay = Relay(backend, subscription_limit=limit)
    orig_gen = psess.gen_filter
    try:
        if filters is not None:
            psess.gen_filter = filters
        run = psess.Runner(relay, rng, keys, limit)
        if msgs is None:
            msgs = psess.gen_session(rng, keys, relay, n_msgs or rng.randint(8, 22), limit)
        for m in msgs:
            run.step(m)
        payload = {"backend": backend, "limit": limit, "messages": run.sent_msgs}
        resp = drv.call({"op": "proto.session", "limit": limit, "eoc": backend == "kv", "msgs": run.model_msgs})
        n_nontrivial = 0
        corr_ok = True
        for i, (mm, real, r) in enumerate(zip(run.model_msgs, run.real_steps, resp)):
            if r == "disabled":
                report.correspondence_break("%s protocol machine: label not enabled" % backend, dict(payload, at=i), "enabled", "disabled")
                break
            model = run.model_frames(r)
            for c in (real if corr_ok else []):
                got, want = real[c], model.get(c, [])
                if mm["t"] == "req" and c == mm["c"]:
                    # C02: an event matching k filters of one REQ arrives between one and k times
                    k = max(1, len(run.sent_msgs[i]["msg"]) - 2)
                    cnt = Counter(got)
                    got = [x for x in cnt for _ in range(1 if (x[0] == "EVENT" and cnt[x] <= k) else cnt[x])]
                if Counter(got) != Counter(want):
                    report.correspondence_break("%s start_client vs protocol machine (frames of connection %d after message %d: %s)"
                                                % (backend, c, i, mm["t"]), dict(payload, at=i), [list(x) for x in got], [list(x) for x in want])
                    corr_ok = False
                    break
                # EOSE follows the stored events of its subscription within the step
                if mm["t"] == "req" and c == mm["c"]:
                    kinds = [x[0] for x in got]
                    if "EOSE" in kinds and "EVENT" in kinds[kinds.index("EOSE"):]:
                        # an EVENT after the EOSE inside the REQ's own step would be a stored event after EOSE
                        report.property_failure("%s: a stored event was sent after the EOSE of its REQ" % backend, dict(payload, at=i), None)
            if corr_ok and run.real_subs[i] != run.model_subs(r):
                report.correspondence_break("%s registry of open subscriptions after message %d (%s)" % (backend, i, mm["t"]),
                                            dict(payload, at=i), run.real_subs[i], run.model_subs(r))
                corr_ok = False
            # --- the property, on the real transcript alone ------------------------------------------------
            c = mm["c"]
            if mm["t"] == "req":
                got = real[c]
                name = psess.sub_key(run.sent_msgs[i]["msg"][1])
                eoses = [x for x in got if x[0] == "EOSE" and x[1] == name]
                notices = [x for x in got if x[0] == "NOTICE"]
                if len(eoses) + len(notices) != 1:
                    code = run.conns[c].closed_with
                    report.property_failure("%s: a REQ was answered by %d EOSE and %d NOTICE frames%s" % (
                        backend, len(eoses), len(notices),
                        "" if code is None else " (the relay has closed this connection, which the client had not left, with code %s)" % code),
                        dict(payload, at=i), None)
                if notices:
                    n_nontrivial += 1
                for x in got:
                    if x[0] in ("EVENT", "EOSE") and x[1] != name and (c, x[1]) not in run_open_before(run, i):
                        report.property_failure("%s: a frame for subscription %r which is not open" % (backend, x[1]), dict(payload, at=i), None)
            if mm["t"] == "event" and mm.get("accepted"):
                for cc, got in real.items():
                    for x in got:
                        if x[0] == "EVENT" and (cc, x[1]) not in run_open_before(run, i + 1):
                            report.property_failure("%s: an event was pushed under %r to a connection that has no such open subscription"
                                                    % (backend, x[1]), dict(payload, at=i), None)
            if any(len(v) > limit for v in run.real_subs[i]):
                report.property_failure("%s: a connection holds more than subscription_limit=%d subscriptions" % (backend, limit),
                                        dict(payload, at=i), None)
        leftover = relay.open_subscriptions()
        for cno, cn in run.conns.items():
            if cn.exc is not None:
                report.property_failure("%s: an exception escaped the connection handler: %r" % (backend, cn.exc), payload, None)
        for cn in run.conns.values():
            if not cn.done:
                cn.close()
        if any(v for v in relay.open_subscriptions().values()):
            report.property_failure("%s: subscriptions survive their connections: %r" % (backend, relay.open_subscriptions()), payload, None)
        kinds = Counter(m["t"] for m in run.model_msgs)
        for k, v in kinds.items():
            report.count("msg_%s" % k, v)
        report.count("req_refused", sum(1 for m in run.model_msgs if m["t"] == "req" and not m.get("allowed", True)))
        report.count("req_unusable", sum(1 for m in run.model_msgs if m["t"] == "req" and not m.get("usable", True)))
        report.case((backend, tag, json.dumps(run.model_msgs, sort_keys=True)), nontrivial=n_nontrivial > 0 or kinds.get("close", 0) > 0,
                    sample={"backend": backend, "messages": len(run.model_msgs), "kinds": dict(kinds)})
        report.count("sessions_" + backend)
    finally:
        psess.gen_filter = orig_gen
        relay.close()


def run_open_before(run, i):
    """reference registry (conn, subname) reconstructed from the model messages up to (not including) message i"""
    inv = {v: k for k, v in run.names.ids.items()}
    open_ = set()
    for m in run.model_msgs[:i]:
        if m["t"] == "req":
            open_.discard((m["c"], inv[m["sub"]]))
            if m.get("usable") and m.get("allowed"):
                open_.add((m["c"], inv[m["sub"]]))
        elif m["t"] == "close":
            open_.discard((m["c"], inv[m["sub"]]))
        elif m["t"] == "disconnect":
            open_ = {k for k in open_ if k[0] != m["c"]}
    return open_


def directed(report, drv, backend, rng, keys):
    """hand-written histories for the corners the property names"""
    scen = {
        "replace-with-invalid": [{"t": "connect", "c": 0}, {"t": "connect", "c": 1},
                                 {"t": "req", "c": 0, "sub": "a", "nf": 1, "force_valid": True},
                                 {"t": "req", "c": 0, "sub": "a", "nf": 1, "force": "invalid"},
                                 {"t": "event", "c": 1, "what": "new"}, {"t": "event", "c": 1, "what": "new"},
                                 {"t": "event", "c": 1, "what": "new"}],
        "replace-with-nothing": [{"t": "connect", "c": 0}, {"t": "connect", "c": 1},
                                 {"t": "req", "c": 0, "sub": "a", "nf": 1, "force_valid": True},
                                 {"t": "req", "c": 0, "sub": "a", "nf": 0},
                                 {"t": "event", "c": 1, "what": "new"}, {"t": "event", "c": 1, "what": "new"}],
        "close-then-events": [{"t": "connect", "c": 0}, {"t": "connect", "c": 1},
                              {"t": "req", "c": 0, "sub": 5, "nf": 1, "force_valid": True}, {"t": "close", "c": 0, "sub": "5"},
                              {"t": "event", "c": 1, "what": "new"}, {"t": "event", "c": 1, "what": "new"}],
    }
    for name, msgs in scen.items():
        check_session(report, drv, backend, rng, keys, "directed-" + name, msgs=msgs)


def midstream_cancel(report, backend, keys, rounds=12):
    """subscriptions CLOSEd (or replaced by a REQ of the same id) while their stored events are still streaming — more often
    than the storage has query slots: every later REQ must still be answered.  The stream is stopped from outside: the
    connection's subscription queue lets the first stored event of a query through and keeps the second `put` waiting, so the
    cancellation hits a query task that holds whatever a running query holds."""
    import asyncio
    from lib import proto
    from lib.proto import Relay, Conn

    relay = Relay(backend)
    orig_put = proto._RecQueue.put
    state = {"queue": None, "gated": True, "puts": {}, "gate": None}

    async def put(self, item):
        if self is state["queue"] and state["gated"] and isinstance(item, tuple) and len(item) == 2 and item[1] is not None:
            n = state["puts"].get(item[0], 0) + 1
            state["puts"][item[0]] = n
            if n >= 2:
                proto.HELD["n"] += 1
                try:
                    await state["gate"].wait()
                finally:
                    proto.HELD["n"] -= 1
        return await orig_put(self, item)

    proto._RecQueue.put = put
    # SQL: the stream is (also) stopped where a real one waits — in the fetch of the next row, inside storage.run_query — so that
    # the cancellation is delivered *into* the query generator, as it is when a CLOSE arrives while the database is working
    orig_anext = None
    if backend == "sql":
        from sqlalchemy.ext.asyncio import AsyncResult

        orig_anext = AsyncResult.__anext__
        async def anext(self_):
            if state["gated"] and state["gate"] is not None:
                self_._verif_rows = getattr(self_, "_verif_rows", 0) + 1     # (not id(): ids are reused after collection)
                if self_._verif_rows >= 2:
                    proto.HELD["n"] += 1
                    try:
                        await state["gate"].wait()
                    finally:
                        proto.HELD["n"] -= 1
            return await orig_anext(self_)

        AsyncResult.__anext__ = anext
    try:
        pub = Conn(relay, remote_addr="3.3.3.3")
        for i in range(6):
            pub.send_event(relay.signed_event(keys[i % len(keys)], kind=1, content="stored %d %s" % (i, backend), created_at=1700000000 + i))
        c = Conn(relay)
        c.send(["REQ", "warmup", {"kinds": [7]}])
        state["queue"] = c._queue

        async def mkgate():
            state["gate"] = asyncio.Event()
        relay.run(mkgate())
        payload = {"backend": backend, "case": "midstream-cancel", "rounds": rounds}
        for i in range(rounds):
            name = "s%d" % i
            n = len(c.out)
            c.send(["REQ", name, {"kinds": [1]}])
            got = [f for f in c.frames(n) if isinstance(f, list) and f[0] == "EVENT" and f[1] == name]
            if not got:
                report.property_failure("%s: round %d: an accepted REQ streamed nothing although 6 events match (after %d subscriptions "
                                        "were ended mid-stream)" % (backend, i, i), payload, None)
                break
            if any(isinstance(f, list) and f[0] == "EOSE" and f[1] == name for f in c.frames(n)):
                report.count("midstream_not_midstream")
            # end it mid-stream: CLOSE, or a REQ reusing the id (even rounds / odd rounds)
            if i % 2 == 0:
                c.send(["CLOSE", name])
            else:
                c.send(["REQ", name, {"ids": ["nothex"]}])
        state["gated"] = False

        async def opengate():
            state["gate"].set()
        relay.run(opengate())
        relay.settle()
        n = len(c.out)
        c.send(["REQ", "final", {"kinds": [1]}])
        fr = c.frames(n)
        evs = [f for f in fr if isinstance(f, list) and f[0] == "EVENT" and f[1] == "final"]
        eose = [f for f in fr if isinstance(f, list) and f[0] == "EOSE" and f[1] == "final"]
        if len(evs) != 6 or len(eose) != 1:
            report.property_failure("%s: after %d subscriptions were ended while their stored events were streaming, an accepted REQ was "
                                    "answered with %d of 6 events and %d EOSE" % (backend, rounds, len(evs), len(eose)), payload, None)
        # and on another connection
        d = Conn(relay, remote_addr="4.4.4.4")
        n = len(d.out)
        d.send(["REQ", "other", {"kinds": [1]}])
        if not any(isinstance(f, list) and f[0] == "EOSE" and f[1] == "other" for f in d.frames(n)):
            report.property_failure("%s: after %d mid-stream cancellations another connection's REQ got no EOSE" % (backend, rounds), payload, None)
        late = [f for f in c.frames() if isinstance(f, list) and f[0] in ("EVENT", "EOSE") and str(f[1]).startswith("s") and f[1] != "final"]
        report.case(("midstream", backend), nontrivial=True, sample={"case": "midstream-cancel", "backend": backend, "rounds": rounds})
        report.count("midstream_cancel_runs")
        for x in (c, d, pub):
            x.close()
    finally:
        proto._RecQueue.put = orig_put
        if orig_anext is not None:
            AsyncResult.__anext__ = orig_anext
        relay.close()


# ---------------------------------------------------------------------------------------------------------------------------
# REQ filters that are invalid IN COMBINATION with otherwise well-formed parts.
#
# NostrQuery.model_validate rewrites the client's dict before pydantic sees it (every '#x' key with a list value becomes an entry of
# a new `tags` key; a `tags` key of the client is overwritten or removed), and only then is the filter judged.  A filter that is
# refused therefore reaches the error handling of subscribe() in a different state depending on what ELSE it carries; the
# grammar of psess.gen_filter has one condition per invalid filter and never a tag condition on one.  Two families:
#   * CombinedFilters (model-tied, through check_session): (valid / invalid base of the existing grammar, further invalidities
#     layered over a valid base) x (0..3 tag conditions, each well-formed / holding a non-string scalar / holding a nested array or
#     object / of a shape the relay ignores) x (a `tags` key of the client's own); the generator knows by construction which
#     filters are usable;
#   * typed_filter_probes (label-free): every JSON type at every filter field x 0..3 tag conditions, alone and next to a valid
#     filter; the oracle needs no notion of validity: exactly one EOSE or NOTICE per REQ, EOSE after the REQ's events, and the
#     connection answers the next REQ with the whole stored answer.
# ---------------------------------------------------------------------------------------------------------------------------
TAG_LETTERS = ["e", "p", "t", "a", "r"]
NONSTRING_SCALARS = [1, 0, -1, None, True, False, 1.5, 2 ** 70]
NESTED_ITEMS = [[1], ["x"], [], [[]], {"a": 1}, {}, [{"a": ["b"]}]]
# conditions that refuse a filter whatever else it holds (the declared types and bounds of NostrQuery: lists of hex strings, a list
# of integers, 0 <= since / until < 2145934800, 0 <= limit), beyond the six of psess.gen_filter
MORE_INVALID = [{"kinds": "1"}, {"kinds": [1, "x"]}, {"kinds": {"a": 1}}, {"kinds": 1}, {"ids": "abc"}, {"ids": [5]}, {"ids": [["ab" * 32]]},
                {"authors": ["zz" * 32]}, {"authors": "ab" * 32}, {"since": "x"}, {"since": 2145934800}, {"until": -5}, {"until": [1]},
                {"limit": "many"}, {"limit": -1}]
# values of a `tags` key supplied by the client: the relay builds that key itself, whatever the client put there is dropped
CLIENT_TAGS = [5, "x", None, True, [], {}, [["t", ["x"]]], {"t": ["x"]}, [["t"]], [["t", "x"]], [[1, 2]]]


def _hex64(rng):
    return "%064x" % rng.getrandbits(256)


def tag_values(rng, keys, known_ids, letter):
    """well-formed values for a '#<letter>' condition (reference-shaped for e / p / a / r, the sessions' vocabulary for t)"""
    pks = [k.public_key.hex() for k in keys]
    if letter == "e":
        pool = list(known_ids[-3:]) + [_hex64(rng), _hex64(rng)]
    elif letter == "p":
        pool = pks + [_hex64(rng)]
    elif letter == "a":
        pool = ["30000:%s:k1" % pks[0], "30000:%s:" % pks[1], "1:%s:x" % pks[2]]
    elif letter == "r":
        pool = ["wss://relay.example/", "https://example.com/a?b=c#d", "relay.example"]
    else:
        pool = ["x", "y", "z", "w"]
    return rng.sample(pool, rng.randint(1, min(3, len(pool))))


def add_tag_condition(f, rng, keys, known_ids, how):
    """adds one condition of the requested kind to the filter `f` under a '#x' key it does not have yet; returns False if no letter is
    left.  well: a list of strings; scalar: a list holding a non-string scalar (refuses the filter); nested: a list holding an array
    or an object (refuses the filter); ignored: a shape that is no tag condition for the relay (value not a list, name not one
    character) and changes nothing"""
    free = [l for l in TAG_LETTERS if "#" + l not in f]
    if not free:
        return False
    letter = rng.choice(free)
    good = tag_values(rng, keys, known_ids, letter)
    if how == "well":
        f["#" + letter] = good
    elif how in ("scalar", "nested"):
        bad = [copy.deepcopy(rng.choice(NONSTRING_SCALARS if how == "scalar" else NESTED_ITEMS)) for _ in range(rng.choice([1, 1, 2]))]
        if how == "nested" and rng.random() < 0.3:
            bad.append(rng.choice(NONSTRING_SCALARS))
        vals = bad + (good if rng.random() < 0.6 else [])      # alone, or mixed with valid values
        rng.shuffle(vals)
        f["#" + letter] = vals
    else:
        k = rng.random()
        if k < 0.6:
            f["#" + letter] = copy.deepcopy(rng.choice(["abc", 5, None, True, {"a": ["b"]}, {}, good[0]]))
        elif k < 0.8:
            f["#" + letter + letter] = good
        else:
            f[rng.choice(["#", letter, "#" + letter + "x"])] = good
    return True


class CombinedFilters:
    """A filter generator with the contract of psess.gen_filter (which it wraps for the valid / invalid / not-a-query bases).
    `plan`: kinds for the next calls, in order ("valid", "invalid", "invalid+well": an invalid filter that certainly carries a
    well-formed tag condition, "notquery"); when it is empty the kind is drawn (half of the filters invalid)."""

    def __init__(self, base=None):
        self.base = base or psess.gen_filter
        self.plan = []
        self.shapes = Counter()

    def _base(self, rng, keys, known_ids, want):
        while True:
            f, kind = self.base(rng, keys, known_ids)
            if kind == want:
                return copy.deepcopy(f)

    def __call__(self, rng, keys, known_ids):
        want = self.plan.pop(0) if self.plan else None
        if want is None:
            r = rng.random()
            want = "valid" if r < 0.35 else "invalid" if r < 0.6 else "invalid+well" if r < 0.88 else "notquery"
        if want == "notquery":
            self.shapes["notquery"] += 1
            return self._base(rng, keys, known_ids, "notquery"), "notquery"
        if want == "valid":
            # a usable filter stays usable: only well-formed conditions, ignored shapes and a `tags` key of the client's are added
            f = self._base(rng, keys, known_ids, "valid")
            hows = [rng.choice(["well", "ignored"]) for _ in range(rng.choice([0, 0, 1, 1, 2]))]
            for how in hows:
                add_tag_condition(f, rng, keys, known_ids, how)
            if rng.random() < 0.25:
                f["tags"] = copy.deepcopy(rng.choice(CLIENT_TAGS))
                hows.append("clienttags")
            self.shapes["valid" + "".join("+" + h for h in sorted(set(hows)))] += 1
            return f, "valid"
        # an invalid filter: where the invalidity sits x what else the filter carries
        route = rng.choice(["grammar", "layered", "tagitem"])
        if route == "grammar":
            f = self._base(rng, keys, known_ids, "invalid")
        else:
            f = self._base(rng, keys, known_ids, "valid")
            if route == "layered":
                f.update(copy.deepcopy(rng.choice(MORE_INVALID)))
        hows = []
        if route == "tagitem":
            hows.append(rng.choice(["scalar", "nested"]))
        if want == "invalid+well":
            hows.append("well")
        while len(hows) < 3 and rng.random() < 0.45:
            hows.append(rng.choice(["well", "well", "scalar", "nested", "ignored"]))
        rng.shuffle(hows)
        hows = [how for how in hows if add_tag_condition(f, rng, keys, known_ids, how)]
        if rng.random() < 0.3:
            f["tags"] = copy.deepcopy(rng.choice(CLIENT_TAGS))
            hows.append("clienttags")
        if rng.random() < 0.3:
            # the order of the keys is the order in which the relay's rewrite meets them
            items = list(f.items())
            rng.shuffle(items)
            f = dict(items)
        self.shapes["invalid:" + route + "".join("+" + h for h in sorted(set(hows)))] += 1
        return f, "invalid"


def combined_sessions(report, drv, backend, rng, keys, n_directed, n_random):
    """sessions whose REQs draw their filters from CombinedFilters.  Directed: a rejected filter alone, next to valid filters (before
    and after them), as the first REQ of a connection and after the sender task exists, replacing a live subscription, and always
    followed by further REQs, a CLOSE and live events on the same connection.  Random: psess.gen_session over the same generator."""
    gen = CombinedFilters()
    for i in range(n_directed):
        bad = lambda: rng.choice(["invalid+well", "invalid+well", "invalid"])
        steps = [("connect", 0), ("connect", 1), ("connect", 2), ("event", 1), ("event", 1),
                 ("req", 0, "a", ["valid"]),
                 ("req", 0, "b", [bad()]),                                   # alone
                 ("req", 0, "c", rng.choice([[bad(), "valid"], ["valid", bad()], ["valid", bad(), bad()]])),
                 ("req", 0, "a", [bad()] * rng.choice([1, 2, 3])),           # replaces a live subscription by nothing
                 ("event", 1),
                 ("req", 2, 'q"uo\\te', [bad()]),                            # the first REQ of its connection
                 ("req", 2, "y", ["valid"]),
                 ("req", 0, "c", [bad(), "valid", bad()]),                   # replaces a live subscription
                 ("close", 0, "b"),
                 ("event", 2),
                 ("req", 0, "d", ["valid"]),
                 ("req", 2, "y", [bad(), bad()]),
                 ("req", 1, 5, [bad(), "notquery"]),
                 ("req", 1, 5, ["valid", bad()]),
                 ("event", 0), ("event", 1)]
        msgs, plan = [], []
        for st in steps:
            if st[0] == "req":
                msgs.append({"t": "req", "c": st[1], "sub": st[2], "nf": len(st[3])})
                plan += st[3]
            elif st[0] == "event":
                msgs.append({"t": "event", "c": st[1], "what": "new"})
            else:
                msgs.append({"t": st[0], "c": st[1], **({"sub": st[2]} if len(st) > 2 else {})})
        gen.plan = plan
        check_session(report, drv, backend, rng, keys, "combined-directed-%d" % i, msgs=msgs, filters=gen)
        gen.plan = []
    for i in range(n_random):
        check_session(report, drv, backend, rng, keys, "combined-random-%d" % i, filters=gen)
    for shape, n in sorted(gen.shapes.items()):
        report.count("combined_filter_" + shape, n)
    report.count("combined_sessions_" + backend, n_directed + n_random)


FILTER_FIELDS = ["ids", "authors", "kinds", "since", "until", "limit", "search", "tags", "#e", "#p", "#t", "#ee", "x"]
JSON_VALUES = [None, True, False, 0, 1, -1, 1.5, 2 ** 70, "", "x", "1", "ab" * 32, [], [[]], {}, {"a": 1}, ["x"], ["ab" * 32], [1], [None], [1, "x"],
               [[1]], [{"a": 1}], [1.5], [True], [-1], [2 ** 70]]


def typed_filter_probes(report, backend, rng, keys, n_probes=None):
    """every JSON type at every field of a filter, with 0..3 tag conditions (well-formed, holding non-strings, holding nested values,
    ignored shapes) next to it, sent alone or next to a valid filter on a connection that stays open: whatever the relay makes of
    the filter, the REQ gets exactly one EOSE or NOTICE, and the REQ after it gets the whole stored answer.  `n_probes`: None = the
    full product once (the quick tier: 13 fields x 27 values), else that many drawn from it with fresh decorations."""
    from lib.proto import Conn

    relay = Relay(backend)
    try:
        pub = Conn(relay, remote_addr="3.3.3.3")
        stored = []
        for i in range(4):
            ev = relay.signed_event(keys[i % len(keys)], kind=1, content="probe-stored %d %s" % (i, backend), tags=[["t", "xyw"[i % 3]]],
                                    created_at=1700000000 + 10 * i)
            if pub.send_event(ev):
                stored.append(ev["id"])
        product = [(fld, v) for fld in FILTER_FIELDS for v in JSON_VALUES]
        if n_probes is None:
            probes = product
        else:
            probes = [rng.choice(product) for _ in range(n_probes)]
        c, history = Conn(relay), []
        for i, (fld, v) in enumerate(probes):
            if c.done:
                c, history = Conn(relay, remote_addr="1.2.3.%d" % (i % 200)), []
            f = {fld: copy.deepcopy(v)}
            hows = [rng.choice(["well", "well", "scalar", "nested", "ignored"]) for _ in range(rng.choice([0, 0, 1, 1, 2, 3]))]
            hows = [how for how in hows if add_tag_condition(f, rng, keys, stored, how)]
            if hows and rng.random() < 0.3:
                items = list(f.items())
                rng.shuffle(items)
                f = dict(items)
            shape = rng.choice(["alone", "alone", "before-valid", "after-valid"])
            filters = {"alone": [f], "before-valid": [f, {"kinds": [1]}], "after-valid": [{"authors": [keys[0].public_key.hex()]}, f]}[shape]
            name = "p%d" % (i % 3)                          # ids are reused: a probe replaces the probe three before it
            msg = ["REQ", name] + filters
            history.append(msg)
            payload = {"backend": backend, "case": "typed-filter-probe", "field": fld, "value": v, "shape": shape,
                       "frames_sent_on_the_connection": list(history)}
            n = len(c.out)
            c.send(msg)
            fr = [x for x in c.frames(n) if isinstance(x, list) and x]
            mine = [x[0] for x in fr if x[0] in ("EVENT", "EOSE") and x[1] == name]
            notices = [x for x in fr if x[0] == "NOTICE"]
            ended = "" if c.closed_with is None else " (the relay closed the connection with code %s)" % c.closed_with
            failed = False
            if mine.count("EOSE") + len(notices) != 1:
                failed = report.property_failure("%s: a REQ was answered by %d EOSE and %d NOTICE frames%s"
                                                 % (backend, mine.count("EOSE"), len(notices), ended), payload, None)
            elif "EOSE" in mine and "EVENT" in mine[mine.index("EOSE"):]:
                failed = report.property_failure("%s: a stored event was sent after the EOSE of its REQ" % backend, payload, None)
            if c.exc is not None:
                failed = report.property_failure("%s: an exception escaped the connection handler: %r" % (backend, c.exc), payload, None)
            # the connection stays usable: the next REQ on it is answered in full (every third probe, and after any failure)
            if i % 3 == 2 or failed:
                after = ["REQ", "after", {"kinds": [1]}]
                history.append(after)
                n = len(c.out)
                c.send(after)
                fr = [x for x in c.frames(n) if isinstance(x, list) and x and x[0] in ("EVENT", "EOSE") and x[1] == "after"]
                got = sorted(x[2].get("id") for x in fr if x[0] == "EVENT")
                if got != sorted(stored) or [x[0] for x in fr].count("EOSE") != 1:
                    report.property_failure("%s: after a REQ with an odd filter the next REQ on the connection was answered with %d of %d stored "
                                            "events and %d EOSE%s" % (backend, len(got), len(stored), [x[0] for x in fr].count("EOSE"), ended),
                                            dict(payload, frames_sent_on_the_connection=list(history)), None)
                c.send(["CLOSE", "after"])
                history.append(["CLOSE", "after"])
            report.count("probe_" + shape)
            report.count("probe_tagconds_%d" % len(hows))
            if notices:
                report.count("probe_answer_notice")
            elif "EVENT" in mine:
                report.count("probe_answer_events_eose")
            else:
                report.count("probe_answer_eose_only")
            report.case(("typed-probe", backend, json.dumps(msg, sort_keys=True)), nontrivial=bool(hows) or shape != "alone",
                        sample={"case": "typed-filter-probe", "backend": backend, "frame": msg} if i == 7 else None)
        report.count("typed_filter_probes_" + backend, len(probes))
        for x in relay.conns:
            if not x.done:
                x.close()
        if any(v for v in relay.open_subscriptions().values()):
            report.property_failure("%s: subscriptions survive their connections: %r" % (backend, relay.open_subscriptions()),
                                    {"backend": backend, "case": "typed-filter-probe"}, None)
    finally:
        relay.close()


# ---------------------------------------------------------------------------------------------------------------------------
# SEVERAL stored queries of ONE connection in flight at the same time.
#
# A client may open its subscriptions back to back and close or replace any of them while the stored answers of the others are
# still being produced.  The property is stated per subscription: what happens to subscription b (CLOSE, a REQ re-using its id,
# its own EOSE) must not show in the answer of subscription a.  The sessions above settle after every message (every query has
# finished before the next message arrives), and the held queries of C05 / midstream_cancel are ended themselves; here the
# queries of 2-5 subscriptions of one connection are kept in flight from outside — suspended at their start (before the first row
# is asked for) or mid-stream (after j of their events were queued) or left running — while CLOSE / replacement / fresh REQs /
# releases hit the OTHER subscriptions as well as the suspended ones, in a drawn order.  Then everything is released.
# Oracle (label-free, on the transcript of the connection alone; the expected answers are known by construction of the store):
#   * an incarnation (a REQ of an id) that was neither closed nor replaced is answered by every stored event its filter matches,
#     each once, and by an EOSE after them (exactly one EOSE that is its own: an incarnation that was replaced while its query
#     was running may, on LMDB, still deliver the one EOSE it owes under the same id — the property grants at most one per REQ);
#   * once an incarnation was closed or replaced (and the loop has settled) no further stored event of it is sent, and never a
#     second EOSE;
#   * the connection handler survives and nothing is registered after the connection has gone.
# ---------------------------------------------------------------------------------------------------------------------------
# (kind, how many stored events): answers long enough that "mid-stream" is really in the middle (above every j at which a stream is
# suspended), two single-event answers and an empty one; chosen on general grounds, not after any implementation.  The whole store
# stays within the harness' max_limit (common.MAX_LIMIT = 20) so that no answer is truncated: which events a limit keeps is C12's
# question, not this property's
CONCURRENT_STORE = [(1, 9), (7, 5), (40, 4), (41, 1), (42, 0), (43, 1)]


def gen_concurrent_script(rng, pks):
    """a list of operations on one connection: ("req", id, filter, mode, j) with mode in start / mid / free (where the query of this
    REQ is suspended: at its start, after j queued events, not at all), ("close", id), ("release", id).  The first REQ is always
    suspended, one to three further REQs follow behind it, then one to five disturbances, then every suspended query is released
    in a drawn order."""
    names, seen = [], set()
    for nm in rng.sample(psess.SUB_NAMES, len(psess.SUB_NAMES)):
        if psess.sub_key(nm) not in seen:
            seen.add(psess.sub_key(nm))
            names.append(nm)
    if rng.random() < 0.6:
        names = ["a", "b", "c", "d", "e"] + [n for n in names if n not in ("a", "b", "c")]
    names = names[:6]
    kinds = [k for k, _ in CONCURRENT_STORE]

    def flt():
        f = {"kinds": rng.sample(kinds, rng.choice([1, 1, 1, 2, 3]))}
        if rng.random() < 0.25:
            f["authors"] = rng.sample(pks, rng.randint(1, 2))
        return f

    def mode(first=False):
        m = rng.choice(["start", "mid"] if first else ["start", "mid", "mid", "free", "free"])
        return m, rng.choice([1, 2, 3])

    ops, open_, held, fresh = [], [], [], list(names)

    def req(nm, first=False):
        m, j = mode(first)
        ops.append(("req", nm, flt(), m, j))
        if nm not in open_:
            open_.append(nm)
        if nm in held:
            held.remove(nm)
        if m != "free":
            held.append(nm)

    req(fresh.pop(0), first=True)
    for _ in range(rng.randint(1, 3)):
        req(fresh.pop(0))
    for _ in range(rng.randint(1, 5)):
        r = rng.random()
        # the subscriptions behind the first one are the likelier targets: the first one's query is (still) suspended meanwhile
        target = rng.choice(open_[1:] if (len(open_) > 1 and rng.random() < 0.75) else open_) if open_ else None
        if r < 0.35 and target is not None:
            ops.append(("close", target))
            open_.remove(target)
            if target in held:
                held.remove(target)
        elif r < 0.65 and target is not None:
            req(target)
        elif r < 0.8 and len(held) > 1:
            nm = rng.choice(held)
            held.remove(nm)
            ops.append(("release", nm))
        elif r < 0.9 and fresh:
            req(fresh.pop(0))
        else:
            ops.append(("close", rng.choice(["nosuch", fresh[0] if fresh else "nosuch"])))
    rng.shuffle(held)
    for nm in held:
        ops.append(("release", nm))
    return ops


def concurrent_queries(report, backend, rng, keys, n_scripts):
    import asyncio
    from lib import proto
    from lib.proto import Conn

    assert sum(n for _, n in CONCURRENT_STORE) <= common.MAX_LIMIT, "the store of this family must fit into max_limit"
    relay = Relay(backend)
    cls = relay.storage.subscription_class
    orig_run_query = cls.run_query
    orig_put = proto._RecQueue.put
    held0 = proto.HELD["n"]
    state = {"queue": None, "gates": {}}       # gates: sub id -> {"mode", "j", "n" (events queued so far), "ev": asyncio.Event}
    all_gates = []

    async def wait_at(gate):
        proto.HELD["n"] += 1
        try:
            await gate["ev"].wait()
        finally:
            proto.HELD["n"] -= 1

    async def run_query(sub):
        gate = state["gates"].get(sub.sub_id)
        if gate is not None and sub.queue is state["queue"] and gate["mode"] == "start" and not gate["ev"].is_set():
            await wait_at(gate)
        return await orig_run_query(sub)

    async def put(self, item):
        if self is state["queue"] and isinstance(item, tuple) and len(item) == 2 and item[1] is not None:
            gate = state["gates"].get(item[0])
            if gate is not None and gate["mode"] == "mid" and not gate["ev"].is_set():
                gate["n"] += 1
                if gate["n"] > gate["j"]:
                    await wait_at(gate)
        return await orig_put(self, item)

    try:
        cls.run_query = run_query
        proto._RecQueue.put = put
        pub = Conn(relay, remote_addr="3.3.3.3")
        stored = []
        pks = [k.public_key.hex() for k in keys]
        t = 0
        for kind, n in CONCURRENT_STORE:
            for i in range(n):
                t += 1
                ev = relay.signed_event(keys[(i + kind) % len(keys)], kind=kind, content="kept %d/%d %s" % (kind, i, backend),
                                        created_at=1700000000 + 10 * t)
                if pub.send_event(ev):
                    stored.append(ev)
        if len(stored) != sum(n for _, n in CONCURRENT_STORE):
            report.property_failure("%s: the store of the concurrent-queries family could not be set up" % backend,
                                    {"backend": backend, "case": "concurrent-queries"}, None)
            return

        def finalise_abandoned():
            """A query task cancelled while it waits to queue an event leaves the storage's row generator suspended, un-closed; on the
            SQL backend that generator holds a query slot (num_concurrent_reqs) and a pooled connection until the interpreter
            finalises it, which for generators caught in a reference cycle is whenever the cycle collector next runs.  This family
            ends hundreds of queries that way in a few seconds; so that its verdicts do not depend on the collector's schedule the
            collector is run here, and what it alone gave back is COUNTED (distribution: concurrent_query_slots_freed_only_by_gc) —
            see the report of round 12: REQs of any client wait for a slot meanwhile."""
            import gc

            slot = getattr(relay.storage, "query_slot", None)
            before = getattr(slot, "_value", None)
            import warnings

            with warnings.catch_warnings():
                warnings.simplefilter("ignore")      # SQLAlchemy says the same thing once per connection; it is counted below
                gc.collect()
            relay.settle(max_s=1.5)
            after = getattr(slot, "_value", None)
            if before is not None and after is not None and after > before:
                report.count("concurrent_query_slots_freed_only_by_gc", after - before)

        def answer(f):
            return sorted(e["id"] for e in stored if e["kind"] in f["kinds"] and ("authors" not in f or e["pubkey"] in f["authors"]))

        for s in range(n_scripts):
            ops = gen_concurrent_script(rng, pks)
            c = Conn(relay, remote_addr="10.1.%d.%d" % (s // 200, s % 200))
            state["queue"], state["gates"] = c._queue, {}
            # incarnations: one per REQ; [sub key, expected ids, start position in c.out, end position (None = never ended), op index]
            incs, live = [], {}
            sent = []
            in_flight_max = 0
            other_hit = False
            settled_before = {}        # c.out position of an ending step -> was the loop quiescent when the step began?
            quiet = True

            def others_in_flight(key):
                return any(not g["ev"].is_set() for kk, g in state["gates"].items() if kk != key)
            for k, op in enumerate(ops):
                pos = len(c.out)
                # does this step end an incarnation whose query is suspended (the only way a query is cut short here)?
                cut_short = op[0] in ("req", "close") and psess.sub_key(op[1]) in live and \
                    not state["gates"][psess.sub_key(op[1])]["ev"].is_set()
                if op[0] == "req":
                    _, nm, f, m, j = op
                    key = psess.sub_key(nm)
                    if key in live:
                        live.pop(key)[3] = pos
                        other_hit = other_hit or others_in_flight(key)
                    state["gates"][key] = {"mode": m, "j": j, "n": 0, "ev": asyncio.Event()}
                    all_gates.append(state["gates"][key])
                    inc = [key, answer(f), pos, None, k]
                    incs.append(inc)
                    live[key] = inc
                    sent.append({"send": ["REQ", nm, f], "query_suspended": m if m != "mid" else "after %d events" % j})
                    c.send(["REQ", nm, f], settle=False)
                elif op[0] == "close":
                    key = psess.sub_key(op[1])
                    if key in live:
                        live.pop(key)[3] = pos
                        settled_before[pos] = quiet
                        other_hit = other_hit or others_in_flight(key)
                    sent.append({"send": ["CLOSE", op[1]]})
                    c.send(["CLOSE", op[1]], settle=False)
                else:
                    key = psess.sub_key(op[1])
                    sent.append({"release_query_of": op[1]})
                    if key in state["gates"]:
                        state["gates"][key]["ev"].set()
                # (a short bound: on a sound relay the loop is quiescent — but for the suspended queries — within milliseconds)
                relay.settle(max_s=1.5)
                if cut_short:
                    finalise_abandoned()
                quiet = relay.quiescent()
                in_flight_max = max(in_flight_max, proto.HELD["n"])
            for g in all_gates:
                g["ev"].set()
            relay.settle(max_s=8.0)
            payload = {"backend": backend, "case": "concurrent-queries", "script": s, "steps_on_one_connection": sent,
                       "stored_events_by_kind": dict(("%d" % k2, n) for k2, n in CONCURRENT_STORE)}
            frames = [(p, x) for p, x in enumerate(c.frames()) if isinstance(x, list) and len(x) > 1 and x[0] in ("EVENT", "EOSE")]
            n_req = Counter(i2[0] for i2 in incs)
            for key in n_req:
                total_eose = sum(1 for p, x in frames if x[0] == "EOSE" and x[1] == key)
                if total_eose > n_req[key]:
                    report.property_failure("%s: %d EOSE frames for subscription id %r, which was requested %d time(s)"
                                            % (backend, total_eose, key, n_req[key]), payload, None)
            for idx, (key, want, start, end, k) in enumerate(incs):
                mine = [(p, x) for p, x in frames if x[1] == key and p >= start]
                if end is None:
                    got = sorted(x[2].get("id") for p, x in mine if x[0] == "EVENT")
                    n_eose = sum(1 for p, x in mine if x[0] == "EOSE")
                    # EOSE frames that earlier incarnations of this id (ended while their query was running) may still deliver: the
                    # property grants every REQ at most one
                    earlier = sum(1 for i2 in incs[:idx] if i2[0] == key)
                    owed = max(0, earlier - sum(1 for p, x in frames if x[0] == "EOSE" and x[1] == key and p < start))
                    what = None
                    if got != want:
                        what = "was answered by %d of its %d stored events (%d of them not its own or repeated)" % (
                            len(set(got) & set(want)), len(want), len(got) - len(set(got) & set(want)))
                    elif n_eose < 1 or n_eose > 1 + owed:
                        what = "was answered by its %d stored events and %d EOSE" % (len(want), n_eose)
                    elif mine[-1][1][0] != "EOSE":
                        what = "was sent a stored event after its EOSE"
                    if what is not None:
                        others = sorted(set(str(o[1]) for o in ops[k + 1:] if o[0] in ("req", "close") and psess.sub_key(o[1]) != key))
                        report.property_failure(
                            "%s: several stored queries of one connection in flight: the REQ %r (step %d), which was neither closed nor "
                            "replaced, %s after its query was released (meanwhile the client closed / requested other subscriptions: %s)%s"
                            % (backend, key, k, what, ", ".join(others) or "none",
                               "" if c.closed_with is None else "; the relay closed the connection with code %s" % c.closed_with),
                            dict(payload, failing_step=k), None)
                    report.count("concurrent_survivors")
                else:
                    # ended at c.out position `end` (the loop was settled after that step): from the end of THAT step on, nothing of it
                    nxt = [i2 for i2 in incs[idx + 1:] if i2[0] == key]
                    until = nxt[0][2] if nxt else len(c.out)
                    late = [x for p, x in frames if x[1] == key and x[0] == "EVENT" and end <= p < until]
                    # a frame that was already queued when the CLOSE was read may still go out; when the loop was quiescent before
                    # the CLOSE step the queue was empty (a suspended query has queued its first j events, all sent by then) — so
                    # any stored event here was produced after the CLOSE.  (A replaced incarnation is judged through its successor.)
                    if late and settled_before.get(end, False):
                        report.property_failure("%s: several stored queries of one connection in flight: %d stored event(s) were sent for "
                                                "subscription %r after its CLOSE" % (backend, len(late), key), dict(payload, failing_step=k), None)
                    report.count("concurrent_ended")
            if c.exc is not None:
                report.property_failure("%s: an exception escaped the connection handler: %r" % (backend, c.exc), payload, None)
            if c.closed_with is not None:
                report.property_failure("%s: the relay closed a connection (code %s) whose client only sent REQ and CLOSE frames"
                                        % (backend, c.closed_with), payload, None)
            c.close()
            for opname in ("req", "close", "release"):
                report.count("concurrent_op_" + opname, sum(1 for o in ops if o[0] == opname))
            report.count("concurrent_in_flight_max_%d" % min(in_flight_max, 5))
            report.count("concurrent_scripts_" + backend)
            report.case(("concurrent", backend, json.dumps(sent, sort_keys=True)), nontrivial=other_hit,
                        sample={"case": "concurrent-queries", "backend": backend, "steps": sent} if s == 0 else None)
            if report.violations and any((v.get("replay") or {}).get("case") == "concurrent-queries" for v in report.violations):
                break           # one failing script is enough; a relay whose queries hang makes every further step wait for its bound
        pub.close()
        if any(v for v in relay.open_subscriptions().values()):
            report.property_failure("%s: subscriptions survive their connections: %r" % (backend, relay.open_subscriptions()),
                                    {"backend": backend, "case": "concurrent-queries"}, None)
    finally:
        cls.run_query = orig_run_query
        proto._RecQueue.put = orig_put
        for g in all_gates:
            g["ev"].set()
        relay.close()
        proto.HELD["n"] = held0


def run(report, tier, seed):
    rng = random.Random(seed)
    # the families added later draw from a stream of their own (a function of the seed): the sessions of the older families stay
    # what they were for a given seed
    rng_comb = random.Random("%d/filters-invalid-in-combination" % seed)
    rng_conc = random.Random("%d/concurrent-queries-of-one-connection" % seed)
    drv = common.Driver()
    from aionostr.key import PrivateKey

    keys = [PrivateKey(bytes([i + 1]) * 32) for i in range(3)]
    report.coverage["rule"] = (
        "sessions of 8-22 messages (plus a burst past subscription_limit=3 and a replacement at the limit) on 2-4 connections "
        "through the real start_client on both backends: REQ with 0-3 filters (valid / invalid / not-a-query; subscription ids "
        "strings, numbers, null, with quotes), CLOSE of open and unknown ids, EVENT (new / resubmitted / bad signature), "
        "disconnect and late connect; 12 (thorough: 40) subscriptions CLOSEd or replaced while their stored events are streaming "
        "(the stream is stopped from outside after its first event), then fresh REQs on the same and on another connection; "
        "filters invalid in combination with well-formed parts: 3 directed + 6 random sessions per backend (thorough: 20 + 100) whose "
        "filters are (valid / invalid base, 15 further invalidities layered over a valid base, a bad item inside a tag condition) x "
        "(0-3 tag conditions: well-formed, holding non-string scalars, holding nested arrays / objects, shapes the relay ignores) x "
        "(a `tags` key of the client's own, shuffled key order), a rejected filter alone, before / after valid filters, as first REQ "
        "of a connection, replacing a live subscription, followed by REQs / CLOSE / live events on the same connection; label-free "
        "probes: 27 JSON values at each of 13 filter fields (the full product; thorough: + 3000 draws) x 0-3 such tag conditions, "
        "alone or next to a valid filter, on one connection that must go on answering (exactly one EOSE or NOTICE per REQ, the "
        "next REQ gets the whole stored answer); "
        "several stored queries of ONE connection in flight at once: 40 (thorough: 600) scripts per backend over a store of 20 events "
        "of six kinds: a REQ whose query is suspended from outside (at its start or after 1 / 2 / 3 queued events), 1-3 further REQs "
        "behind it (suspended at the start / mid-stream / running freely), then 1-5 of CLOSE / REQ re-using an id / fresh REQ / "
        "release / CLOSE of an unknown id aimed mostly at the OTHER subscriptions, then every query released in a drawn order "
        "(every REQ neither closed nor replaced gets all its stored events once and its EOSE after them, a closed one no further "
        "stored event, no id more EOSEs than REQs); "
        "the loop is settled after every message; non-trivial = the session has a refused REQ or a CLOSE")
    report.assumptions += ["quiescence after every message (interleavings inside a step are whatever the event loop does; "
                           "all interleavings are covered by the theorems over `run`, not by this check)"]
    try:
        for backend in ("sql", "kv"):
            directed(report, drv, backend, rng, keys)
            midstream_cancel(report, backend, keys, rounds=12 if tier == "quick" else 40)
            combined_sessions(report, drv, backend, rng_comb, keys, *((3, 6) if tier == "quick" else (20, 100)))
            typed_filter_probes(report, backend, rng_comb, keys)
            if tier != "quick":
                typed_filter_probes(report, backend, rng_comb, keys, n_probes=3000)
            concurrent_queries(report, backend, rng_conc, keys, 40 if tier == "quick" else 600)
        for i in range(10 if tier == "quick" else 250):
            for backend in ("sql", "kv"):
                check_session(report, drv, backend, rng, keys, i)
        # unsettled runs (REQ / CLOSE / EVENT / disconnect queued in bursts): the recorded schedule must be a run of the machine
        for i in range(5 if tier == "quick" else 120):
            for backend in ("sql", "kv"):
                ptrace.run_trace_session(report, drv, backend, rng, keys, i, limit=3)
    finally:
        drv.close()


def replay(report, path):
    data = json.load(open(path))
    report.coverage["note"] = "replay re-runs the session generator with the recorded seed; sessions are deterministic per seed"
    run(report, "quick", data.get("seed", 1))
