"""
C02 — a REQ returns every matching stored event exactly once when under its limit.
Tie: as C01 (plans, answers, table dumps vs the Lean models).  Search: for every well-formed filter whose
number of (inclusively) matching stored events does not exceed its effective limit, every strictly
matching stored event must be delivered, exactly once per filter.  Thorough tier adds a small-scope
exhaustive enumeration (all stores of <= 3 events over a 2x2x2x3 universe x all filters over the same
values).
"""
import itertools
import random

from lib import common, gen, qscen, spec

THEOREMS_TIED = ["C02_kv_scan_complete", "C02_kv_kinds_filter_complete", "C02_kv_authors_filter_complete", "C02_kv_authorkinds_filter_complete",
                 "C02_kv_ids_filter_complete", "C02_kv_tags_filter_complete", "C02_kv_multi_candidates", "C02_kv_kinds_tags_filter_complete", "C02_kv_tags_complete_nosince_reachable", "C02_kv_kinds_complete_reachable",
                 "C02_kv_authors_complete_reachable", "C02_kv_authorkinds_complete_reachable", "C02_kv_executePlan_complete", "C02_kv_no_duplicates", "C02_sql_complete_partial", "C02_sql_no_duplicates"]


def is_prefix_ext(short, long_):
    a, b = short.encode("utf-8", "surrogatepass"), long_.encode("utf-8", "surrogatepass")
    return len(b) > len(a) and b[:len(a)] == a


def classify_kv(rec):
    f = rec["filters"][0]
    idx = rec.get("index") or ""
    if "ids" in f and "since" in f and idx == "ids":
        return "kv-ids-since"
    if "since" in f and "tags" in idx:
        # a stored tag value (same name) properly extends a requested value
        for k, vals in f.items():
            if k.startswith("#") and len(k) == 2:
                for e in rec["events"]:
                    for t in e["tags"]:
                        if len(t) >= 2 and t[0] == k[1] and isinstance(t[1], str) and any(
                                isinstance(v, str) and is_prefix_ext(v, t[1]) for v in vals):
                            return "kv-tag-prefix-since"
    if "until" in f and "tags" in idx:
        # a stored tag value (same name) extends a requested value by a NUL character and more: its index key carries the
        # requested value's key as a prefix *and* sorts inside that value's block (the separator is 00 too)
        for k, vals in f.items():
            if k.startswith("#") and len(k) == 2:
                for e in rec["events"]:
                    for t in e["tags"]:
                        if len(t) >= 2 and t[0] == k[1] and isinstance(t[1], str) and any(
                                isinstance(v, str) and t[1].startswith(v + "\x00") for v in vals):
                            return "kv-tag-nul-extension-window"
    return None


def classify_sql(rec, qi):
    vals = [v for _, vs in (qi.tags or []) for v in vs] + [n for n, _ in (qi.tags or [])]
    if any("\x00" in v for v in vals):
        return "sql-nul-in-value"
    if any(v == "" for _, vs in (qi.tags or []) for v in vs):
        return "sql-empty-tag-value"
    return None


def sql_limit(rec):
    import re
    m = re.search(r"LIMIT\s+(\d+)", rec.get("text") or "")
    return int(m.group(1)) if m else None


def qscen_bind(v):
    from lib.sqlquery import BIND_RE
    return bool(BIND_RE.search(v)) or "\\" in v


def oracle(report, scen, rec, payload=None, context=""):
    """payload / context: the replay payload and a description of the circumstances, when the answer in `rec` was not obtained
    by asking rec["filters"] on the bench (default: it was)"""
    if rec is None or not rec.get("planned") or rec["ids"] is None:
        if rec is not None and rec.get("wellformed") and rec["spec_strict"] and rec["ids"] is None:
            # a well-formed filter with matches that gets no plan / no statement at all
            cls = None
            if rec["backend"] == "sql":
                cls = next((c for c in (classify_sql(rec, q) for q in rec["cleaned"]) if c), None)
            report.property_failure("%s: well-formed filter %r is not answered although %d stored events match"
                                    % (rec["backend"], rec["filters"], len(rec["spec_strict"])), qscen.replay_payload(rec), cls)
        return
    ids = rec["ids"]
    if len(ids) != len(set(ids)) and len(rec["filters"]) == 1:
        report.property_failure("%s: an event is delivered more than once for one filter %r" % (rec["backend"], rec["filters"]),
                                qscen.replay_payload(rec), None)
    if rec["backend"] == "kv":
        if not rec["wellformed"]:
            return
        lim = rec["limit"]
        if lim is not None and len(rec["spec_incl"]) > lim:
            return
        missing = rec["spec_strict"] - set(ids)
        if missing:
            report.property_failure(
                "kv(%s): %d of %d strictly matching stored events not delivered for %r%s"
                % (rec.get("index"), len(missing), len(rec["spec_strict"]), rec["filters"][0], context),
                payload or qscen.replay_payload(rec), classify_kv(rec))
    else:
        by_id = scen.by_id
        for qi in rec["cleaned"]:
            if not spec.is_wellformed_conjunction(qi):
                continue
            li = qi.limit
            if li == 0:
                continue  # limit 0: nothing is owed (what is *sent* for it is C12's business)
            li = common.MAX_LIMIT if li is None else min(li, common.MAX_LIMIT)
            incl = [i for i in rec["stored"] if i in by_id and spec.matches(qi, by_id[i], False)]
            if len(incl) > li:
                continue
            strict = {i for i in rec["stored"] if i in by_id and spec.matches(qi, by_id[i], True)}
            missing = strict - set(ids)
            if missing:
                cls = classify_sql(rec, qi)
                # the documented rule, stated here without the model (REQs outside the model — over-long hex — have no model limit):
                # the last filter that names a limit gives the one LIMIT of the statement, capped by the maximum
                doc = common.MAX_LIMIT
                for q in rec["cleaned"]:
                    if q.limit is not None:
                        doc = min(q.limit, common.MAX_LIMIT)
                union_incl = {i for i in rec["stored"] if i in by_id and any(spec.matches(q, by_id[i], False) for q in rec["cleaned"])}
                if cls is None and len(rec["cleaned"]) > 1 and sql_limit(rec) == doc and (doc < li or len(union_incl) > doc) and \
                        (rec.get("limit") is None or rec["limit"] == doc):
                    # one LIMIT (taken from the last filter that has one) is applied to the union; the known
                    # class is exactly the documented rule (the model's effectiveLimit), nothing smaller
                    cls = "sql-one-limit-per-req"
                if cls is None and len(rec["cleaned"]) > 1:
                    # a sibling filter's hazard kills the whole statement
                    cls = next((c for c in (classify_sql(rec, q) for q in rec["cleaned"]) if c in ("sql-nul-in-value",)), None)
                report.property_failure(
                    "sql: %d of %d strictly matching stored events not delivered for filter %r of REQ %r"
                    % (len(missing), len(strict), qi.model_dump(exclude_none=True), rec["filters"]),
                    qscen.replay_payload(rec), cls)


def record(report, rec):
    if rec is not None and rec["ids"] is not None:
        report.case((rec["backend"], repr(rec["filters"]), len(rec["events"])), nontrivial=len(rec["spec_strict"]) > 0,
                    sample={"backend": rec["backend"], "filters": rec["filters"], "returned": len(rec["ids"]),
                            "strict": len(rec["spec_strict"]), "limit": rec.get("limit")})
        report.count("answers_" + rec["backend"])
        if rec["backend"] == "kv":
            report.count("kv_index_" + str(rec["index"]))
        if rec.get("limit") is not None and len(rec["spec_incl"]) > rec["limit"]:
            report.count("truncated_answers")


def run_case(report, scen, rng, adversarial=False):
    evs = qscen.gen_store(rng, adversarial=adversarial)
    scen.load(evs)
    for k in range(16):
        f = qscen.gen_adv_filter(rng, evs) if adversarial and rng.random() < 0.5 else gen.gen_filter(rng, evs)
        rec = scen.ask_kv(f)
        oracle(report, scen, rec)
        record(report, rec)
        fs = [f] + ([gen.gen_filter(rng, evs)] if rng.random() < 0.25 else [])
        rec2 = scen.ask_sql(fs)
        oracle(report, scen, rec2)
        record(report, rec2)
    # several ids / authors of stored events, spelled in mixed upper and lower case (every run: the relay must lower-case
    # *before* it sorts and de-duplicates, or the LMDB scanner gets its match values in the wrong order)
    for k in range(3):
        if len(evs) < 2:
            break
        field = rng.choice(["ids", "authors"])
        key = "id" if field == "ids" else "pubkey"
        pool = sorted({e[key] for e in evs})
        vals = rng.sample(pool, min(len(pool), rng.choice([2, 3, 4])))
        flips = [rng.random() < 0.5 for _ in vals]
        if all(flips) or not any(flips):
            flips[0] = not flips[0]
        f = {field: [v.upper() if u else v for v, u in zip(vals, flips)]}
        if rng.random() < 0.3:
            f["kinds"] = sorted({e["kind"] for e in evs})[:3]
        for rec in (scen.ask_kv(f), scen.ask_sql([f])):
            oracle(report, scen, rec)
            record(report, rec)
        report.count("mixed_case_multi_value_filters")
    # multi-filter REQs in both orders (thread view: [{#e: root}, {ids: root}] and reverse)
    for k in range(6):
        fs = [gen.gen_filter(rng, evs, limit_pool=(None, None, None, 5, 100)) for _ in range(rng.choice([2, 2, 3]))]
        if evs and rng.random() < 0.5:
            root = rng.choice(evs)["id"]
            fs = [{"#e": [root]}, {"ids": [root]}] if rng.random() < 0.5 else [{"kinds": [rng.choice(evs)["kind"]]}, {"ids": [root]}]
            if rng.random() < 0.5:
                fs.reverse()
        rec3 = scen.ask_sql(fs)
        oracle(report, scen, rec3)
        record(report, rec3)
        report.count("sql_multi_filter_reqs")
        # the same REQ on LMDB: every filter is served as it is when asked alone (whatever its neighbours in the REQ name)
        kv_multi(report, scen, fs[:5])
    for k in range(4):
        # neighbours that differ in *which* fields they name: kinds / authors / tags / ids / window only
        pool = [{"kinds": sorted({e["kind"] for e in rng.sample(evs, min(2, len(evs)))})} if evs else {"kinds": [1]},
                {"authors": [rng.choice(evs)["pubkey"]]} if evs else {"authors": [gen.AUTHORS[0]]},
                gen.gen_filter(rng, evs, limit_pool=(None, None, 100)),
                {"since": gen.T0 - 10, "until": gen.T0 + 100000},
                {"#t": [rng.choice(["a", "ab", "x"])]}]
        rng.shuffle(pool)
        kv_multi(report, scen, pool[:rng.choice([2, 3, 4, 5])])


def kv_multi(report, scen, fs):
    res = scen.kv.ask_req(fs)
    if res is None:
        return
    for f, got, alone in res:
        lim = alone.get("limit")
        a = alone["ids"]
        truncated = lim is not None and len(a) >= lim
        if truncated:
            continue
        if set(got) != set(a) or len(got) != len(set(got)):
            missing = sorted(set(a) - set(got))
            extra = sorted(set(got) - set(a))
            report.property_failure(
                "kv: filter %r inside the REQ %r is answered differently than alone: %d missing, %d extra, %d delivered twice"
                % (f, fs, len(missing), len(extra), len(got) - len(set(got))),
                {"backend": "kv", "multi": True, "filters": fs, "events": scen.events}, None)
    report.case(("kv-multi", repr(fs)), nontrivial=len(res) > 1, sample={"backend": "kv", "filters_in_req": len(fs), "answered": len(res)})
    report.count("kv_multi_filter_reqs")


def replay_one(report, scen, r):
    if r.get("storage_req"):
        scen.load(r["events"])
        storage_reqs(report, scen, r["options"], [r["filters"]], entries=(r["entry"],))
        return
    if r.get("multi"):
        scen.load(r["events"])
        kv_multi(report, scen, r["filters"])
        return
    scen.load(r["events"])
    if r["backend"] == "kv":
        rec = scen.ask_kv(r["filters"][0])
    else:
        rec = scen.ask_sql(r["filters"])
    oracle(report, scen, rec)
    record(report, rec)


def exhaustive(report, scen):
    """all stores of <= 3 events over authors x kinds x timestamps x tag sets, all single filters over the
    same values (ids excluded: they are covered by the random part)"""
    A = gen.AUTHORS[2:4]
    K = [1, 7]
    T = [gen.T0, gen.T0 + 1, gen.T0 + 256]
    TG = [[], [["t", "a"]], [["t", "ab"]], [["t", "a"], ["t", "b"]]]
    universe = [(a, k, t, tg) for a in A for k in K for t in T for tg in TG]
    filters = []
    for a in [None] + [[x] for x in A] + [A]:
        for k in [None] + [[x] for x in K] + [K]:
            for tg in [None, ["a"], ["ab"], ["a", "b"]]:
                for since in [None, gen.T0, gen.T0 + 1]:
                    for until in [None, gen.T0 + 1, gen.T0 + 300]:
                        f = {}
                        if a:
                            f["authors"] = a
                        if k:
                            f["kinds"] = k
                        if tg:
                            f["#t"] = tg
                        if since is not None:
                            f["since"] = since
                        if until is not None:
                            f["until"] = until
                        if f:
                            filters.append(f)
    n = 0
    rng = random.Random(7)
    stores = list(itertools.combinations(range(len(universe)), 2)) + list(itertools.combinations(range(0, len(universe), 3), 3))
    rng.shuffle(stores)
    for combo in stores[:400]:
        evs = []
        for j, ui in enumerate(combo):
            a, k, t, tg = universe[ui]
            evs.append({"id": "%02x" % (16 * j + 1) + "00" * 30 + "%02x" % ui, "pubkey": a, "created_at": t, "kind": k,
                        "tags": [list(x) for x in tg], "content": "", "sig": "00" * 64})
        scen.load(evs)
        for f in filters:
            rec = scen.ask_kv(dict(f))
            oracle(report, scen, rec)
            record(report, rec)
            rec2 = scen.ask_sql([dict(f)])
            oracle(report, scen, rec2)
            record(report, rec2)
            n += 2
    report.coverage["exhaustive_small_scope_answers"] = n


FAR = [0xfeffffff, 0xff000000, 0xff000001, 0xff123456, 0xfffffffe, 0xffffffff]


def far_future(report, scen, rng):
    """stored events whose created_at, as four big-endian bytes, starts with fe / ff (year 2105 and later; no validator of the
    default configuration refuses a timestamp in the future): they sort at the very top of every time-ordered index, next to
    the scanners' ff seek sentinels.  Filters with `since` (and no `until`: the filter validation caps `until` at 2038)"""
    evs = []
    times = rng.sample(FAR, rng.choice([2, 3, 4, 5])) + [gen.T0 + rng.choice([0, 1, 256])]
    for i, t in enumerate(times):
        evs.append({"id": gen.mkid(rng), "pubkey": rng.choice(gen.AUTHORS[:3]), "created_at": t, "kind": rng.choice([1, 1, 7]),
                    "tags": [["t", rng.choice(["a", "ab"])]] if rng.random() < 0.5 else [], "content": "", "sig": "00" * 64})
    rng.shuffle(evs)
    scen.load(evs)
    fs = [{"since": gen.T0 - 10}, {"since": rng.choice(times) - 1}, {"since": 0xfefffff0}, {"since": gen.T0 - 10, "until": 2145934799},
          {"since": gen.T0 - 10, "kinds": [1, 7]}, {"since": gen.T0 - 10, "authors": gen.AUTHORS[:3]},
          {"since": gen.T0 - 10, "authors": gen.AUTHORS[:3], "kinds": [7, 1]}, {"#t": ["a", "ab"]}, {"kinds": [1]},
          {"ids": [e["id"] for e in evs], "since": gen.T0 - 10}]
    for f in fs:
        for rec in (scen.ask_kv(dict(f)), scen.ask_sql([dict(f)])):
            oracle(report, scen, rec)
            record(report, rec)
        report.count("far_future_store_filters")


def adjacent_blocks(report, scen, rng):
    """two kinds, two authors, two tag values and nothing else in the store: the requested values own adjacent index blocks;
    windows that cut through every block"""
    ks = rng.choice([[1, 7], [1, 2], [4, 7]])
    au = rng.sample(gen.AUTHORS[:4], 2)
    vals = rng.choice([["x", "y"], ["a", "b"], ["x", "xy"]])
    evs = [{"id": gen.mkid(rng), "pubkey": rng.choice(au), "created_at": gen.T0 + rng.choice([0, 10, 20, 30, 40, 50]), "kind": rng.choice(ks),
            "tags": [["t", rng.choice(vals)]], "content": "", "sig": "00" * 64} for _ in range(rng.randint(4, 9))]
    scen.load(evs)
    cut = gen.T0 + rng.choice([5, 15, 25, 35, 45])
    for f in ({"kinds": ks, "until": cut}, {"authors": au, "until": cut}, {"#t": vals, "until": cut},
              {"authors": au, "kinds": ks, "until": cut}, {"kinds": ks, "since": gen.T0 + 5, "until": cut},
              {"kinds": ks, "#t": vals, "until": cut}, {"authors": au, "#t": vals, "until": cut}):
        for rec in (scen.ask_kv(dict(f)), scen.ask_sql([dict(f)])):
            oracle(report, scen, rec)
            record(report, rec)
        report.count("adjacent_block_filters")


# ---------------------------------------------------------------------------------------------------------------------------
# chained plans, both orders.  A filter that names tag values next to authors and / or kinds is served by a chain of index
# scans; *which* index is walked first and which only confirms candidates is decided by the planner from the number of values
# each condition names.  The filters of gen.gen_filter name at most three values per field, which fixes one order for every
# chained plan.  The family below draws the widths over a generous range instead — author x kind products from 1 to several
# dozen, and single lists of up to several hundred values (a follow list of a few hundred authors, or "every kind I render",
# is ordinary client behaviour) — so that, whatever weights the planner gives its indexes, each chained plan is exercised in
# both orders; the evidence counts them apart (distribution: kv_index_multi(first,second)).  The stores are built for the
# second position: the index that only confirms candidates is one in which an event may own SEVERAL entries (the tag index:
# one per tag), so the stores hold events that carry two or three of the requested values, values that extend one another,
# events with one requested value, candidates with none, and they spread all of them over few timestamps so that every kind
# of event sorts both above and below the others inside the index.  The oracle is the property as it stands: every strictly
# matching stored event delivered, once, when the limit does not truncate.
WIDE_FAMILIES = [["x", "y", "z", "w"], ["a", "ab", "abc", "abcd"], ["a", "ab", "b", "bc"], ["x", "xy", "y", "q"], ["nostr", "relay", "nos", "re"]]
WIDE_KINDS = [1, 2, 4, 6, 7, 16, 1111, 9735, 9999, 40000, 65535]           # regular kinds: nothing replaces anything
WIDE_LIST = (40, 120, 250, 450, 700)                                         # how many further values a "long list" gets
WIDE_STEPS = [0, 0, 1, 2, 50, 100, 255, 256, 257]


def many_authors(rng, n):
    return [rng.randbytes(32).hex() for _ in range(n)]


def many_kinds(rng, n, avoid=()):
    # regular range only (1000 ... 9999), none of them stored
    return [k for k in rng.sample(range(1000, 9999), n) if k not in avoid]


def ask_both_backends(report, scen, f):
    for rec in (scen.ask_kv(dict(f)), scen.ask_sql([dict(f)])):
        oracle(report, scen, rec)
        record(report, rec)
        if rec is not None and rec["backend"] == "kv" and str(rec.get("index")).startswith("multi("):
            report.count("chained_plan_answers")
            if len(rec["spec_strict"]) > 1 and not (rec.get("limit") is not None and len(rec["spec_incl"]) > rec["limit"]):
                report.count("chained_plan_answers_with_2+_owed_events")


def wide_store(rng, authors, kinds, conds):
    """conds: [(tag name, requested values)].  Events by the requested authors / kinds (mostly), each with none, one, two or
    three of the requested values of the first condition, with values outside the request (an extension of a requested value
    among them), under few timestamps"""
    name, vals = conds[0]
    evs = []
    for i in range(rng.randint(3, 14)):
        r = rng.random()
        if r < 0.35:
            mine = rng.sample(vals, min(len(vals), rng.choice([2, 2, 3])))
        elif r < 0.75:
            mine = [rng.choice(vals)]
        elif r < 0.9:
            mine = [rng.choice(["other", rng.choice(vals) + rng.choice(["x", "0", " "])])]
        else:
            mine = []
        if mine and rng.random() < 0.25:
            mine.append(rng.choice(["other", rng.choice(vals) + "z"]))
        rng.shuffle(mine)
        tags = [[name, v] for v in mine]
        for n2, v2 in conds[1:]:
            if rng.random() < 0.75:
                tags.insert(rng.randrange(len(tags) + 1), [n2, rng.choice(v2)])
        evs.append({"id": gen.mkid(rng), "pubkey": rng.choice(authors) if rng.random() < 0.9 else gen.AUTHORS[6],
                    "created_at": gen.T0 + rng.choice(WIDE_STEPS), "kind": rng.choice(kinds) if rng.random() < 0.9 else 3,
                    "tags": tags, "content": "", "sig": "00" * 64})
    ids = set()
    for e in evs:
        while e["id"] in ids:
            e["id"] = gen.mkid(rng)
        ids.add(e["id"])
    return evs


def wide_chained(report, scen, rng):
    """directed: one store, the same tag conditions next to author / kind conditions of every width"""
    authors = rng.sample(gen.AUTHORS[:6], rng.choice([1, 2, 3, 4, 5]))
    kinds = rng.sample(WIDE_KINDS, rng.choice([1, 2, 3, 4, 6]))
    fam = rng.choice(WIDE_FAMILIES)
    name = rng.choice(["t", "t", "t", "e", "g"])
    conds = [(name, rng.sample(fam, rng.choice([2, 2, 3, 4])))]
    if rng.random() < 0.3:
        # a second tag name: its values go into the same index scan as the first one's
        conds.append((rng.choice([n for n in ["t", "p", "r"] if n != name]), rng.sample(["v1", "v2", "v"], rng.choice([1, 2]))))
    evs = wide_store(rng, authors, kinds, conds)
    scen.load(evs)
    tagc = {"#" + n: list(v) for n, v in conds}
    cut = gen.T0 + rng.choice([0, 1, 2, 50, 100, 255, 256])
    extra_a, extra_k = rng.choice(WIDE_LIST), rng.choice(WIDE_LIST)
    fs = [{"authors": authors, "kinds": kinds, **tagc},
          {"authors": authors, "kinds": kinds, **tagc, "until": cut},
          {"authors": authors[:1], "kinds": kinds[:1], **tagc},
          {"authors": authors + many_authors(rng, rng.choice([1, 2, 4])), "kinds": kinds + many_kinds(rng, rng.choice([1, 3, 6]), kinds), **tagc},
          {"authors": authors, **tagc},
          {"kinds": kinds, **tagc},
          {"authors": authors + many_authors(rng, extra_a), **tagc},
          {"kinds": kinds + many_kinds(rng, extra_k, kinds), **tagc},
          {"authors": authors, "kinds": kinds, "#" + name: conds[0][1][:1]},
          {"authors": authors, "kinds": kinds, **tagc, "since": cut}]
    for f in fs:
        lim = rng.choice([None, None, None, None, 100, 500, 3])
        if lim is not None:
            f["limit"] = lim
        for k in ("authors", "kinds"):
            if k in f:
                f[k] = list(f[k])
                rng.shuffle(f[k])
        ask_both_backends(report, scen, f)
        report.count("wide_chained_directed_filters")
    report.count("wide_chained_directed_stores")


def gen_wide_filter(rng, evs):
    """the random generator's wide sibling: a conjunction over the values of a random store (qscen.gen_store) that names MANY
    authors and / or kinds next to two or more tag values — preferably values that one stored event carries together"""
    f = {}
    by_name = {}
    together = []
    for e in evs:
        mine = {}
        for t in e["tags"]:
            if len(t) >= 2 and len(t[0]) == 1 and isinstance(t[1], str):
                by_name.setdefault(t[0], set()).add(t[1])
                mine.setdefault(t[0], set()).add(t[1])
        together += [(n, sorted(v)) for n, v in sorted(mine.items()) if len(v) > 1]
    if together and rng.random() < 0.7:
        name, vs = rng.choice(together)
        vals = rng.sample(vs, 2)
    elif by_name:
        name = rng.choice(sorted(by_name))
        pool = sorted(by_name[name])
        vals = rng.sample(pool, min(len(pool), 2))
    else:
        name, vals = "t", ["a", "ab"]
    pool = sorted(by_name.get(name, ())) + gen.FAMILY
    for _ in range(rng.choice([0, 0, 1, 2])):
        vals.append(rng.choice(pool))
    f["#" + name] = vals
    if rng.random() < 0.2:
        others = sorted(n for n in by_name if n != name)
        if others:
            n2 = rng.choice(others)
            f["#" + n2] = [rng.choice(sorted(by_name[n2]))]
    authors = sorted({e["pubkey"] for e in evs}) + rng.sample(gen.AUTHORS[4:], rng.choice([0, 1, 3]))
    kinds = sorted({e["kind"] for e in evs} | set(rng.sample(gen.KINDS, rng.choice([0, 2, 4]))))
    shape = rng.choice(["ak", "ak", "ak", "a", "k"])
    if shape == "ak":
        f["authors"], f["kinds"] = authors, kinds
    elif shape == "a":
        f["authors"] = authors + many_authors(rng, rng.choice(WIDE_LIST))
    else:
        f["kinds"] = sorted(set(kinds + many_kinds(rng, rng.choice(WIDE_LIST))))
    for k in ("authors", "kinds"):
        if k in f:
            rng.shuffle(f[k])
    r = rng.random()
    if r < 0.25 and evs:
        f["until"] = rng.choice(evs)["created_at"] + rng.choice([-1, 0, 1, 256])
    elif r < 0.33 and evs:
        f["since"] = max(0, rng.choice(evs)["created_at"] + rng.choice([-1, 0, 1, -256]))
    lim = rng.choice([None, None, None, None, 100, 500, 3])
    if lim is not None:
        f["limit"] = lim
    return f


def wide_random(report, scen, rng, adversarial=False):
    evs = qscen.gen_store(rng, adversarial=adversarial)
    scen.load(evs)
    for k in range(6):
        ask_both_backends(report, scen, gen_wide_filter(rng, evs))
        report.count("wide_chained_random_filters")


# ---------------------------------------------------------------------------------------------------------------------------
# REQs through the storage object, under the storage configurations an operator may choose.  The property quantifies over the
# relay as it is deployed: the `storage:` section of the configuration is handed to LMDBStorage as it stands, and its
# documented options (pool_size: how many reader threads serve the plans of the REQs; map_size, metasync, sync, max_spare_txns
# are passed on to the environment) decide HOW a REQ is executed — the plans of a multi-filter REQ are submitted to the
# storage's own pool and collected again by storage.subscribe -> Subscription.run_query (what a websocket REQ runs) and by
# storage.run_single_query (what the HTTP / internal callers run).  The bench above calls planner / execute_one_plan /
# executor itself, with its own pool: everything between the storage object's options and the executor is invisible to it.
# The family below builds the real LMDBStorage from option sets, loads the scenario's store through its writer, and sends
# REQs of 1 ... 7 valid filters (the planner serves the first five; the others must not disturb them) through both entry
# points.  Pool widths are chosen on general grounds: a REQ has between one and five plans, so the widths cover "narrower
# than the REQ" (1 ... 4), "as wide" (5), the default (option absent) and "much wider" (16).  Filters come in two sorts:
# selectors that PARTITION the store (one kind / one author / one id / one tag value / one timestamp each, so that an event
# is owed by exactly one filter of the REQ and nothing a neighbour delivers can stand in for it) and the random conjunctions
# of gen.gen_filter.  What is observable at these entry points is the REQ's stream up to EOSE, so every planned filter is
# judged by the completeness oracle above against that stream (each strictly matching stored event of a filter that is under
# its limit must be in it; known classes as for a filter asked alone), and an event must not arrive more often than there are
# filters of the REQ that match it.
POOL_WIDTHS = (1, 2, 3, 4, 5, None, 16)                       # None: the option is absent (the default width)
ENV_OPTIONS = ({}, {}, {}, {"metasync": False}, {"sync": False}, {"map_size": 16 << 20}, {"max_spare_txns": 1}, {"metasync": False, "map_size": 200 << 20})
REQ_SIZES = (1, 2, 3, 3, 4, 4, 5, 5, 6, 7)
EOSE_TIMEOUT = 60.0                                           # seconds; a REQ here takes milliseconds


class ConfiguredLMDB:
    """the real LMDBStorage built from a `storage:` option set.  As in lib/hist.py the writer thread is not started: its
    real run() loop is executed in the calling thread over everything queued; the reader pool is the storage's own"""

    def __init__(self, options):
        import asyncio

        common.setup_paths()
        from nostr_relay.storage import kv

        self.kv = kv
        self.dir = common.scratch_dir("nrkvc-")
        self.loop = asyncio.new_event_loop()
        self.storage = None
        kv.analyze = lambda *a, **k: None
        opts = {"class": "nostr_relay.storage.kv.LMDBStorage", "path": self.dir, "validators": [], "map_size": 64 << 20}
        opts.update(options)
        orig_start = kv.WriterThread.start
        kv.WriterThread.start = lambda self_: None          # never start the thread
        try:
            storage = kv.LMDBStorage(opts)
            self.loop.run_until_complete(storage.setup())
            self.storage = storage
        finally:
            kv.WriterThread.start = orig_start

    def load(self, events):
        w = self.storage.writer_thread
        for e in events:
            try:
                ev = self.kv.Event(**e)
            except Exception:
                continue
            w.queue.put(("add", [ev]))
        w.queue.put(None)
        w.running = True
        w.run()

    def ids(self):
        with self.storage.db.begin() as txn:
            keys = [bytes(k) for k in txn.cursor().iternext(values=False)]
        return {k[1:].hex() for k in keys if k[:1] == b"\x00" and len(k) == 33}

    def subscribe(self, filters):
        """one REQ as a websocket connection issues it: (ids delivered before EOSE in order, whether EOSE came)"""
        import asyncio
        import copy
        from nostr_relay.util import ClientID

        async def go():
            queue = asyncio.Queue()
            client = ClientID("127.0.0.1")          # (kept alive by this frame: storage.clients holds it weakly)
            await self.storage.subscribe(client, "req", copy.deepcopy(filters), queue)
            got, eose = [], False
            try:
                while True:
                    sub_id, event = await asyncio.wait_for(queue.get(), EOSE_TIMEOUT)
                    if event is None:
                        eose = True
                        break
                    got.append(event.id)
            except asyncio.TimeoutError:
                pass
            await self.storage.unsubscribe(client, "req")
            await self.storage.unsubscribe(client)
            return got, eose
        return self.loop.run_until_complete(go())

    def single_query(self, filters):
        import asyncio
        import copy

        async def go():
            out = []

            async def collect():
                async for ev in self.storage.run_single_query(copy.deepcopy(filters)):
                    out.append(ev.id)
            try:
                await asyncio.wait_for(collect(), EOSE_TIMEOUT)
                return out, True
            except asyncio.TimeoutError:
                return out, False
        return self.loop.run_until_complete(go())

    def close(self):
        st = self.storage
        try:
            if st is not None:
                pool = st.query_pool
                threads = list(getattr(pool, "_threads", ()))
                pool.shutdown(wait=False, cancel_futures=True)
                for t in threads:
                    t.join(5.0)
                if not any(t.is_alive() for t in threads) and st.db is not None:
                    st.db.close()                       # (never under a reader that is still running)
                self.loop.run_until_complete(st.stat_collector.stop())
        except Exception:
            pass
        try:
            self.loop.close()
        except Exception:
            pass
        import shutil
        shutil.rmtree(self.dir, ignore_errors=True)


def partition_selectors(rng, evs):
    """filters that each select the stored events sharing ONE value of one field; the selectors of one field are disjoint
    (but for the timestamp windows, which reach one second to either side)"""
    out = []
    for k in sorted({e["kind"] for e in evs}):
        out.append({"kinds": [k]})
    for a in sorted({e["pubkey"] for e in evs}):
        out.append({"authors": [a]})
    for e in rng.sample(evs, min(len(evs), 4)):
        out.append({"ids": [e["id"]]})
    vals = sorted({(t[0], t[1]) for e in evs for t in e["tags"]
                   if len(t) >= 2 and isinstance(t[0], str) and len(t[0]) == 1 and isinstance(t[1], str) and t[1] and "\x00" not in t[1]})
    for n, v in rng.sample(vals, min(len(vals), 5)):
        out.append({"#" + n: [v]})
    for t in rng.sample(sorted({e["created_at"] for e in evs}), min(3, len({e["created_at"] for e in evs}))):
        if 1 < t < 2 ** 31 - 2:
            out.append({"since": t - 1, "until": t + 1})      # (an event AT a bound is not owed: the window is one wider)
    return out


def gen_storage_req(rng, scen, evs, n):
    """n filters that pass the filter validation (so that 'a REQ of n filters' is what reaches the storage)"""
    sel = partition_selectors(rng, evs) if evs else []
    style = rng.random()
    if sel and style < 0.45:
        # one field for the whole REQ where it has enough values: every stored event is owed by at most one filter
        by_field = {}
        for f in sel:
            by_field.setdefault(sorted(f)[0], []).append(f)
        rich = [v for v in by_field.values() if len(v) >= min(n, 3)] or list(by_field.values())
        pool = list(rng.choice(rich))
        rng.shuffle(pool)
        fs = pool[:n]
        while len(fs) < n:
            fs.append(dict(rng.choice(sel)))
    elif sel and style < 0.75:
        fs = [dict(rng.choice(sel)) for _ in range(n)]
    else:
        fs = [dict(rng.choice(sel)) if sel and rng.random() < 0.35 else gen.gen_filter(rng, evs, limit_pool=(None, None, None, None, 5, 100, 3))
              for _ in range(n)]
    out = []
    for f in fs:
        f = {k: (list(v) if isinstance(v, list) else v) for k, v in f.items()}
        if "limit" not in f and rng.random() < 0.15:
            f["limit"] = rng.choice([100, 500, 20, 5])
        tries = 0
        while scen.kv.validate(f) is None and tries < 20:
            f = gen.gen_filter(rng, evs, limit_pool=(None, None, 100))
            tries += 1
        if scen.kv.validate(f) is not None:
            out.append(f)
    return out


def describe_options(options):
    return ", ".join("%s=%r" % kv for kv in sorted(options.items())) or "defaults"


def storage_reqs(report, scen, options, reqs, entries=("subscribe", "run_single_query")):
    """the store loaded in `scen`, in a real LMDBStorage built from `options`; every REQ of `reqs` through the entry points"""
    what = "LMDBStorage(%s)" % describe_options(options)
    try:
        st = ConfiguredLMDB(options)
    except Exception as e:
        report.property_failure("%s cannot be set up (%r): no REQ is answered" % (what, e),
                                {"backend": "kv", "storage_req": True, "options": options, "entry": entries[0], "filters": [], "events": scen.events}, None)
        return
    try:
        st.load(scen.events)
        stored = st.ids()
        if stored != scen.kv_stored:
            report.count("storage_req_store_differs_from_bench")
        width = options.get("pool_size", "default")
        for fs in reqs:
            # what each filter owes, from the bench: the reference answers (Lean matchesSpec, cross-checked with the Python
            # reference), the limit and the index of the plan the filter gets when asked alone
            judged = []
            for f in fs[:5]:
                rec = scen.ask_kv({k: (list(v) if isinstance(v, list) else v) for k, v in f.items()})
                if rec is not None and rec.get("planned") and rec["ids"] is not None:
                    judged.append(rec)
            for entry in entries:
                payload = {"backend": "kv", "storage_req": True, "options": options, "entry": entry, "filters": fs, "events": scen.events}
                try:
                    got, eose = st.subscribe(fs) if entry == "subscribe" else st.single_query(fs)
                except Exception as e:
                    report.property_failure("%s: storage.%s raised %r on the REQ %r of valid filters" % (what, entry, e, fs), payload, None)
                    continue
                if not eose:
                    report.count("storage_req_without_eose")   # (whether EOSE comes is another property's business: judge what came)
                delivered = set(got)
                owed = 0
                for i, rec in enumerate(judged):
                    r = dict(rec)
                    r["ids"] = sorted(delivered)
                    r["spec_strict"] = rec["spec_strict"] & stored
                    r["spec_incl"] = rec["spec_incl"] & stored
                    if not (r["limit"] is not None and len(r["spec_incl"]) > r["limit"]):
                        owed += len(r["spec_strict"])
                    oracle(report, scen, r, payload=payload,
                           context=" — as one of the %d filters of the REQ %r sent through storage.%s of %s" % (len(fs), fs, entry, what))
                # at most once per matching filter
                for i in sorted(delivered):
                    k = sum(1 for rec in judged if i in rec["spec_incl"])
                    c = got.count(i)
                    if k >= 1 and c > k:
                        report.property_failure("%s: storage.%s delivers the event %s %d times for the REQ %r in which %d filter(s) match it"
                                                % (what, entry, i, c, fs, k), payload, None)
                        break
                report.case(("kv-storage-req", describe_options(options), entry, repr(fs), len(scen.events)), nontrivial=owed > 0,
                            sample={"backend": "kv", "storage_options": describe_options(options), "entry": entry, "filters_in_req": len(fs),
                                    "planned": len(judged), "owed_events": owed, "delivered": len(got)})
                report.count("storage_reqs_" + entry)
                report.count("storage_reqs_pool_size_%s" % width)
                report.count("storage_reqs_with_%d_filters" % len(fs))
                if isinstance(width, int) and len(judged) > width:
                    report.count("storage_reqs_with_more_plans_than_pool_threads")
    finally:
        st.close()


def storage_configurations(report, scen, rng, n_reqs, adversarial=False):
    """one store, every pool width (with a further documented environment option now and then), the same REQs under each"""
    evs = qscen.gen_store(rng, adversarial=adversarial)
    scen.load(evs)
    reqs = [fs for fs in (gen_storage_req(rng, scen, evs, rng.choice(REQ_SIZES)) for _ in range(n_reqs)) if fs]
    for width in POOL_WIDTHS:
        options = dict(rng.choice(ENV_OPTIONS))
        if width is not None:
            options["pool_size"] = width
        storage_reqs(report, scen, options, reqs)
    report.count("storage_configuration_stores")


def validation_cases(report, drv, rng, n):
    """the front end: what NostrQuery validation makes of the ids / authors / kinds a client sends (any spelling, duplicates,
    over-long, too short, not hex, non-ASCII) vs Model/Validate.lean — the theorems of Props/C02Validate.lean (validated strings
    of 64 digits decode to 32-byte strings in strictly descending order) are about that model — and, independently, the order
    itself on the real output"""
    from nostr_relay.storage.base import NostrQuery
    from nostr_relay.storage import kv

    def cps(x):
        return [ord(c) for c in x]

    def word(k):
        r = rng.random()
        base = rng.choice(gen.AUTHORS + [rng.randbytes(32).hex() for _ in range(2)])
        if r < 0.35:
            return "".join(c.upper() if rng.random() < 0.5 else c for c in base)
        if r < 0.45:
            return base + rng.choice(["0", "00", "ab", "F" * 10])
        if r < 0.52:
            return rng.choice([base[:-1], base[:62], "", "zz" * 32, base[:63] + "g", base[:63] + "\u0660", base[:63] + "\uff21", "\u212a" * 64])
        return base
    for _ in range(n):
        field = rng.choice(["ids", "authors", "kinds"])
        if field == "kinds":
            raw = [rng.choice(gen.KINDS + [1, 1, 7, 7]) for _ in range(rng.randint(1, 6))]
        else:
            pool = [word(0) for _ in range(rng.randint(1, 4))]
            raw = [rng.choice(pool) for _ in range(rng.randint(1, 6))]
        try:
            q = NostrQuery.model_validate({field: list(raw)})
            got = getattr(q, field)
        except Exception:
            got = None
        payload = {"case": "validation", "field": field, "values": raw}
        if field == "kinds":
            mv = drv.call({"op": "val.kinds", "values": raw})
            if got != mv:
                report.correspondence_break("base.NostrQuery (kinds)", payload, got, mv)
            if got is not None and any(a <= b for a, b in zip(got, got[1:])):
                report.property_failure("validated kinds are not strictly descending: %r" % (got,), payload, None)
        else:
            mv = drv.call({"op": "val.hex", "values": [cps(x) for x in raw]})
            mine = None if mv is None else ["".join(chr(c) for c in h) for h in mv["validated"]]
            if got != mine:
                report.correspondence_break("base.NostrQuery (%s: ids_are_hex + sort_fields)" % field, payload, got, mine)
            if got is not None:
                dec = []
                for h in got:
                    try:
                        dec.append(kv.bytes_from_hex(h))
                    except ValueError:
                        pass
                if mv is not None and [d.hex() for d in dec] != mv["decoded"]:
                    report.correspondence_break("kv.bytes_from_hex over validated %s" % field, payload, [d.hex() for d in dec], mv["decoded"])
                if all(len(h) == 64 for h in got) and any(a <= b for a, b in zip(dec, dec[1:])):
                    report.property_failure("the validated %s of a filter reach the LMDB scanner out of descending byte order: %r"
                                            % (field, got), payload, None)
        report.case(("validation", field, repr(raw)), nontrivial=got is not None and len(set(map(str, raw))) > 1,
                    sample={"field": field, "values": [str(x)[:20] for x in raw], "accepted": got is not None})
        report.count("validation_cases_" + field)


def run(report, tier, seed):
    rng = random.Random(seed)
    drv = common.Driver()
    scen = qscen.Scenario(report, drv)
    report.coverage["rule"] = (
        "stores of 3-26 events (4 authors incl. 00../ff.., boundary kinds and timestamps with byte carries, ids "
        "starting 00/ff, prefix-related tag values a/ab/abc, multi-byte and NUL characters, duplicate tags) x "
        "conjunctive filters built from stored values with since/until at -1/0/+1 of stored timestamps and limits "
        "0/1/2/3/5/100/default; LMDB: one plan per filter (every planner index is reported in the distribution); "
        "SQL: REQs of 1-2 filters; reference answer = Lean matchesSpec (strict reading must be delivered, inclusive "
        "reading bounds the count); non-trivial = at least one stored event strictly matches; chained plans in both "
        "orders: tag conditions (2-4 values, prefix-related, one or two names) next to 1-12 authors x 1-12 kinds and next "
        "to single lists of 40-700 authors / kinds, over stores whose events carry 0-3 of the requested values under few "
        "timestamps (directed) and over the random stores (wide sibling of the filter generator); storage configurations: "
        "the real LMDBStorage built from option sets (pool_size 1/2/3/4/5/absent/16, now and then metasync / sync / map_size / "
        "max_spare_txns), the random stores loaded through its writer, REQs of 1-7 valid filters (selectors that partition "
        "the store by kind / author / id / tag value / timestamp, and random conjunctions) through storage.subscribe -> "
        "Subscription.run_query and through storage.run_single_query; every planned filter judged against the stream "
        "delivered before EOSE, and no event more often than there are filters matching it")
    report.assumptions += [
        "empty filters ({} or only a limit) are refused by policy on both backends and are outside the property's "
        "'well-formed conjunction' domain, as are ids/authors that are not 64 hex digits and `search`",
        "the LMDB planner serves at most 5 filters per REQ (maximum_plans); the bench asks one filter per plan",
        "REQs through the storage object (storage configurations): of a REQ with more than five valid filters only the first five "
        "are judged; only the union of the plans' answers is observable there, so a filter's event that a neighbouring filter "
        "delivers counts as delivered",
    ]
    try:
        for e in report.known:
            replay_one(report, scen, common.load_finding_replay(e))
        n = (45, 15) if tier == "quick" else (700, 200)
        for i in range(n[0]):
            run_case(report, scen, rng)
        for i in range(n[1]):
            run_case(report, scen, rng, adversarial=True)
        for i in range(6 if tier == "quick" else 60):
            far_future(report, scen, rng)
        for i in range(10 if tier == "quick" else 150):
            adjacent_blocks(report, scen, rng)
        validation_cases(report, drv, rng, 300 if tier == "quick" else 6000)
        # (after everything else, so that the cases above are the same as before for a given seed)
        for i in range(24 if tier == "quick" else 500):
            wide_chained(report, scen, rng)
        for i in range(16 if tier == "quick" else 300):
            wide_random(report, scen, rng, adversarial=i % 4 == 3)
        for i in range(12 if tier == "quick" else 150):
            storage_configurations(report, scen, rng, 6 if tier == "quick" else 10, adversarial=i % 4 == 3)
        if tier == "thorough":
            exhaustive(report, scen)
    finally:
        scen.close()
        drv.close()


def replay(report, path):
    import json

    data = json.load(open(path))
    drv = common.Driver()
    scen = qscen.Scenario(report, drv)
    try:
        for it in (data.get("violations") or []) + (data.get("correspondence_breaks") or []):
            r = it.get("replay") or it.get("input")
            if "backend" in r:
                replay_one(report, scen, r)
    finally:
        scen.close()
        drv.close()
