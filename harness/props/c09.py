"""
C09 — replaceable events: newest kept, older superseded, everything else untouched.
Tie: real add_event on both backends (LMDB writer drained after every submission) vs the Lean models
(`taskBody` for LMDB, `addEvent` with the observed pre_save outcome for SQL), α = the stored id set /
key list after every event.  Search: after every accepted event n
  (i)   no stored o != n with the same address and o.created_at < n.created_at,
  (ii)  the newest version of every address that existed before is still there (ties free),
  (iii) everything removed has n's address (author, kind, d-value) — in particular nothing of another
        author/kind/d-value and no regular event.
"""
import itertools
import random

from lib import common, gen
from lib.hist import KVStore, SQLStore, address
from lib.kvimpl import model_event

THEOREMS_TIED = ["C09_kv_regular_untouched", "C09_kv_removed_spec", "C09_kv_never_removes_itself", "C09_kv_older_gone", "C09_kv_older_gone_reachable",
                 "C09_sql_removed_spec", "C09_sql_older_gone", "C09_sql_newest_survives"]

AUTH = gen.AUTHORS[2:4]
KINDS = [0, 3, 1, 10002, 30000, 30001]
DTAGS = [None, "bare", "", "a", "ab", "abc", "b", "é"]
T0 = gen.T0


def mk(rng, i, author, kind, d, ts, extra=None):
    tags = []
    if d == "bare":
        tags.append(["d"])
    elif d is not None:
        tags.append(["d", d])
    if extra:
        tags += extra
    return {"id": "%02x" % (i % 256) + rng.randbytes(31).hex(), "pubkey": author, "created_at": ts, "kind": kind,
            "tags": tags, "content": "v%d" % i, "sig": "00" * 64}


def gen_history(rng, n):
    evs = []
    focus_kind = rng.choice([30000, 30000, 30000, 10002, 0])
    focus_author = rng.choice(AUTH)
    small = rng.random() < 0.5          # a small d vocabulary makes address collisions likely
    dpool = [None, "bare", "", "a", "ab"] if small else DTAGS
    for i in range(n):
        kind = focus_kind if rng.random() < 0.75 else rng.choice(KINDS)
        d = rng.choice(dpool) if 30000 <= kind < 40000 else (rng.choice([None, "a"]) if rng.random() < 0.2 else None)
        extra = None
        r = rng.random()
        if r < 0.3:
            # further d tags after the first one: only the first counts
            extra = [["d", rng.choice(["a", "ab", "b", ""])] for _ in range(rng.choice([1, 1, 2]))]
            if rng.random() < 0.2:
                extra.insert(0, ["d"])
        elif r < 0.4:
            extra = [["t", "x"]]
        elif r < 0.47:
            # a tag the SQL backend's tag indexing chokes on (IndexError on the bare "expiration"): the newer version is
            # refused *after* the older ones were looked at — they must still be there
            extra = [rng.choice([["expiration"], ["expiration"], ["delegation"]])]
        evs.append(mk(rng, i, focus_author if rng.random() < 0.8 else rng.choice(AUTH), kind, d,
                      T0 + rng.choice([0, 1, 2, 3, 3]), extra))
    if rng.random() < 0.2:
        # several d tags, the first of them bare: the address is d='' (only the first d tag counts) — next to stored versions
        # whose d is the *later* value and whose d is ''
        x = rng.choice(["a", "ab", "x"])
        a = focus_author
        trio = [mk(rng, 90, a, 30000, x, T0 + 1), mk(rng, 91, a, 30000, "", T0), mk(rng, 92, a, 30000, "bare", T0 + 2, [["d", x]])]
        if rng.random() < 0.5:
            trio.append(mk(rng, 93, a, 30000, x, T0 + 3, [["d"]]))
        pos = rng.randrange(len(evs) + 1)
        evs[pos:pos] = trio
    if rng.random() < 0.3 and evs:
        evs.append(dict(rng.choice(evs)))  # resubmission
    return evs


def classify(store, n, removed, survivors_older, by_id):
    """known-finding class of a C09 violation"""
    k = n["kind"]
    if store.backend == "sql":
        if survivors_older:
            return "sql-replaceable-one-older-only"
        return None
    # LMDB
    if 30000 <= k < 40000:
        dn = address(n)[2]
        dtags = [t for t in n["tags"] if t and t[0] == "d"]
        first_bare = bool(dtags) and len(dtags[0]) < 2
        if removed:
            if not dtags or any(len(t) < 2 for t in dtags):
                return "kv-nip33-missing-d-deletes-all"
            return "kv-nip33-dtag-substring"
        if survivors_older:
            if dn == "":
                return "kv-nip33-empty-d-never-supersedes"
            return "kv-nip33-dtag-substring"
    return None


def run_history(report, drv, store, evs, tag):
    store.reset()
    lines = [{"op": "kv.reset"}] if store.backend == "kv" else [{"op": "sql.reset"}]
    expect = ["ok"]
    by_id = {}
    in_model = True
    prefix = []
    for n in evs:
        prefix.append(n)
        before = store.ids()
        res = store.add(n)
        after = store.ids()
        by_id.setdefault(n["id"], n)
        me = model_event(n)
        if me is None:
            in_model = False
        if in_model:
            if store.backend == "kv":
                if not (20000 <= n["kind"] < 30000):
                    lines.append({"op": "kv.task", "task": {"t": "add", "ev": me}})
                    expect.append(None)  # outcome not observable from add_event (always True): compare the dump
                lines.append({"op": "kv.dump"})
                expect.append(store.dump())
            else:
                lines.append({"op": "sql.add", "ev": me})
                expect.append("raises" if res["exc"] else ("ok:true" if res["ok"] else "ok:false"))
                lines.append({"op": "sql.dump"})
                expect.append(store.dump())
        # ---- the property on the implementation -------------------------------------------------
        stored_now = n["id"] in after
        addr = address(n)
        removed = {i for i in before - after if i != n["id"]}
        payload = {"backend": store.backend, "events": list(prefix)}
        if res["ok"] and n["id"] in before:
            pass  # resubmission acknowledged as new: C06's business
        for r in removed:
            ra = address(by_id[r]) if r in by_id else None
            if addr is None or ra != addr:
                cls = classify(store, n, True, False, by_id)
                report.property_failure(
                    "%s: accepting %s (kind %d, d=%r) removed %s (kind %d, d=%r): different address"
                    % (store.backend, n["id"][:8], n["kind"], addr[2] if addr else None, r[:8],
                       by_id[r]["kind"] if r in by_id else -1, ra[2] if ra else None), payload, cls)
            elif by_id[r]["created_at"] > n["created_at"]:
                report.property_failure("%s: a newer version %s was removed by the older %s" % (store.backend, r[:8], n["id"][:8]),
                                        payload, None)
        if addr is not None and stored_now and (n["id"] not in before):
            older = [i for i in after if i != n["id"] and i in by_id and address(by_id[i]) == addr
                     and by_id[i]["created_at"] < n["created_at"]]
            if older:
                cls = classify(store, n, False, True, by_id)
                report.property_failure(
                    "%s: after accepting %s (kind %d, d=%r, t=%d) %d older version(s) of the same address are still stored"
                    % (store.backend, n["id"][:8], n["kind"], addr[2], n["created_at"], len(older)), payload, cls)
        # (ii) newest of every address present before survives
        groups = {}
        for i in before:
            if i in by_id and address(by_id[i]) is not None:
                groups.setdefault(address(by_id[i]), []).append(i)
        for a, members in groups.items():
            top = max(by_id[i]["created_at"] for i in members)
            if a == addr and n["created_at"] >= top and stored_now:
                continue
            if not any(by_id[i]["created_at"] == top and i in after for i in members):
                if not (a == addr and stored_now and n["created_at"] >= top):
                    report.property_failure("%s: the newest version of address %r was removed by %s" % (store.backend, a, n["id"][:8]),
                                            payload, classify(store, n, True, False, by_id))
    got = drv.batch(lines)
    for i, (g, e) in enumerate(zip(got, expect)):
        if e is not None and g != e:
            report.correspondence_break("%s add_event (replaceable)" % store.backend,
                                        {"backend": store.backend, "events": evs, "line": lines[i]}, summarize(e), summarize(g))
            break
    report.case((store.backend, tag, repr([(e["kind"], e["created_at"], e["tags"]) for e in evs])),
                nontrivial=any(address(e) is not None for e in evs),
                sample={"backend": store.backend, "events": [(e["kind"], e["created_at"], e["tags"]) for e in evs[:6]]})
    report.count("histories_" + store.backend)
    report.count("events", len(evs))


def summarize(x):
    if isinstance(x, list) and len(x) > 10:
        return {"n": len(x), "head": x[:4]}
    if isinstance(x, dict):
        return {k: summarize(v) for k, v in x.items()}
    return x


def exhaustive(report, drv, stores):
    """all arrival orders of small families: one author, one kind, d-values x 3 timestamps"""
    rng = random.Random(11)
    fams = []
    for kind, ds in ((30000, ["a", "ab", None, ""]), (10002, [None]), (0, [None]), (30000, ["bare", "a", "b"])):
        for combo in itertools.combinations([(d, t) for d in ds for t in (0, 1, 2)], 3 if len(ds) > 1 else 3):
            fams.append((kind, combo))
    rng.shuffle(fams)
    n = 0
    for kind, combo in fams[:120]:
        base = [mk(rng, i, AUTH[0], kind, d, T0 + t) for i, (d, t) in enumerate(combo)]
        for perm in itertools.permutations(base):
            for st in stores:
                run_history(report, drv, st, list(perm), "exh")
                n += 1
    report.coverage["exhaustive_permutation_histories"] = n


def burst_history(report, drv, store, evs, tag, rng):
    """LMDB: the events arrive in bursts — several are acknowledged and queued before the writer thread gets to write the
    first of them (it is busy, or waits for the write lock).  When the queue has drained, the store must be what the same
    events give one at a time: in particular a version accepted after a strictly older version of its address has replaced it."""
    store.reset()
    lines = [{"op": "kv.reset"}]
    by_id, order, accepted = {}, {}, []
    i = 0
    in_model = True
    while i < len(evs):
        group = evs[i:i + rng.choice([2, 3, 4])]
        i += len(group)
        for n in group:
            res = store.submit(n)
            by_id.setdefault(n["id"], n)
            if res["ok"]:
                # (an id accepted again later — its first copy had been superseded meanwhile — counts from its last acceptance:
                # an older version arriving after a newer one may stay)
                order[n["id"]] = len(accepted)
                accepted.append(n)
                me = model_event(n)
                if me is None:
                    in_model = False
                elif not (20000 <= n["kind"] < 30000):
                    lines.append({"op": "kv.task", "task": {"t": "add", "ev": me}})
        store.quiesce()
    after = store.ids()
    payload = {"backend": "kv", "case": "burst", "events": evs}
    for n in {e["id"]: e for e in accepted}.values():
        if n["id"] not in after or address(n) is None:
            continue
        older = [o for o in accepted if o["id"] in after and o["id"] != n["id"] and address(o) == address(n)
                 and o["created_at"] < n["created_at"] and order[o["id"]] < order[n["id"]]]
        if older:
            report.property_failure(
                "kv: %s (kind %d, d=%r, t=%d) was accepted after %d older version(s) of its address in a burst of queued events; "
                "when the writer had drained its queue they were still stored"
                % (n["id"][:8], n["kind"], address(n)[2], n["created_at"], len(older)), payload, None)
            break
    if in_model:
        got = drv.batch(lines + [{"op": "kv.dump"}])
        if got[-1] != store.dump():
            report.correspondence_break("kv add_event (replaceable, burst)", payload, {"n": len(store.dump())}, {"n": len(got[-1])})
    report.case(("kv", "burst", tag, repr([(e["kind"], e["created_at"], e["tags"]) for e in evs])),
                nontrivial=any(address(e) is not None for e in evs),
                sample={"backend": "kv", "case": "burst", "events": [(e["kind"], e["created_at"], e["tags"]) for e in evs[:6]]})
    report.count("burst_histories_kv")


# ---- versions of one address that are far apart in time -------------------------------------------------------------------
# The property puts no bound on the distance between two versions of an address: a profile, a contact list, a relay list or an
# article that was last edited a day, a year or decades ago is superseded by today's edit exactly like one edited a second ago
# (and nothing obliges the older version to have been *accepted* recently: it may have been stored long ago or imported).  The
# histories above keep every timestamp within a few seconds of T0, so nothing in them would notice a replacement step that only
# looks a bounded distance back (a time window on the scan, a cut-off taken from a configuration option, arithmetic that wraps
# at a byte or 32-bit carry).  The distances below are therefore chosen on general grounds, not after any option of /repo: every
# calendar scale from a second to the whole range of a 4-byte timestamp (about 136 years), both sides of a year / a decade, and
# the edges of the range itself.
DAY = 86400
YEAR = 365 * DAY
FAR_GAPS = [1, 255, 256, 3600, DAY, 30 * DAY, YEAR - 1, YEAR, YEAR + 1, YEAR + DAY, 2 * YEAR, 5 * YEAR, 10 * YEAR - 1, 10 * YEAR,
            10 * YEAR + 1, 10 * YEAR + DAY, 11 * YEAR, 20 * YEAR, 40 * YEAR, 1 << 24, 1 << 30]
# anchors for the newer version: today, a few realistic dates around it, and the edges of the signed / unsigned 32-bit range
FAR_ANCHORS = [T0, T0 + 400 * DAY, T0 - 3 * YEAR, 0x65ffffff, 0x66000000, (1 << 31) - 1, 1 << 31, (1 << 32) - 2, (1 << 32) - 1]
# (never 0: aionostr's Event() replaces a falsy created_at by the wall clock, so an event "created at 0" does not exist for the
# relay — it is stored as created now, and with the signature validator on it is refused; same decision as in C10, DESIGN §12)
FAR_EDGES = [1, 2, 3, (1 << 31) - 1, 1 << 31, (1 << 32) - 1]
FAR_KINDS = [0, 3, 10002, 30023]


def far_pairs():
    """(older, newer) timestamps: every anchor with every distance that stays in range, every anchor against the low edges of
    the range (the distance is then the anchor itself), and the edges against each other"""
    out = []
    for new in FAR_ANCHORS:
        for g in FAR_GAPS:
            if new - g >= 1:
                out.append((new - g, new))
        for lo in (1, 2, 3):
            out.append((lo, new))
    for lo, hi in itertools.combinations(FAR_EDGES, 2):
        out.append((lo, hi))
    seen, uniq = set(), []
    for p in out:
        if p not in seen and p[0] < p[1]:
            seen.add(p)
            uniq.append(p)
    return uniq


def far_pair_history(rng, pairs, order):
    """one author's long-lived addresses: for every replaceable kind of FAR_KINDS an older and a newer version (their distance
    drawn from `pairs`), next to events as old as the older version that no acceptance may touch: a regular note of the same
    author, the same kinds by another author, an article with another d-value.  order: 'up' = the older version is stored when
    the newer arrives (it must go); 'down' = the newer is stored when the older arrives (the newer must stay, the older may be
    refused or stored but must not displace it); 'mixed' = per kind."""
    a, b = AUTH
    evs, i = [], 0
    keep, first, second = [], [], []
    told0 = pairs[0][0]
    keep.append(mk(rng, 200, a, 1, None, told0))
    keep.append(mk(rng, 201, b, 0, None, told0))
    keep.append(mk(rng, 202, b, 30023, "a", told0))
    keep.append(mk(rng, 203, a, 30023, "ab", told0))
    for kind, (told, tnew) in zip(FAR_KINDS, pairs):
        d = "a" if kind >= 30000 else None
        old, new = mk(rng, i, a, kind, d, told), mk(rng, i + 1, a, kind, d, tnew)
        i += 2
        up = order == "up" or (order == "mixed" and rng.random() < 0.5)
        first.append(old if up else new)
        second.append(new if up else old)
    evs = keep + first + second
    return evs


def far_random_history(rng):
    """2-5 versions of ONE address at timestamps from the whole range (anchors, anchors minus a distance, edges), in random
    arrival order, with bystanders; occasionally a version is resubmitted"""
    a, b = AUTH
    kind = rng.choice(FAR_KINDS)
    d = rng.choice(["", "a", "bare", None]) if kind >= 30000 else None
    times = []
    for _ in range(rng.randint(2, 5)):
        r = rng.random()
        if r < 0.25:
            times.append(rng.choice(FAR_EDGES))
        elif r < 0.5:
            times.append(rng.choice(FAR_ANCHORS))
        else:
            t = rng.choice(FAR_ANCHORS) - rng.choice(FAR_GAPS) * rng.choice([1, 1, 1, 2, 3])
            times.append(t if t >= 1 else rng.choice(FAR_EDGES))
    evs = [mk(rng, i, a, kind, d, t) for i, t in enumerate(times)]
    tb = rng.choice(times)
    evs.append(mk(rng, 100, a, 1, None, tb))
    evs.append(mk(rng, 101, b, kind, d, tb))
    if kind >= 30000:
        evs.append(mk(rng, 102, a, kind, "ab" if d != "ab" else "b", tb))
    else:
        evs.append(mk(rng, 102, a, {0: 3, 3: 0}.get(kind, 10003), None, tb))
    rng.shuffle(evs)
    if rng.random() < 0.2:
        evs.append(dict(rng.choice(evs)))
    return evs


def far_apart(report, drv, stores, rng, tier):
    """both backends, the same oracle as everywhere (run_history): after every accepted event no older version of its address
    is stored, whatever its age; the newest version of every address and everything of another address is still there"""
    pairs = far_pairs()
    report.coverage["far_apart_rule"] = (
        "versions of one address (kinds %r) whose created_at are %d distinct (older, newer) pairs: newer in %r, distance in %r "
        "seconds, plus the edges %r against each other; older-first, newer-first and mixed arrival; bystanders of the older "
        "version's age (regular note, other author, other d) must survive; both backends"
        % (FAR_KINDS, len(pairs), FAR_ANCHORS, FAR_GAPS, FAR_EDGES))
    # directed, four pairs (one per kind) to a history: every pair is used at least once with the older version stored first
    # (the newer must remove it); with the newer stored first (it must stay) every pair in the thorough tier and a seeded half
    # of them in the quick tier, which keeps the family's share of the quick run under ~20 s
    n = 0
    for order in ("up", "down"):
        sh = list(pairs)
        rng.shuffle(sh)
        if order == "down" and tier == "quick":
            sh = sh[:len(sh) // 2]
        while len(sh) % len(FAR_KINDS):
            sh.append(rng.choice(pairs))
        for j in range(0, len(sh), len(FAR_KINDS)):
            evs = far_pair_history(rng, sh[j:j + len(FAR_KINDS)], order)
            for st in stores:
                run_history(report, drv, st, evs, "far:%s:%d" % (order, j))
            report.count("far_apart_pair_histories")
            report.count("far_apart_pairs_" + order, len(FAR_KINDS))
            n += 1
    for j in range(8 if tier == "quick" else 200):
        evs = far_pair_history(rng, [rng.choice(pairs) for _ in FAR_KINDS], "mixed")
        for st in stores:
            run_history(report, drv, st, evs, "far:mixed:%d" % j)
        report.count("far_apart_pair_histories")
        n += 1
    for j in range(40 if tier == "quick" else 1500):
        evs = far_random_history(rng)
        for st in stores:
            run_history(report, drv, st, evs, "far:rand:%d" % j)
        report.count("far_apart_random_histories")
        n += 1
    report.coverage["far_apart_histories"] = n


def run(report, tier, seed):
    rng = random.Random(seed)
    drv = common.Driver()
    stores = [KVStore(), SQLStore()]
    report.coverage["rule"] = (
        "histories of 2-7 events over 2 authors x kinds {0,3,1,10002,30000,30001} x d in {absent, bare, '', a, ab, abc, "
        "b, é} (+ second d tags) x 5 timestamps incl. equal ones, random arrival order, resubmissions, versions that the backend "
        "refuses late (a bare expiration tag makes the SQL tag indexing raise after pre_save); both backends; LMDB also in "
        "bursts of 2-4 events acknowledged and queued before the writer runs; versions of one address far apart in time "
        "(see far_apart_rule); "
        "after every event: correspondence of the stored set with the Lean model and the three clauses of C09 on the real "
        "store; non-trivial = the history contains a replaceable kind")
    report.assumptions += ["validators disabled (synthetic unsigned events); admission is C03/C06/C16's business"]
    try:
        for e in report.known:
            r = common.load_finding_replay(e)
            for st in stores:
                if st.backend == r["backend"]:
                    run_history(report, drv, st, r["events"], "finding:" + e["id"])
        for i in range(250 if tier == "quick" else 3000):
            evs = gen_history(rng, rng.randint(2, 7))
            for st in stores:
                run_history(report, drv, st, evs, i)
            if i % 4 == 0:
                burst_history(report, drv, stores[0], gen_history(rng, rng.randint(3, 8)), i, rng)
        far_apart(report, drv, stores, random.Random("C09-far:%d" % seed), tier)
        if tier == "thorough":
            exhaustive(report, drv, stores)
    finally:
        for st in stores:
            st.close()
        drv.close()


def replay(report, path):
    import json

    data = json.load(open(path))
    drv = common.Driver()
    stores = {"kv": KVStore(), "sql": SQLStore()}
    try:
        for it in (data.get("violations") or []) + (data.get("correspondence_breaks") or []):
            r = it.get("replay") or it.get("input")
            if "backend" in r:
                run_history(report, drv, stores[r["backend"]], r["events"], "replay")
    finally:
        for st in stores.values():
            st.close()
        drv.close()
