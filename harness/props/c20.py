"""
C20 — cross-worker notification framing.  Tie: the real NotifyServer.handle_notify and
NotifyClient.connect on in-memory asyncio.StreamReaders fed with chosen chunkings, vs the Lean
model `readLoop`.  Search: every split position of 1-3 ids, random chunkings, several origins,
peer disconnect mid-id; oracle = ids looked up / fanned out on each simulated worker.
"""
import asyncio
import random
import itertools

from lib import common

THEOREMS_TIED = ["C20_client_framing", "C20_server_framing", "C20_end_to_end", "C20_exactly_once", "C20_no_echo",
                 "C20_sql_announced_loadable", "C20_kv_announced_loadable", "C20_glue_announced_once", "C20_glue_accepted_announced"]


class FakeEvent:
    def __init__(self, idhex):
        self.id = idhex
        self.id_bytes = bytes.fromhex(idhex)


class FakeStorage:
    def __init__(self, known):
        self.known = set(known)
        self.lookups = []
        self.fanouts = []

    async def get_event(self, idhex):
        self.lookups.append(idhex)
        await asyncio.sleep(0)
        if idhex in self.known:
            return FakeEvent(idhex)
        return None

    async def notify_all_connected(self, event):
        self.fanouts.append(event.id)
        await asyncio.sleep(0)


class FakeWriter:
    def __init__(self, name):
        self.name = name
        self.writes = []
        self.closed = False

    def get_extra_info(self, what):
        return ("127.0.0.1", self.name)

    def write(self, data):
        self.writes.append(bytes(data))

    async def drain(self):
        await asyncio.sleep(0)

    def close(self):
        self.closed = True


async def _yield(n=3):
    for _ in range(n):
        await _real_sleep(0)


_real_sleep = asyncio.sleep


async def run_client(chunks, known):
    """the real NotifyClient.connect loop on a StreamReader fed chunk by chunk"""
    from nostr_relay import notifier

    storage = FakeStorage(known)
    client = notifier.NotifyClient(storage)
    reader = asyncio.StreamReader()
    writer = FakeWriter("client")

    async def fake_open(addr, port):
        return reader, writer

    async def fast_sleep(t, *a):
        await _real_sleep(0)

    orig_open, orig_sleep = asyncio.open_connection, asyncio.sleep
    asyncio.open_connection, asyncio.sleep = fake_open, fast_sleep
    try:
        task = asyncio.ensure_future(client.connect())
        await _yield()
        for c in chunks:
            if c:
                reader.feed_data(c)
            await _yield(4)
        reader.feed_eof()
        await asyncio.wait_for(task, 5)
    finally:
        asyncio.open_connection, asyncio.sleep = orig_open, orig_sleep
    return storage


async def run_server(streams, order):
    """streams: {origin: [chunks]}; order: list of origins saying whose next chunk is fed next.
    Returns {peer: [writes]} and the global write log."""
    from nostr_relay import notifier

    server = notifier.NotifyServer()
    readers = {o: asyncio.StreamReader() for o in streams}
    writers = {o: FakeWriter(o) for o in streams}
    log = []
    for o, w in writers.items():
        def mk(w=w, o=o):
            orig = w.write

            def write(data):
                log.append((o, bytes(data)))
                orig(data)
            return write
        w.write = mk()
    tasks = {o: asyncio.ensure_future(server.handle_notify(readers[o], writers[o])) for o in streams}
    await _yield()
    pos = {o: 0 for o in streams}
    closed = set()
    for o in order:
        if isinstance(o, (list, tuple)):  # ("eof", origin): this peer disconnects now
            if o[1] not in closed:
                closed.add(o[1])
                readers[o[1]].feed_eof()
                await _yield(2)
            continue
        if o in closed:
            continue
        if pos[o] < len(streams[o]):
            c = streams[o][pos[o]]
            pos[o] += 1
            if c:
                readers[o].feed_data(c)
            await _yield(4)
    await _yield(60)  # quiesce: everything fed has been relayed
    for o in streams:
        if o not in closed:
            readers[o].feed_eof()
            await _yield(4)
    for t in tasks.values():
        await asyncio.wait_for(t, 5)
    return {o: list(w.writes) for o, w in writers.items()}, log, server


def split_at(data, cuts):
    out, prev = [], 0
    for c in sorted(set(cuts)):
        out.append(data[prev:c])
        prev = c
    out.append(data[prev:])
    return out


def random_chunking(rng, data):
    if not data:
        return [b""]
    style = rng.random()
    if style < 0.2:
        return [data]
    if style < 0.4:
        k = rng.choice([1, 2, 3, 7, 16, 31, 33, 48, 64])
        return [data[i:i + k] for i in range(0, len(data), k)]
    cuts = sorted(rng.sample(range(1, len(data)), min(len(data) - 1, rng.randint(1, 6)))) if len(data) > 1 else []
    ch = split_at(data, cuts)
    if rng.random() < 0.2:
        ch.insert(rng.randrange(len(ch) + 1), b"")
    return ch


def mkid(rng):
    style = rng.random()
    if style < 0.15:
        return bytes([rng.choice([0, 255])]) * 32
    if style < 0.3:
        b = rng.choice([0x00, 0x0a, 0x20, 0xff])
        return bytes([b]) * 16 + rng.randbytes(16)
    return rng.randbytes(32)


def client_case(report, drv, loop, ids, chunks, tag, truncated=False):
    known = {i.hex() for i in ids if hash(i) % 5 != 0}
    storage = loop.run_until_complete(run_client(chunks, known))
    impl = storage.lookups
    model = drv.call({"op": "nt.read", "chunks": [c.hex() for c in chunks]})
    key = ("client", tuple(chunks))
    if impl != model:
        report.correspondence_break("notifier.NotifyClient.connect", {"chunks": [c.hex() for c in chunks]}, impl, model)
    # property: exactly the ids, intact, once, in order; each found one fanned out once
    expect = [i.hex() for i in ids]
    if impl != expect:
        report.property_failure(
            "client looked up %r for ids %r split as %r" % ([x[:8] + ".." + str(len(x) // 2) for x in impl],
                                                            [x[:8] for x in expect], [len(c) for c in chunks]),
            {"kind": "client", "ids": expect, "chunks": [c.hex() for c in chunks]}, None)
    elif storage.fanouts != [x for x in expect if x in known]:
        report.property_failure("fan-out calls %r differ from found ids" % storage.fanouts,
                                {"kind": "client", "ids": expect, "chunks": [c.hex() for c in chunks]}, None)
    report.case(key, nontrivial=len(chunks) > 1 and any(len(c) % 32 for c in chunks),
                sample={"ids": len(ids), "chunk_sizes": [len(c) for c in chunks], "lookups": len(impl)})
    report.count("client_cases")


def server_case(report, drv, loop, rng, sent, streams, order, tag):
    """sent: {origin: [ids]} complete ids; streams: chunkings (possibly with a truncated tail);
    order: origins (feed next chunk) and ("eof", origin) markers (that peer disconnects then)."""
    writes, log, server = loop.run_until_complete(run_server(streams, order))
    inp = {"kind": "server", "streams": {str(o): [c.hex() for c in cs] for o, cs in streams.items()}, "order": order}
    early = [o[1] for o in order if isinstance(o, (list, tuple))]
    # what each origin managed to feed before it disconnected
    fed = {}
    for o in streams:
        if o in early:
            n = 0
            for x in order:
                if isinstance(x, (list, tuple)):
                    if x[1] == o:
                        break
                elif x == o:
                    n += 1
            fed[o] = streams[o][:n]
        else:
            fed[o] = streams[o]
    units = {o: [bytes.fromhex(u) for u in drv.call({"op": "nt.read", "chunks": [c.hex() for c in fed[o]]})]
             for o in streams}
    stay = [p for p in streams if p not in early]
    for p in stay:
        for o in streams:
            from_o = [d for (oo, d) in log_for_peer(log, writes, p) if oo == o]
            exp = [] if o == p else units[o]
            if from_o != exp:
                report.correspondence_break("notifier.NotifyServer.handle_notify", inp,
                                            {"peer": p, "origin": o, "written": [d.hex() for d in from_o]},
                                            {"expected": [d.hex() for d in exp]})
    # property, end to end: feed what peer p received (re-chunked) to a real client
    for p in stay:
        data = b"".join(writes[p])
        want_multiset = sorted(d.hex() for o in streams if o != p for d in units[o]) if early else \
            sorted(i.hex() for o in sent if o != p for i in sent[o])
        chunks = random_chunking(rng, data)
        storage = loop.run_until_complete(run_client(chunks, set(want_multiset)))
        if sorted(storage.lookups) != want_multiset:
            cls = None
            report.property_failure(
                "worker %s looked up %d ids, expected the %d ids of the other workers (echo, loss, duplication or corruption)%s"
                % (p, len(storage.lookups), len(want_multiset), " [a peer disconnected meanwhile]" if early else ""), inp, cls)
        model = drv.call({"op": "nt.read", "chunks": [c.hex() for c in chunks]})
        if storage.lookups != model:
            report.correspondence_break("notifier.NotifyClient.connect", {"chunks": [c.hex() for c in chunks]},
                                        storage.lookups, model)
    if server.connections:
        report.property_failure("server keeps %d connections after all peers closed" % len(server.connections), inp, None)
    report.case(("server", str(inp)), nontrivial=len(streams) > 1,
                sample={"origins": len(streams), "ids": {str(o): len(v) for o, v in sent.items()},
                        "chunk_sizes": {str(o): [len(c) for c in cs] for o, cs in streams.items()}, "early_eof": early})
    report.count("server_cases")
    if early:
        report.count("server_cases_with_disconnect")


def log_for_peer(log, writes, p):
    """the global write log restricted to peer p: [(origin, data)].  The log records the *target*
    writer; reconstruct origins by replaying: every write to p came from the handler running then.
    We logged (target, data); origins are recovered from the handler that was active, which we
    cannot see from outside — so derive them from data ownership instead (ids are unique per origin)."""
    return [(OWNER.get(d, d[:0] and -1), d) for (t, d) in log if t == p]


def merged_order(log, writes, p):
    return log_for_peer(log, writes, p)


OWNER = {}


# ---- (b') the deployment around the notify server: real sockets, several start attempts on ONE port ----------
#
# The scenarios above put the simulated workers around ONE NotifyServer object.  In a deployment the hub is not an object but
# whatever answers on the notify port, and more than one process may run the main-process start-up (workers started without
# preloading, a reload during which the old and the new main worker overlap, two relay instances on one database): each of
# them calls NotifyServer(port).start(), and every worker's NotifyClient connects to the port.  The property does not care how
# many start attempts there were: the workers must end up in ONE broadcast group - every id announced by one worker reaches
# every other worker exactly once and never comes back to the announcing one.  That can only be observed with the real
# transport (who answers on a port is decided by the kernel, not by a StreamReader), so this family runs the real
# asyncio.start_server / asyncio.open_connection on a free loopback port.

DEPLOYMENT_SHAPES = ("workers-without-preload", "overlapping-reload", "several-instances", "random-interleaving",
                     "single-main-process")


def _free_port():
    """a loopback port nobody listens on (chosen by the operating system: the one thing of a deployment case that does not
    derive from the seed; the steps, the ids and the order of the announcements do)"""
    import socket

    s = socket.socket()
    try:
        s.bind(("127.0.0.1", 0))
        return s.getsockname()[1]
    finally:
        s.close()


def deployment_steps(rng, shape, n_workers):
    """["start"] = one process runs the main-process start-up (NotifyServer(port).start()); ["worker", w] = worker w's storage
    connects its NotifyClient.  The first step is always a start (somebody has to be first)."""
    workers = list(range(n_workers))
    rng.shuffle(workers)
    wsteps = [["worker", w] for w in workers]
    if shape == "single-main-process":          # gunicorn with a preloaded application: the control
        return [["start"]] + wsteps
    if shape == "workers-without-preload":      # every worker believes it is the main process; the clients wait before connecting
        return [["start"] for _ in workers] + wsteps
    if shape == "several-instances":            # two or three relays (masters) on one database, started one after the other
        return [["start"] for _ in range(rng.randint(2, 3))] + wsteps
    if shape == "overlapping-reload":           # the old main worker still serves its workers when the new one starts up
        cut = rng.randint(1, n_workers - 1)
        steps = [["start"]] + wsteps[:cut] + [["start"]] + wsteps[cut:]
        if rng.random() < 0.3:
            steps.insert(rng.randint(cut + 2, len(steps)), ["start"])
        return steps
    rest = wsteps + [["start"] for _ in range(rng.randint(1, n_workers - 1))]
    rng.shuffle(rest)
    return [["start"]] + rest


async def run_deployment(steps, ids, order, port):
    """ids: {worker: [id bytes]}; order: [[worker, k, pause]] = worker announces its k-th id, then the loop runs `pause` times.
    Everything is the real code on real sockets: NotifyServer.start(), NotifyClient.start(), NotifyClient.notify()."""
    import time
    from nostr_relay import notifier

    all_ids = {i.hex() for v in ids.values() for i in v}
    servers, workers = [], {}

    async def fast_sleep(t, *a):                # NotifyClient.connect waits 2 s so that the server is up: here the steps say so
        await _real_sleep(0)

    async def until(cond, seconds, polls=50):
        """cond() became true, or BOTH `seconds` of wall time and `polls` runs of the loop went by (a process that was not
        scheduled for a while must not mistake that for silence)"""
        t0, n = time.time(), 0
        while not cond():
            n += 1
            if n >= polls and time.time() - t0 >= seconds:
                return False
            await _real_sleep(0.005)
        return True

    orig_sleep = asyncio.sleep
    asyncio.sleep = fast_sleep
    out = {"connected": [], "lookups": {}, "fanouts": {}, "leftover": 0}
    peers = []
    try:
        for st in steps:
            if st[0] == "start":
                srv = notifier.NotifyServer(port=port)
                srv.start()
                servers.append(srv)
                # the attempt settles within a few runs of the loop (numeric address: bind and listen are immediate): it is
                # listening then, or it has given up
                await _yield(10)
                await _real_sleep(0.02)
            else:
                storage = FakeStorage(all_ids)
                client = notifier.NotifyClient(storage, port=port)
                client.start()
                workers[st[1]] = (storage, client)
                await until(lambda: client.writer is not None or client._task.done(), 5.0)
                await _yield(10)                # the accepting side has run its handler up to the first read
        out["connected"] = sorted(w for w, (s, c) in workers.items() if c.writer is not None and not c._task.done())
        await until(lambda: sum(len(s.connections) for s in servers) >= len(out["connected"]), 2.0)   # readiness only, never judged
        for w, k, pause in order:
            storage, client = workers[w]
            if client.writer is not None:
                try:
                    await client.notify(FakeEvent(ids[w][k].hex()))
                except Exception:
                    pass                        # shows as ids that did not arrive
            if pause:
                await _yield(pause)
        total = sum(len(v) for v in ids.values())
        want = {w: total - len(ids[w]) for w in workers}
        seen = [-1, time.time(), 0]             # progress so far, when it last grew, polls since

        def quiet():
            n = sum(len(s.lookups) for s, c in workers.values())
            if n != seen[0]:
                seen[:] = [n, time.time(), 0]
            seen[2] += 1
            if all(len(workers[w][0].lookups) >= want[w] for w in workers):
                return True
            # nothing has arrived anywhere for 2 s and 200 runs of the loop (loopback delivery takes well under a millisecond)
            return seen[2] >= 200 and time.time() - seen[1] >= 2.0

        await until(quiet, 60.0, polls=1)
        await _real_sleep(0.05)                 # a duplicate or an echo would be on its way with the rest
        await _yield(20)
        for w, (storage, client) in workers.items():
            out["lookups"][w] = list(storage.lookups)
            out["fanouts"][w] = list(storage.fanouts)
        # every worker goes away: no hub may keep a departed peer in its registry
        peers = [p for s in servers for p in list(s.connections.values())]
        for storage, client in workers.values():
            client._task.cancel()
        await asyncio.wait([c._task for s, c in workers.values()], timeout=5)
        await until(lambda: not any(s.connections for s in servers), 5.0, polls=200)
        out["leftover"] = sum(len(s.connections) for s in servers)
    finally:
        try:
            for p in [p for s in servers for p in list(s.connections.values())] + peers:
                p.close()
            for storage, client in workers.values():
                client._task.cancel()
            await _yield(5)
            for s in servers:
                s._task.cancel()
            if servers:
                await asyncio.wait([s._task for s in servers], timeout=5)
        finally:
            asyncio.sleep = orig_sleep
    return out


def deployment_case(report, loop, steps, ids, order, shape):
    """oracle = the end-to-end statement of the property, per worker: the ids it looked up (and fanned out to its subscribers)
    are exactly the ids announced by the OTHER workers, each once - however many processes tried to start the hub.
    Returns True when the property held."""
    n_starts = sum(1 for s in steps if s[0] == "start")
    workers = sorted(s[1] for s in steps if s[0] == "worker")
    payload = {"kind": "deployment", "shape": shape, "steps": steps,
               "ids": {str(w): [i.hex() for i in ids[w]] for w in workers}, "order": order}
    for attempt in range(3):
        res = loop.run_until_complete(run_deployment(steps, ids, order, _free_port()))
        if res["connected"]:
            break
        report.count("deployment_port_retries")   # nobody answered at all: the port was lost between choosing and binding it
    owner = {i.hex(): w for w in workers for i in ids[w]}
    bad = []
    for w in workers:
        got = res["lookups"].get(w, [])
        want = sorted(h for h, o in owner.items() if o != w)
        if sorted(got) == want and sorted(res["fanouts"].get(w, [])) == want:
            continue
        silent = sorted({o for h, o in owner.items() if o != w and h not in got})
        bad.append("worker %d%s looked up %d id(s) and fanned out %d, expected the %d ids of the other workers "
                   "(nothing or not everything from workers %r; %d duplicate(s), %d of its own, %d unknown)"
                   % (w, "" if w in res["connected"] else " [its notify client is not connected]", len(got),
                      len(res["fanouts"].get(w, [])), len(want), silent, len(got) - len(set(got)),
                      sum(1 for h in got if owner.get(h) == w), sum(1 for h in got if h not in owner)))
    if bad:
        report.property_failure(
            "deployment (%s): %d workers, %d notify-server start attempt(s) on one loopback port, %d ids announced: %d worker(s) did "
            "not get every id of the other workers exactly once (the workers are not one broadcast group): %s"
            % (shape, len(workers), n_starts, len(owner), len(bad), "; ".join(bad[:3])), payload, None)
    if res["leftover"]:
        report.property_failure("deployment (%s): the notify servers keep %d connections after all workers closed"
                                % (shape, res["leftover"]), payload, None)
    report.case(("deployment", repr(steps), repr(order), repr(payload["ids"])), nontrivial=n_starts > 1,
                sample={"deployment": shape, "workers": len(workers), "start_attempts": n_starts, "ids": len(owner),
                        "steps": "".join("S" if s[0] == "start" else "w" for s in steps)})
    report.count("deployment_cases")
    report.count("deployment_cases_" + shape)
    report.count("deployment_start_attempts", n_starts)
    report.count("deployment_ids_announced", len(owner))
    return not bad and not res["leftover"]


def random_deployment(rng, shape, max_workers):
    # 4 and more workers: with k hubs answering on the port instead of one, n workers would all meet at the same hub by accident
    # with probability k^(1-n) - at most 1/8 for one case, and there are several cases
    n = rng.randint(4, max_workers)
    steps = deployment_steps(rng, shape, n)
    ids, taken = {}, set()
    for w in range(n):
        ids[w] = []
        for _ in range(0 if rng.random() < 0.15 else rng.randint(1, 4)):
            i = rng.randbytes(32)
            while i in taken:
                i = rng.randbytes(32)
            taken.add(i)
            ids[w].append(i)
    if not taken:
        ids[0].append(rng.randbytes(32))
    order = [[w, k, rng.choice([0, 0, 1, 3])] for w in range(n) for k in range(len(ids[w]))]
    rng.shuffle(order)
    # a worker announces its ids in the order it accepted them
    nxt = {w: 0 for w in range(n)}
    for o in order:
        o[1] = nxt[o[0]]
        nxt[o[0]] += 1
    return steps, ids, order


# ---- (c) the storage glue: what is announced, when, and can the other workers load it? ----------------------

class _Link:
    """stands for the notifier of worker A; at the instant an id is announced (the earliest moment another worker can
    look it up) it asks an independent reader of the shared database whether the event can be loaded"""

    def __init__(self, visible):
        self.visible = visible
        self.announced = []          # (id, could another worker load it at that instant?)

    async def notify(self, event):
        pass                         # the probe sits at the storage's call of notify_other_processes (see attach)

    def attach(self, storage):
        """the instant that counts is the one at which the storage decides to announce (its call of notify_other_processes):
        from then on the id is on its way to the other workers"""
        storage.notifier = self
        orig = storage.notify_other_processes
        link = self

        async def notify_other_processes(event):
            link.announced.append((event.id, bool(link.visible(event.id))))
            return await orig(event)

        storage.notify_other_processes = notify_other_processes


def _announce_events(rng, n):
    from lib import gen

    evs = []
    for i in range(n):
        e = gen.gen_event(rng, authors=gen.AUTHORS[:2], kinds=[1, 1, 7, 20001, 30000, 10002], times=[gen.T0 + i])
        e["tags"] = [t for t in e["tags"] if t and t[0] not in ("expiration", "e", "delegation", "d")]
        # the announce model knows submissions, not replacement: every replaceable event gets an address of its own, so that no
        # event of the schedule supersedes another one (a superseded event that is submitted again is *new* again)
        if e["kind"] == 30000:
            e["tags"].insert(0, ["d", "addr-%d" % i])
        elif e["kind"] == 10002:
            if any(x["kind"] == 10002 and x["pubkey"] == e["pubkey"] for x in evs):
                e["kind"] = 1
        # the id generator favours a few boundary patterns (00…0, ff…f): two *different* events of one schedule must not share an id —
        # no client can produce that (the id is the hash of the contents), and the oracle below counts per id
        while any(x["id"] == e["id"] for x in evs):
            e["id"] = rng.randbytes(32).hex()
        evs.append(e)
    return evs


def _model_tie(report, drv, backend, schedule, submitted, link, steps):
    """the same schedule through the Lean model `Announce.run`: announcements (id, ephemeral, loadable at that instant) in
    order, and which submissions were acknowledged as new"""
    idx = {}
    for ev, _ in submitted:
        idx.setdefault(ev["id"], len(idx) + 1)
    eph = {ev["id"]: 20000 <= ev["kind"] < 30000 for ev, _ in submitted}
    lines = []
    it = iter(submitted)
    for st in steps:
        if st == "submit":
            ev, _ = next(it)
            lines.append({"submit": idx[ev["id"]], "eph": eph[ev["id"]]})
        else:
            lines.append({st: True})
    mv = drv.call({"op": "ann.run", "backend": backend, "steps": lines})
    real_ann = [[idx[i], eph[i], bool(v)] for i, v in link.announced]
    real_acc = [idx[ev["id"]] for ev, ok in submitted if ok]
    if mv["announced"] != real_ann or mv["accepted"] != real_acc:
        report.correspondence_break("storage glue of the notifier (%s add_event%s)" % (backend, " + WriterThread" if backend == "kv" else ""),
                                    {"kind": "announce", "backend": backend, "schedule": schedule, "events": [e for e, _ in submitted],
                                     "steps": steps},
                                    {"announced": real_ann, "accepted": real_acc}, mv)
    report.count("announce_model_ties")


def _judge_announcements(report, backend, schedule, submitted, link):
    """every accepted event is announced exactly once, never a refused one, and at the instant of the announcement
    another worker can load it (else that worker drops the id: its subscribers never see the event)"""
    payload = {"kind": "announce", "backend": backend, "schedule": schedule, "events": [e for e, _ in submitted]}
    count = {}
    for i, vis in link.announced:
        count[i] = count.get(i, 0) + 1
    want = {}
    kinds = {}
    for ev, accepted in submitted:
        want[ev["id"]] = want.get(ev["id"], 0) + (1 if accepted else 0)
        kinds[ev["id"]] = ev["kind"]
    miscounted = [i for i, w in want.items() if count.get(i, 0) != w]
    for i, w in want.items():
        n = count.get(i, 0)
        eph = 20000 <= kinds[i] < 30000
        # one line per event for the first few, the rest of a long schedule in one line (each line carries the whole schedule)
        if n != w and miscounted.index(i) < 3:
            report.property_failure("%s: an event (kind %d) accepted %d time(s) was announced to the other workers %d time(s) (%s)"
                                    % (backend, kinds[i], w, n, schedule), payload, None)
        elif n != w and miscounted.index(i) == 3:
            report.property_failure("%s: %d of the %d distinct events of the schedule were not announced to the other workers as often "
                                    "as they were accepted (%s)" % (backend, len(miscounted), len(want), schedule), payload, None)
        for j, vis in link.announced:
            if j == i and not vis:
                cls = None
                if backend == "kv":
                    cls = "kv-ephemeral-not-loadable-by-peers" if eph else "kv-announced-before-written"
                report.property_failure(
                    "%s: the id of an accepted kind-%d event was announced to the other workers when they could not load it (%s): "
                    "a worker that looks it up at once finds nothing and drops it" % (backend, kinds[i], schedule), payload, cls)
    report.case(("announce", backend, schedule, repr([(e["id"][:6], a) for e, a in submitted])), nontrivial=True,
                sample={"backend": backend, "schedule": schedule, "announced": len(link.announced)})
    report.count("announce_cases_" + backend)


def announce_case_sql(report, drv, rng, tag, evs=None):
    import shutil
    import sqlite3
    from lib.hist import SQLStore

    d = common.scratch_dir("nrc20-")
    path = "%s/workers.sqlite3" % d
    st = SQLStore(url="sqlite+aiosqlite:///" + path)
    try:
        def visible(idhex):
            c = sqlite3.connect(path, timeout=0.05)
            try:
                return c.execute("SELECT count(*) FROM events WHERE id = ?", (bytes.fromhex(idhex),)).fetchone()[0] == 1
            except sqlite3.OperationalError:
                return False
            finally:
                c.close()
        link = _Link(visible)
        link.attach(st.storage)
        submitted = []
        evs = evs or _announce_events(rng, rng.randint(2, 5))
        for e in evs + [rng.choice(evs)]:             # the last one is a resubmission
            res = st.add(dict(e))
            st.run(_yield(3))
            submitted.append((e, res["ok"]))
        _judge_announcements(report, "sql", "sequential:%s" % tag, submitted, link)
        _model_tie(report, drv, "sql", "sequential:%s" % tag, submitted, link, ["submit"] * len(submitted))
    finally:
        st.close()
        shutil.rmtree(d, ignore_errors=True)


def _backlog_events(rng, n):
    """n distinct events for one long burst, with some of them submitted a second time while the first submission still waits for
    the writer (a client that resends, or two clients publishing the same event): such a resubmission is refused, or accepted
    again when the event is ephemeral; either way the oracle counts announcements per id against acceptances per id"""
    evs, seen = [], set()
    for e in _announce_events(rng, n):
        # the id generator favours a few boundary patterns: in hundreds of events two would share an id with different contents,
        # which no client can produce (the id is the hash of the contents)
        while e["id"] in seen:
            e["id"] = rng.randbytes(32).hex()
        seen.add(e["id"])
        evs.append(e)
    for _ in range(rng.randint(1, 4)):
        k = rng.randrange(len(evs))
        evs.insert(rng.randint(k + 1, len(evs)), evs[k])
    return evs


def announce_case_kv(report, drv, rng, tag, contended, evs=None, backlog=None):
    """the real writer thread; `contended` = another writer (a second worker process's writer thread, a bulk load) is inside
    a write transaction while the event is submitted.  `backlog` = the number of events accepted while it is (default: a
    burst of two to five)"""
    import threading
    from lib.hist import KVStore

    st = KVStore()
    kv = st.kv
    try:
        def visible(idhex):
            with st.env.begin(buffers=True) as txn:
                return bool(kv.get_event_data(txn, bytes.fromhex(idhex)))
        link = _Link(visible)
        link.attach(st.storage)
        threading.Thread.start(st.writer)              # the real thread (KVStore leaves it unstarted)
        submitted = []
        # while the lock is held elsewhere the submissions pile up in the writer's queue: a burst of two to five
        if evs is None and backlog:
            evs = _backlog_events(rng, backlog)
        evs = evs or _announce_events(rng, rng.randint(2, 5) if contended else rng.randint(1, 3))
        have, release = threading.Event(), threading.Event()

        def other_writer():
            txn = st.env.begin(write=True)
            have.set()
            release.wait(10)
            txn.abort()

        th = None
        if contended:
            th = threading.Thread(target=other_writer)
            th.start()
            have.wait(10)
        for e in evs:
            try:
                event, changed = st.run(st.storage.add_event(dict(e)))
            except Exception:
                changed = False
            if not contended:
                # the writer thread is let finish before the next submission (the order of announcements is then fixed)
                st.run(st.storage.wait_for_writer())
            st.run(_yield(5))
            submitted.append((e, bool(changed)))
        if contended:
            release.set()
            th.join()
            st.run(st.storage.wait_for_writer())
        st.run(_yield(5))
        schedule = ("another-writer-holds-the-lock:%s" if contended else "writer-finishes-between-submissions:%s") % tag
        _judge_announcements(report, "kv", schedule, submitted, link)
        if len(submitted) > 100:
            report.count("announce_cases_kv_long_backlog")
            report.count("announce_kv_long_backlog_events", len(submitted))
        if contended:
            steps = ["submit"] * len(submitted) + ["writerTake", "writerCommit"] * len(submitted)
        else:
            steps = ["submit", "writerTake", "writerCommit"] * len(submitted)
        _model_tie(report, drv, "kv", schedule, submitted, link, steps)
    finally:
        try:
            st.writer.running = False
            st.writer.queue.put(None)
            st.writer.join(5)
        except Exception:
            pass
        st.close()


def run(report, tier, seed):
    rng = random.Random(seed)
    drv = common.Driver()
    loop = asyncio.new_event_loop()
    asyncio.set_event_loop(loop)
    report.coverage["rule"] = (
        "client: every cut position of 1 id and every pair of cut positions (step 4..) of 2 ids, every 3-chunk split of "
        "16+32+16 style, random chunkings (sizes 1,2,3,7,16,31,33,48,64, random cuts, empty chunks) of 1-5 ids with "
        "boundary byte patterns; server: 2-3 origins, random chunkings and feeding orders, truncated tails "
        "(disconnect mid-id); deployment: 4-8 (thorough: 4-12) workers with the real NotifyClient on real loopback sockets, one to n "
        "processes running NotifyServer(port).start() on ONE free port (workers without preload, overlapping reload, several "
        "instances, random interleavings of start attempts and connecting workers, and the single main process as control), 0-4 ids "
        "announced per worker through the real notify(): every worker must look up the ids of all the others exactly once; "
        "storage glue on both backends: sequences of accepted, ephemeral and resubmitted events through the "
        "real add_event with the notifier replaced by a probe that, at the instant an id is announced, asks an independent reader "
        "of the shared database whether the event can be loaded (SQLite file: a second connection; LMDB: a read transaction, "
        "with the real writer thread, also while another writer holds the write lock: bursts of 2-5 events, and backlogs of 150 "
        "and 300 events (thorough: up to 1500) with a few resubmissions, accepted while the lock is held and written when it is "
        "released); "
        "non-trivial = some chunk is not a multiple of 32 bytes / more than one origin")
    report.assumptions += [
        "asyncio.StreamReader buffering (feed_data/readexactly) is the transport abstraction; TCP itself is trusted",
        "one write() per relayed unit reaches the peer stream contiguously (asyncio transport write is not interleaved)",
    ]
    for e in report.known:
        if e.get("replay"):
            replay_one(report, drv, loop, common.load_finding_replay(e))
    # exhaustive single-cut and double-cut positions
    i1, i2, i3 = bytes(range(1, 33)), bytes(range(101, 133)), bytes(range(201, 233))
    step = 1 if tier == "thorough" else 3
    for c in range(0, 33):
        client_case(report, drv, loop, [i1], split_at(i1, [c]), "cut1")
    data = i1 + i2
    for a in range(0, 65, step):
        for b in range(a, 65, step):
            client_case(report, drv, loop, [i1, i2], split_at(data, [a, b]), "cut2")
    data = i1 + i2 + i3
    for a, b, c in itertools.combinations(range(0, 97, 8 if tier == "quick" else 4), 3):
        client_case(report, drv, loop, [i1, i2, i3], split_at(data, [a, b, c]), "cut3")
    n_rand = 150 if tier == "quick" else 3000
    for k in range(n_rand):
        ids = [mkid(rng) for _ in range(rng.randint(1, 5))]
        client_case(report, drv, loop, ids, random_chunking(rng, b"".join(ids)), "rand")
    # servers
    n_srv = 60 if tier == "quick" else 1000
    for k in range(n_srv):
        OWNER.clear()
        origins = list(range(1, rng.choice([2, 2, 3, 4]) + 1))
        sent, streams = {}, {}
        for o in origins:
            ids = []
            for _ in range(rng.randint(0, 3)):
                i = rng.randbytes(32)
                OWNER[i] = o
                ids.append(i)
            sent[o] = ids
            data = b"".join(ids)
            if rng.random() < 0.25:
                data += rng.randbytes(rng.randint(1, 31))  # disconnects mid-id: tail must vanish
            streams[o] = random_chunking(rng, data)
        order = [o for o in origins for _ in streams[o]]
        rng.shuffle(order)
        if len(origins) > 2 and rng.random() < 0.4:
            order.insert(rng.randrange(len(order) + 1), ("eof", rng.choice(origins)))
        server_case(report, drv, loop, rng, sent, streams, order, k)
    # glue: NotifyClient.notify writes exactly the 32 id bytes
    from nostr_relay import notifier
    c = notifier.NotifyClient(FakeStorage([]))
    c.writer = FakeWriter("x")
    ev = FakeEvent(i1.hex())
    loop.run_until_complete(c.notify(ev))
    if c.writer.writes != [i1]:
        report.property_failure("NotifyClient.notify wrote %r" % c.writer.writes, {"kind": "notify"}, None)
    report.case(("notify",), nontrivial=True)
    # the deployment around the hub: real sockets, one to n start attempts on one port (each case takes a few tenths of a second)
    for k in range(10 if tier == "quick" else 120):
        shape = DEPLOYMENT_SHAPES[k % len(DEPLOYMENT_SHAPES)]
        steps, ids, order = random_deployment(rng, shape, 8 if tier == "quick" else 12)
        if not deployment_case(report, loop, steps, ids, order, shape):
            break                               # workers that are not one group: every further case would wait for ids that never arrive
    loop.close()
    # storage glue on both backends (their own event loops)
    try:
        for k in range(6 if tier == "quick" else 60):
            announce_case_sql(report, drv, rng, k)
            announce_case_kv(report, drv, rng, k, contended=True)
            announce_case_kv(report, drv, rng, k, contended=False)
        # long backlogs: the write lock of LMDB is shared by all worker processes (and by the collector, a reindex, a bulk load),
        # and a busy worker accepts events much faster than commits complete, so hundreds of writes can be waiting in one
        # worker's queue when its writer thread gets the lock.  Whatever the writer does to catch up (one transaction per event,
        # several events per transaction, ...) every written event is announced once, after its commit, in commit order.
        # The sizes are not tuned to anything in the code: they are spread over the orders of magnitude at which batching
        # thresholds are customarily set (32, 64, 100, 128, 256 / 512, 1000, 1024), each one well past the previous size.
        for n in ([150, 300] if tier == "quick" else [150, 300, 700, 1500, 150, 300, 700]):
            announce_case_kv(report, drv, rng, "backlog-%d" % n, contended=True, backlog=n)
    finally:
        drv.close()


def replay_one(report, drv, loop, r):
    if r.get("kind") == "announce":
        rng = random.Random(0)
        evs = r["events"]
        if r["backend"] == "sql":
            announce_case_sql(report, drv, rng, "replay", evs=evs)
        else:
            announce_case_kv(report, drv, rng, "replay", contended=r["schedule"].startswith("another"), evs=evs)
        asyncio.set_event_loop(loop)
    elif r.get("kind") == "client" or "chunks" in r:
        chunks = [bytes.fromhex(c) for c in r["chunks"]]
        ids = [bytes.fromhex(c) for c in r.get("ids", [])] or [b"".join(chunks)[i:i + 32] for i in range(0, len(b"".join(chunks)) // 32 * 32, 32)]
        client_case(report, drv, loop, ids, chunks, "replay")
    elif r.get("kind") == "deployment":
        ids = {int(w): [bytes.fromhex(h) for h in v] for w, v in r["ids"].items()}
        deployment_case(report, loop, [list(x) for x in r["steps"]], ids, [list(x) for x in r["order"]], r.get("shape", "replay"))
    elif r.get("kind") == "server":
        streams = {int(o): [bytes.fromhex(c) for c in cs] for o, cs in r["streams"].items()}
        sent = {}
        OWNER.clear()
        for o, cs in streams.items():
            d = b"".join(cs)
            sent[o] = [d[i:i + 32] for i in range(0, len(d) // 32 * 32, 32)]
            for i in sent[o]:
                OWNER[i] = o
        order = [tuple(x) if isinstance(x, list) else x for x in r["order"]]
        server_case(report, drv, loop, random.Random(0), sent, streams, order, "replay")


def replay(report, path):
    import json

    data = json.load(open(path))
    drv = common.Driver()
    loop = asyncio.new_event_loop()
    asyncio.set_event_loop(loop)
    for it in (data.get("violations") or []) + (data.get("correspondence_breaks") or []):
        replay_one(report, drv, loop, it.get("replay") or it.get("input"))
    drv.close()
