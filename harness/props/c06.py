"""
C06 — OK acknowledgements agree with what the relay actually did.
Tie: real web.start_client EVENT branch on both backends vs the storage models: after quiescence the stored
set / key list equals the model's after every submission (LMDB `taskBody` for acknowledged non-ephemeral
events, SQL `addEvent`), and the OK flag equals the model's outcome.
Search, per EVENT message: exactly one OK frame; OK=true only if the event is then retrievable (or ephemeral
and broadcast, or superseded by a newer stored version of its address); a well-formed event passing the
validators is never refused except as a duplicate; OK=false leaves no trace (stored set unchanged, nothing
broadcast to an observer); a resubmission changes nothing and is not broadcast again.
The same sessions are also run as ONE WORKER OF SEVERAL (the relay configured with several gunicorn workers / run_notifier, so
that storage.notifier exists) with the link to the notify server in every state it can be in while clients submit events: up,
not open yet (the first seconds after start-up), refused, opening in the middle of the session, lost (drain() raises), slow.
What becomes of the announcement to the sibling workers is not the submitter's business: the OK it gets must still say what
happened to its event.
SHUTDOWN AND RESTART (shutdown_restart): the acknowledgement must also survive the graceful stop of the relay that follows it at once
(close / `async with` / ASGI shutdown hook), whatever the LMDB writer still has queued at that moment: a fresh storage object on the
same path has every acknowledged event and no refused one.
"""
import asyncio
import copy
import json
import random

from lib import common, gen
from lib.proto import Relay, Conn
from lib.hist import address
from lib.kvimpl import model_event

THEOREMS_TIED = ["C06_kv_resubmission_refused", "C06_kv_accepted_once", "C06_sql_accepted_once", "C06_sql_ok_iff_inserted", "C06_sql_refused_no_trace", "C06_sql_resubmission_no_change", "C06_kv_stored_after_ack",
                 "C06_kv_duplicate_no_change", "C06_kv_abort_no_trace", "C06_kv_storable_write_succeeds",
                 "C06_kv_unstorable_has_long_key"]

T0 = 1700000000


def make_events(rng, keys, relay, n):
    out = []
    for i in range(n):
        sk = rng.choice(keys)
        r = rng.random()
        kind = rng.choice([1, 1, 1, 7, 10002, 30000, 20001, 0, 5])
        tags = []
        if kind == 30000:
            tags.append(["d", rng.choice(["a", "b", ""])])
        if kind == 5 and out:
            tags.append(["e", rng.choice(out)[1]["id"]])
        if rng.random() < 0.3:
            tags.append(["t", rng.choice(["x", "y"])])
        label = "valid"
        if r < 0.08:
            tags.append(["t", "L" * 600])
            label = "long-tag"
        elif r < 0.12:
            tags.append(["n", 2 ** 70])
            label = "huge-int-in-tag"
        elif r < 0.16:
            tags.append([rng.choice(["x", "t"]), ["nested", 1]])
            label = "nested-tag"
        elif r < 0.22:
            # short in characters, long in UTF-8 bytes: around LMDB's 511-byte key limit (name 1 + value + 38 bytes of suffix)
            tags.append(["t", rng.choice(["\u6f22" * n for n in (150, 155, 156, 157, 158, 160, 170)] + ["\U0001f600" * n for n in (117, 118, 119, 130)]
                                         + ["\u00e9" * n for n in (234, 235, 236, 237, 240)])])
            label = "long-utf8-tag"
        ev = relay.signed_event(sk, kind=kind, content="c%d" % i, tags=tags, created_at=T0 + rng.choice([0, 1, 2, 3, 50]))
        if r > 0.88 and r <= 0.93:
            ev["sig"] = "00" * 64
            label = "bad-sig"
        elif r > 0.93 and r <= 0.96:
            ev["content"] += "!"
            label = "tampered"
        out.append((label, ev))
        if rng.random() < 0.2:
            l0, e0 = rng.choice(out)
            out.append(("resubmission" if l0 in ("valid", "resubmission") else l0, copy.deepcopy(e0)))
    return out


def non_int_created_at(rng, keys):
    """a validly signed event whose created_at is a float: the id covers it, so it is 'authentic'"""
    from aionostr.event import Event

    sk = rng.choice(keys)
    ev = Event(pubkey=sk.public_key.hex(), content="float ts", kind=1, tags=[], created_at=1700000000.5)
    ev.sign(sk.hex())
    return ("float-created_at", ev.to_json_object())


class WorkerLink:
    """This worker's link to the notify server, played by the harness (no sockets).  The relay is configured as one worker of
    several *before* the storage is set up, so that the real BaseStorage.setup() creates and starts the real NotifyClient; what
    the harness controls is what `asyncio.open_connection` gives that client, i.e. the state of the link while events arrive:
      up          the link opens at once and every announcement is written
      starting    the link is not open yet (NotifyClient opens it seconds after start-up): NotifyClient.writer is None
      unreachable the notify server refuses the connection: the client's connect task has ended, writer stays None
      up-later    as `starting`, and the link opens before the k-th submission of the session
      lost        the link opens; from the k-th announcement on drain() raises (connection reset / broken pipe) and what is
                  written is discarded, as a transport does once the connection is lost
      slow        drain() takes several rounds of the event loop
    k is drawn from the session's rng.  Nothing here looks at how the storage hands an announcement to the client; the oracle
    is the one of every other session (the OK frame against stored set, keyspace and what an observer was pushed)."""
    MODES = ("up", "starting", "unreachable", "up-later", "lost", "slow")

    def __init__(self, rng, mode):
        self.mode = mode
        self.how = rng.choice(["gunicorn-workers", "run_notifier"])
        self.workers = rng.choice([2, 3, 8])
        self.k = rng.randint(1, 4)
        self.error = rng.choice([ConnectionResetError, BrokenPipeError])
        self.rounds = rng.randint(2, 6)
        self.written = []           # what reached the notify server (hex)
        self.dials = 0
        self.writes = 0
        self.broken = False
        self.reader = None
        self.gate = asyncio.Event()
        self._config = None
        self._patched = None

    def describe(self):
        return {"link": self.mode, "configured_by": self.how, "workers": self.workers, "k": self.k, "error": self.error.__name__}

    # -- around the set-up of the storage ----------------------------------------------------------------
    def configure(self):
        from lib import proto

        common.setup_paths()
        from nostr_relay.config import Config

        self._config = (Config.__dict__.get("gunicorn"), "run_notifier" in Config.__dict__, Config.__dict__.get("run_notifier"))
        self._patched = asyncio.open_connection
        if self.how == "gunicorn-workers":
            Config.gunicorn = dict(Config.gunicorn or {}, workers=self.workers)
        else:
            Config.run_notifier = True
        link = self

        async def open_connection(host=None, port=None, **kw):
            link.dials += 1
            if link.mode == "unreachable":
                raise ConnectionRefusedError(111, "Connect call failed (%r, %r)" % (host, port))
            if link.mode in ("starting", "up-later"):
                await link.gate.wait()
            link.reader = asyncio.StreamReader()
            return link.reader, _LinkWriter(link)

        asyncio.open_connection = open_connection
        # NotifyClient.connect sleeps before it dials, and its task may take its first step during setup(): the shortened sleep
        # that Relay() installs anyway (and Relay.close() removes) has to be in place before
        asyncio.sleep = proto._fast_sleep

    def restore_config(self):
        """the configuration is global: put it back as soon as the storage has been set up"""
        from nostr_relay.config import Config

        if self._config is None:
            return
        gunicorn, had, run_notifier = self._config
        self._config = None
        Config.gunicorn = gunicorn
        if had:
            Config.run_notifier = run_notifier
        else:
            Config.__dict__.pop("run_notifier", None)

    def restore(self):
        from lib import proto

        self.restore_config()
        if self._patched is not None:
            asyncio.open_connection = self._patched
            self._patched = None
        asyncio.sleep = proto._real_sleep

    def before_submission(self, relay, n):
        """n = 1 for the first EVENT message of the session"""
        if self.mode == "up-later" and n == self.k and not self.gate.is_set():
            self.gate.set()
            relay.settle()

    def hang_up(self, relay):
        """the worker shuts down: end the client's connect task (BaseStorage.close does not) and collect its outcome"""
        task = getattr(getattr(relay.storage, "notifier", None), "_task", None)
        if task is None:
            return

        async def go():
            if not task.done():
                task.cancel()
            await asyncio.gather(task, return_exceptions=True)
        try:
            relay.run(go())
        except Exception:
            pass


class _LinkWriter:
    """the StreamWriter half of the link"""

    def __init__(self, link):
        self.link = link
        self.closed = False

    def write(self, data):
        self.link.writes += 1
        if not self.link.broken:
            self.link.written.append(bytes(data).hex())

    async def drain(self):
        link = self.link
        if link.broken or (link.mode == "lost" and link.writes >= link.k):
            link.broken = True
            raise link.error("Connection lost")
        if link.mode == "slow":
            from lib import proto

            for _ in range(link.rounds):
                await proto._real_sleep(0.001)

    def close(self):
        self.closed = True

    def is_closing(self):
        return self.closed

    async def wait_closed(self):
        return None

    def get_extra_info(self, name, default=None):
        return default


def run_session(report, drv, backend, rng, keys, tag, link=None):
    """link: a WorkerLink — the session runs in a relay that is one worker of several (storage.notifier exists)"""
    if link is not None:
        link.configure()
    try:
        relay = Relay(backend)
    except BaseException:
        if link is not None:
            link.restore()
        raise
    try:
        if link is not None:
            link.restore_config()
            if getattr(relay.storage, "notifier", None) is None:
                # nothing to exercise: the configuration did not make this storage a worker among several
                report.count("multiworker_sessions_without_a_notifier_" + backend)
            relay.settle()
        obs = Conn(relay, remote_addr="9.9.9.9")
        obs.send(["REQ", "watch", {"kinds": [0, 1, 5, 7, 10002, 30000, 20000, 20001, 29999]}])
        # further live subscriptions of other clients, with tag conditions: whatever happens to *their* notification (a tag
        # value their matcher cannot digest, a subscriber whose delivery fails) is not the next publisher's business
        other = Conn(relay, remote_addr="8.8.8.8")
        other.send(["REQ", "tagged", {"#x": ["v", "nested"]}, {"#t": ["x"]}])
        if rng.random() < 0.4:
            other.send(["REQ", "boom", {"kinds": [1, 7]}])
            for client in relay.storage.clients.values():
                if "boom" in client:
                    class FailingQueue:
                        """the subscriber's delivery queue fails for the first one or two live pushes"""

                        def __init__(self, q, left):
                            self._q, self._left = q, left

                        async def put(self, item):
                            if self._left > 0:
                                self._left -= 1
                                raise RuntimeError("injected: delivery to this subscriber failed")
                            return await self._q.put(item)

                        def __getattr__(self, name):
                            return getattr(self._q, name)
                    client["boom"].queue = FailingQueue(client["boom"].queue, rng.choice([1, 2]))
            report.count("sessions_with_a_failing_subscriber_" + backend)
        c = Conn(relay)
        subs = make_events(rng, keys, relay, rng.randint(4, 10))
        if rng.random() < 0.3:
            subs.insert(rng.randrange(len(subs) + 1), non_int_created_at(rng, keys))
        if rng.random() < 0.5:
            # newer version, then an older one arrives late, then the newer one is resubmitted
            sk = rng.choice(keys)
            kind = rng.choice([10002, 30000])
            tags = [["d", "late"]] if kind == 30000 else []
            newer = relay.signed_event(sk, kind=kind, content="newer", tags=tags, created_at=T0 + 500)
            older = relay.signed_event(sk, kind=kind, content="older, arriving late", tags=tags, created_at=T0 + 400)
            subs += [("valid", newer), ("valid", older), ("resubmission", copy.deepcopy(newer))]
        if rng.random() < 0.5:
            # a deletion arrives before the event it references; later the deletion is resubmitted
            sk = rng.choice(keys)
            note = relay.signed_event(sk, kind=1, content="arrives after its deletion", created_at=T0 + 600)
            dele = relay.signed_event(sk, kind=5, content="", tags=[["e", note["id"]]], created_at=T0 + 700)
            subs += [("valid", dele), ("valid", note), ("resubmission", copy.deepcopy(dele))]
        if link is not None:
            # every multi-worker session has what is announced to the siblings on either backend — an event that is stored and
            # an ephemeral one (never stored, fanned out and announced straight from add_event) — and a resubmission of the first
            sk = rng.choice(keys)
            note = relay.signed_event(sk, kind=rng.choice([1, 7, 30000]), content="announced to the sibling workers %s" % tag,
                                      tags=[["d", "w"]], created_at=T0 + 800)
            eph = relay.signed_event(sk, kind=rng.choice([20000, 20001, 29999]), content="typing %s" % tag, created_at=T0 + 801)
            for item in (("valid", note), ("valid", eph)):
                subs.insert(rng.randrange(len(subs) + 1), item)
            at = [i for i, (_, e) in enumerate(subs) if e is note][0]
            subs.insert(rng.randrange(at + 1, len(subs) + 1), ("resubmission", copy.deepcopy(note)))
        lines = [{"op": "kv.reset"}] if backend == "kv" else [{"op": "sql.reset"}]
        expect = ["ok"]
        by_id = {}
        in_model = True
        prefix = []
        acked = set()
        for label, ev in subs:
            prefix.append((label, ev))
            before = relay.store.ids()
            dump_before = relay.store.dump()
            n_c, n_o = len(c.out), len(obs.out)
            if link is not None:
                link.before_submission(relay, len(prefix))
            c.send(["EVENT", ev])
            after = relay.store.ids()
            frames = c.frames(n_c)
            oks = [f for f in frames if isinstance(f, list) and f and f[0] == "OK"]
            pushed = [f for f in obs.frames(n_o) if isinstance(f, list) and f[0] == "EVENT" and f[2].get("id") == ev.get("id")]
            payload = {"backend": backend, "submissions": [[l, e] for l, e in prefix]}
            if link is not None:
                payload["one_worker_of_several"] = link.describe()
            by_id.setdefault(ev["id"], ev)
            if len(oks) != 1:
                report.property_failure("%s: %d OK frames for one EVENT message (%s)" % (backend, len(oks), label), payload, None)
                continue
            ok, reason = oks[0][2], oks[0][3]
            stored_now = ev["id"] in after
            # --- model correspondence -----------------------------------------------------------
            me = model_event(ev)
            if me is None or label in ("bad-sig", "tampered", "float-created_at"):
                pass
            elif in_model:
                if backend == "kv":
                    if ok and not (20000 <= ev["kind"] < 30000):
                        lines.append({"op": "kv.task", "task": {"t": "add", "ev": me}})
                        expect.append(None)
                else:
                    lines.append({"op": "sql.add", "ev": me})
                    expect.append("ok:true" if ok else ("ok:false" if reason.startswith("duplicate") else "raises"))
            if me is None:
                in_model = False
            if in_model:
                lines.append({"op": "kv.dump" if backend == "kv" else "sql.dump"})
                expect.append(relay.store.dump())
            # --- the property ---------------------------------------------------------------------
            ephemeral = 20000 <= ev["kind"] < 30000
            is_dup = ev["id"] in before or ev["id"] in acked and ephemeral
            authentic = label in ("valid", "resubmission", "long-tag", "long-utf8-tag", "huge-int-in-tag", "nested-tag", "float-created_at")
            if ok:
                acked.add(ev["id"])
                superseded = False
                a = address(ev)
                if a is not None and not stored_now:
                    superseded = any(i in by_id and address(by_id[i]) == a and by_id[i]["created_at"] >= ev["created_at"] and i != ev["id"]
                                     for i in after)
                if not (stored_now or (ephemeral and pushed) or superseded):
                    cls = None
                    report.property_failure("%s: OK=true for %s (%s) but the event is not retrievable afterwards"
                                            % (backend, ev["id"][:8], label), payload, cls)
                if ev["id"] in before:
                    cls = None
                    report.property_failure("%s: a resubmitted stored event was acknowledged as new (OK=true)" % backend, payload, cls)
                    if pushed:
                        report.property_failure("%s: a resubmitted stored event was broadcast again" % backend, payload, cls)
            else:
                if ev["id"] in before:
                    # refused duplicate: nothing may change
                    if relay.store.dump() != dump_before or pushed:
                        report.property_failure("%s: a refused duplicate changed the store or was broadcast" % backend, payload, None)
                else:
                    if stored_now or pushed or relay.store.dump() != dump_before:
                        report.property_failure("%s: OK=false (%s) but the event left a trace (%s)" % (
                            backend, label, "stored" if stored_now else ("broadcast" if pushed else "keyspace changed")), payload, None)
                    if authentic and label == "valid":
                        report.property_failure("%s: a well-formed, validly signed event was refused: %r" % (backend, reason), payload, None)
                    if not reason:
                        report.property_failure("%s: OK=false without a reason" % backend, payload, None)
            report.count("submission_%s_%s" % (label, "ok" if ok else "refused"))
        got = drv.batch(lines)
        for i, (g, e) in enumerate(zip(got, expect)):
            if e is not None and g != e:
                report.correspondence_break("%s web EVENT branch + add_event" % backend,
                                            {"backend": backend, "submissions": [[l, e] for l, e in subs], "line": lines[i]},
                                            e if not isinstance(e, (list, dict)) else {"n": len(e)}, g if not isinstance(g, (list, dict)) else {"n": len(g)})
                break
        c.close()
        obs.close()
        other.close()
        if relay.open_subscriptions():
            report.property_failure("%s: subscriptions survive their connections" % backend, {"backend": backend}, None)
        if link is None:
            report.case((backend, tag, json.dumps([e["id"] for _, e in subs])), nontrivial=any(l != "valid" for l, _ in subs),
                        sample={"backend": backend, "labels": [l for l, _ in subs]})
            report.count("sessions_" + backend)
        else:
            report.case((backend, "one-worker-of-several", link.mode, tag, json.dumps([e["id"] for _, e in subs])), nontrivial=True,
                        sample={"backend": backend, "one_worker_of_several": link.describe(), "labels": [l for l, _ in subs],
                                "announcements_that_reached_the_notify_server": len(link.written)})
            report.count("multiworker_sessions_%s_link_%s" % (backend, link.mode))
            report.count("multiworker_announcements_attempted", link.writes)
            report.count("multiworker_announcements_delivered", len(link.written))
            if link.dials:
                report.count("multiworker_sessions_in_which_the_real_NotifyClient_dialled")
    finally:
        if link is not None:
            link.hang_up(relay)
        try:
            relay.close()
        finally:
            if link is not None:
                link.restore()


def burst_duplicates(report, backend, rng, keys, tag):
    """the same event arrives on two connections (and twice on one) before the relay has had time to write it: exactly
    one submission is acknowledged as new, it is broadcast once, the others are refused as duplicates"""
    relay = Relay(backend)
    try:
        obs = Conn(relay, remote_addr="9.9.9.9")
        obs.send(["REQ", "watch", {"kinds": [1, 30000]}])
        a, b = Conn(relay), Conn(relay, remote_addr="2.2.2.2")
        kind = rng.choice([1, 30000])
        ev = relay.signed_event(rng.choice(keys), kind=kind, content="arrives several times at once %s" % tag,
                                tags=[["d", "x"]] if kind == 30000 else [], created_at=T0 + 900)
        n_obs = len(obs.out)
        a.send(["EVENT", ev], settle=False)
        b.send(["EVENT", ev], settle=False)
        a.send(["EVENT", ev], settle=False)
        relay.settle()
        oks = [f for c in (a, b) for f in c.frames() if isinstance(f, list) and f and f[0] == "OK"]
        pushed = [f for f in obs.frames(n_obs) if isinstance(f, list) and f[0] == "EVENT" and f[2].get("id") == ev["id"]]
        payload = {"backend": backend, "case": "burst-duplicates", "event": ev}
        if len(oks) != 3:
            report.property_failure("%s: %d OK frames for three EVENT messages" % (backend, len(oks)), payload, None)
        elif sum(1 for f in oks if f[2]) != 1:
            report.property_failure("%s: the same event submitted three times in one burst was acknowledged as new %d times"
                                    % (backend, sum(1 for f in oks if f[2])), payload, None)
        if len(pushed) != 1:
            report.property_failure("%s: an event submitted three times in one burst was broadcast %d times" % (backend, len(pushed)), payload, None)
        if ev["id"] not in relay.store.ids():
            report.property_failure("%s: the acknowledged event is not stored" % backend, payload, None)
        report.case((backend, "burst-duplicates", tag), nontrivial=True, sample={"backend": backend, "case": "burst-duplicates"})
        report.count("burst_duplicates_" + backend)
    finally:
        relay.close()


def inflight_duplicate(report, drv, rng, tag):
    """LMDB, the real writer thread: the same event is resubmitted while its first copy is *being written* (taken off the queue,
    the write transaction waiting for the lock that another writer — a second worker's writer thread, a bulk load — holds):
    it is a duplicate then as much as while it was queued or after it was stored"""
    import threading
    import time
    from lib import gen
    from lib.hist import KVStore

    st = KVStore()
    try:
        threading.Thread.start(st.writer)
        ev = gen.gen_event(rng, authors=gen.AUTHORS[:2], kinds=[1, 7, 30000], times=[gen.T0 + 5])
        ev["tags"] = [["d", "x"]] if ev["kind"] == 30000 else []
        have, release = threading.Event(), threading.Event()

        def other_writer():
            txn = st.env.begin(write=True)
            have.set()
            release.wait(10)
            txn.abort()

        th = threading.Thread(target=other_writer)
        th.start()
        have.wait(10)
        outcomes = []
        n0 = len(st.broadcasts)
        e1, first = st.run(st.storage.add_event(dict(ev)))
        outcomes.append(bool(first))
        # wait until the writer thread has taken the task and sits in front of the lock
        t0 = time.time()
        while not (st.writer.queue.empty() and st.writer.processing) and time.time() - t0 < 5:
            time.sleep(0.002)
        time.sleep(0.01)
        for _ in range(2):
            try:
                e2, again = st.run(st.storage.add_event(dict(ev)))
            except Exception:
                again = False
            outcomes.append(bool(again))
        release.set()
        th.join()
        st.run(st.storage.wait_for_writer())
        pushed = len(st.broadcasts) - n0
        payload = {"backend": "kv", "case": "inflight-duplicate", "event": ev}
        if outcomes != [True, False, False]:
            report.property_failure("kv: an event resubmitted while its first copy was being written was acknowledged %r (expected "
                                    "new once, then duplicate)" % (outcomes,), payload, None)
        if pushed != 1:
            report.property_failure("kv: an event resubmitted while its first copy was being written was broadcast %d times" % pushed,
                                    payload, None)
        if ev["id"] not in st.ids():
            report.property_failure("kv: the acknowledged event is not stored", payload, None)
        # the same schedule through the Lean model of add_event + writer thread (Model/Announce.lean)
        mv = drv.call({"op": "ann.run", "backend": "kv", "steps": [{"submit": 1, "eph": False}, {"writerTake": True},
                                                                  {"submit": 1, "eph": False}, {"submit": 1, "eph": False},
                                                                  {"writerCommit": True}]})
        if mv["accepted"] != [1] * sum(outcomes) or mv["queued"] != 0:
            report.correspondence_break("kv add_event + WriterThread (duplicate while being written)", payload,
                                        {"acknowledged_as_new": outcomes}, mv)
        report.case(("kv", "inflight-duplicate", tag), nontrivial=True, sample={"backend": "kv", "case": "inflight-duplicate"})
        report.count("inflight_duplicates_kv")
    finally:
        try:
            st.writer.running = False
            st.writer.queue.put(None)
            st.writer.join(5)
        except Exception:
            pass
        st.close()


CLOSE_MODES = ("close", "async-with", "asgi-shutdown-hook")


async def _talk(storage, messages, until_eose=None):
    """one websocket connection played to the real web.start_client: the messages in order, then (once the EOSE of subscription
    `until_eose` has been sent, if one is named) the client hangs up.  Returns the frames the relay sent."""
    import logging
    import falcon
    from nostr_relay import web, rate_limiter

    inbox = list(messages)
    frames = []
    eose = asyncio.Event()

    async def ws_recv():
        if inbox:
            return json.dumps(inbox.pop(0))
        if until_eose is not None:
            try:
                await asyncio.wait_for(eose.wait(), 20)
            except asyncio.TimeoutError:
                pass
        raise falcon.WebSocketDisconnected()

    async def ws_send(text):
        f = json.loads(text)
        frames.append(f)
        if isinstance(f, list) and f[:2] == ["EOSE", until_eose]:
            eose.set()

    async def ws_close(code=1000):
        pass

    await web.start_client(storage, ws_send, ws_recv, ws_close, logging.getLogger("nostr_relay.verif.web"), message_timeout=3600,
                           rate_limiter=rate_limiter.NullRateLimiter(), remote_addr="1.2.3.4")
    return frames


def shutdown_restart(report, backend, rng, keys, tag, close_mode, contention, generations, burst):
    """SHUTDOWN AND RESTART.  What an OK frame says must still be true after the relay process has been stopped gracefully and
    started again on the same database: every event acknowledged with OK=true is retrievable from a *fresh* storage object
    opened on the same path (get_event and a REQ by ids through start_client; a replaceable event may have been superseded by a
    newer acknowledged version of its address), every event that was only ever refused is absent, and a resubmission of a stored
    event is still a duplicate in the next life of the relay.
    A life of the relay = set-up, a burst of EVENT messages through the real start_client, and the graceful stop
    (close_mode: storage.close() / leaving `async with storage` / the ASGI shutdown hook SetupMiddleware.process_shutdown) issued
    right after the last OK frame, with nothing waiting for the writer to go idle.  On LMDB the real writer thread runs and the
    state of its backlog at the stop is the scenario's second axis (contention): `none` (whatever the thread has managed by
    then), or the whole burst still queued because another writer — a sibling worker's writer thread, a bulk load — holds the
    LMDB write lock, which it gives up just before the stop begins or while the stop is in progress.
    The bursts are 6-16 messages (more in the thorough tier): far more than any writer can have in hand at once, so that
    whatever the stop does with "the rest of the queue" concerns several acknowledged events."""
    import shutil
    import threading
    from lib import proto
    from lib.sqlimpl import SQLImpl

    common.setup_paths()
    from nostr_relay.config import Config
    from nostr_relay import web
    from nostr_relay.storage import kv, db

    validators = ["nostr_relay.validators.is_signed"]
    path = common.scratch_dir("nrc06restart-")
    loop = asyncio.new_event_loop()
    asyncio.set_event_loop(loop)
    Config.service_privatekey = "07" * 32
    Config.authentication = {}
    Config.output_validator = None
    kv.analyze = lambda *a, **k: None
    asyncio.sleep = proto._fast_sleep       # the handler's throttle after a refused event, as in lib.proto.Relay

    def fresh_storage():
        if backend == "kv":
            Config.storage = {"class": "nostr_relay.storage.kv.LMDBStorage", "path": path, "validators": list(validators), "map_size": 64 << 20}
            return kv.LMDBStorage(dict(Config.storage))
        Config.storage = {"sqlalchemy.url": "sqlite+aiosqlite:///" + path + "/relay.sqlite3", "validators": list(validators)}
        return db.DBStorage(dict(Config.storage))

    class OtherWriter(threading.Thread):
        """holds the LMDB write lock (begin and abort in one thread) until told to let go"""

        def __init__(self, env):
            super().__init__(daemon=True)
            self.env, self.have, self.release = env, threading.Event(), threading.Event()

        def run(self):
            txn = self.env.begin(write=True)
            self.have.set()
            self.release.wait(30)
            txn.abort()

    by_id, labels, acked, lives = {}, {}, set(), []
    counter = [0]

    def signed(sk, kind, content, tags, created_at):
        from aionostr.event import Event

        ev = Event(pubkey=sk.public_key.hex(), content=content, kind=kind, tags=tags, created_at=created_at)
        ev.sign(sk.hex())
        return ev.to_json_object()

    def make_burst(n):
        out = []
        for _ in range(n):
            counter[0] += 1
            sk = rng.choice(keys)
            kind = rng.choice([1, 1, 1, 7, 10002, 30000])
            tags = [["d", rng.choice(["a", "b"])]] if kind == 30000 else []
            if rng.random() < 0.3:
                tags.append(["t", rng.choice(["x", "y"])])
            r = rng.random()
            label = "valid"
            if r < 0.07:
                tags.append(["t", "L" * 600])       # LMDB cannot store it (refused at the door), SQL can
                label = "long-tag"
            # created_at strictly increasing over the whole scenario: of two versions of one address the later submitted is the newer
            ev = signed(sk, kind, "%s life %d note %d" % (tag, len(lives), counter[0]), tags, T0 + 1000 + counter[0])
            if 0.07 <= r < 0.14:
                ev["sig"] = "00" * 64
                label = "bad-sig"
            elif 0.14 <= r < 0.2:
                ev["content"] += "!"
                label = "tampered"
            out.append((label, ev))
            again = [e for l, e in out + [x for life in lives for x in life] if l == "valid" and e["kind"] in (1, 7)]
            if again and rng.random() < 0.2:
                out.append(("resubmission", copy.deepcopy(rng.choice(again))))
        return out

    def superseded(ev):
        a = address(ev)
        return a is not None and any(i != ev["id"] and address(by_id[i]) == a and by_id[i]["created_at"] > ev["created_at"] for i in acked)

    def payload():
        return {"backend": backend, "case": "shutdown-restart", "close": close_mode, "writer_backlog": contention,
                "lives": [[[l, e] for l, e in life] for life in lives], "acknowledged": sorted(acked)}

    async def look_up(storage, stage):
        """the oracle: acknowledged <=> there, from this (freshly opened) storage object"""
        ids = sorted(by_id)
        if not ids:
            return
        got, served, answered = set(), set(), True
        for i in ids:
            if await storage.get_event(i) is not None:
                got.add(i)
        for at in range(0, len(ids), 20):
            frames = await _talk(storage, [["REQ", "byid", {"ids": ids[at:at + 20]}]], until_eose="byid")
            served |= {f[2]["id"] for f in frames if isinstance(f, list) and f and f[0] == "EVENT" and f[1] == "byid"}
            answered = answered and ["EOSE", "byid"] in frames
        due = [i for i in ids if i in acked and not superseded(by_id[i])]
        lost = [i for i in due if i not in got]
        unserved = [i for i in due if i in got and i not in served]
        ghosts = [i for i in ids if i not in acked and (i in got or i in served)]
        if lost:
            report.property_failure("%s: %d of %d event(s) acknowledged with OK=true are not stored %s (stop: %s, writer backlog: %s): %s"
                                    % (backend, len(lost), len(due), stage, close_mode, contention, ", ".join(i[:8] for i in lost)), payload(), None)
        if unserved and answered:
            report.property_failure("%s: %d event(s) acknowledged with OK=true are stored but not served to a REQ by ids %s: %s"
                                    % (backend, len(unserved), stage, ", ".join(i[:8] for i in unserved)), payload(), None)
        if ghosts:
            report.property_failure("%s: %d event(s) that were only ever refused (%s) are there %s" % (
                backend, len(ghosts), ", ".join(sorted({labels.get(i, "?") for i in ghosts})), stage), payload(), None)
        if not answered:
            report.count("restart_req_by_ids_without_eose_" + backend)
        report.count("restart_lookups_of_acknowledged_events", len(due))
        report.count("restart_lookups_of_refused_events", len([i for i in ids if i not in acked]))

    async def one_life(n_life, batch):
        """batch None: the last life, which only looks"""
        storage = fresh_storage()
        state = {"other": None}

        async def inside():
            try:
                await look_up(storage, "after %d graceful stop(s) and restart" % n_life if n_life else "in a new database")
                if batch is None:
                    return
                lives.append(batch)
                if backend == "kv" and contention != "none":
                    state["other"] = OtherWriter(storage.db)
                    state["other"].start()
                    if not state["other"].have.wait(10):
                        raise RuntimeError("harness: could not take the LMDB write lock")
                frames = await _talk(storage, [["EVENT", e] for _, e in batch])
                oks = [f for f in frames if isinstance(f, list) and f and f[0] == "OK"]
                for _, e in batch:
                    by_id.setdefault(e["id"], e)
                if len(oks) != len(batch):
                    report.property_failure("%s: %d OK frames for %d EVENT messages" % (backend, len(oks), len(batch)), payload(), None)
                    return
                for (label, e), f in zip(batch, oks):
                    ok = bool(f[2])
                    labels.setdefault(e["id"], label)
                    if label == "resubmission" and ok and e["id"] in acked:
                        report.property_failure("%s: a resubmitted event that had been acknowledged (life %d of the relay) was acknowledged as new again"
                                                % (backend, n_life), payload(), None)
                    if label == "valid" and not ok:
                        report.property_failure("%s: a well-formed, validly signed event was refused: %r" % (backend, f[3]), payload(), None)
                    if ok:
                        acked.add(e["id"])
                    report.count("restart_submission_%s_%s" % (label, "ok" if ok else "refused"))
                # the stop follows at once; the other writer lets go now, or a moment after the stop has begun
                if state["other"] is not None:
                    if contention == "lock-released-during-stop":
                        threading.Timer(0.15, state["other"].release.set).start()
                    else:
                        state["other"].release.set()
            except BaseException:
                if state["other"] is not None:
                    state["other"].release.set()
                raise

        try:
            if close_mode == "async-with":
                async with storage:
                    await inside()
            else:
                await storage.setup()
                try:
                    await inside()
                finally:
                    if close_mode == "close":
                        await storage.close()
                    else:
                        await web.SetupMiddleware(storage).process_shutdown({}, {})
        finally:
            if state["other"] is not None:
                state["other"].release.set()
                state["other"].join(10)
            try:
                await storage.stat_collector.stop()       # no stop path of the relay ends the statistics task
            except Exception:
                pass

    try:
        if backend == "sql":
            SQLImpl(validators=list(validators), url="sqlite+aiosqlite:///" + path + "/relay.sqlite3", loop=loop).close()   # the schema
        for n_life in range(generations):
            loop.run_until_complete(one_life(n_life, make_burst(rng.randint(*burst))))
        loop.run_until_complete(one_life(generations, None))
        report.case((backend, "shutdown-restart", close_mode, contention, tag, json.dumps(sorted(by_id))), nontrivial=True,
                    sample={"backend": backend, "case": "shutdown-restart", "stop": close_mode, "writer_backlog": contention,
                            "lives": [[l for l, _ in life] for life in lives], "acknowledged": len(acked)})
        report.count("shutdown_restart_%s_stop_%s" % (backend, close_mode))
        report.count("shutdown_restart_%s_writer_backlog_%s" % (backend, contention))
    finally:
        asyncio.sleep = proto._real_sleep
        try:
            pending = [t for t in asyncio.all_tasks(loop) if not t.done()]
            for t in pending:
                t.cancel()
            if pending:
                loop.run_until_complete(asyncio.gather(*pending, return_exceptions=True))
            loop.close()
        except Exception:
            pass
        shutil.rmtree(path, ignore_errors=True)


def run(report, tier, seed):
    rng = random.Random(seed)
    drv = common.Driver()
    from aionostr.key import PrivateKey

    keys = [PrivateKey(bytes([i + 1]) * 32) for i in range(3)]
    report.coverage["rule"] = (
        "sessions of 4-12 EVENT messages through the real start_client on both backends, an observer connection watching "
        "broadcasts: validly signed regular / replaceable / parameterised / ephemeral / kind-5 events, resubmissions, bad "
        "signatures, tampered content, events that LMDB cannot store (600-byte tag value, non-ASCII tag values around the 511-byte "
        "key limit, 2**70 in a tag, float created_at), "
        "nested-array tag values; the same event three times in one burst on two connections; on LMDB with the real writer thread "
        "also resubmitted while its first copy is being written (another writer holds the write lock); the same sessions (plus a stored event, "
        "its resubmission and an ephemeral event) in a relay set up as one worker of several (gunicorn workers > 1 / run_notifier: the real "
        "NotifyClient created by setup()), with the link to the notify server up / not open yet / refused / opening mid-session / lost "
        "(drain raises) / slow; SHUTDOWN AND RESTART on both backends (file-backed): bursts of 6-16 EVENT messages through start_client, then at once "
        "the graceful stop (storage.close() / leaving `async with storage` / the ASGI shutdown hook), on LMDB with the real writer thread and its "
        "backlog untouched because another writer holds the write lock until just before / during the stop; a fresh storage object on the same "
        "path must have every acknowledged event (get_event, REQ by ids) and none of the refused ones, over two or three lives; "
        "non-trivial = the session contains something other than plain valid events")
    report.assumptions += ["quiescence: the loop is settled and the LMDB writer drained after every message"]
    try:
        for i in range(2 if tier == "quick" else 30):
            for backend in ("sql", "kv"):
                burst_duplicates(report, backend, rng, keys, i)
            inflight_duplicate(report, drv, rng, i)
        storable_cases(report, drv, rng, 400 if tier == "quick" else 8000)
        for i in range(14 if tier == "quick" else 300):
            for backend in ("sql", "kv"):
                run_session(report, drv, backend, rng, keys, i)
        # one worker of several: every state of the link to the notify server x both backends (quick: once each; thorough: 20 times)
        for i in range(1 if tier == "quick" else 20):
            for mode in WorkerLink.MODES:
                for backend in ("sql", "kv"):
                    run_session(report, drv, backend, rng, keys, "w%d" % i, link=WorkerLink(rng, mode))
        # shutdown and restart: every way of stopping x (LMDB) the state of the writer's backlog at the stop; quick: two lives of
        # 6-16 messages each and a last one that only looks, thorough: three lives of 6-40, ten rounds
        for i in range(1 if tier == "quick" else 10):
            for close_mode in CLOSE_MODES:
                for backend, contention in (("kv", "lock-released-during-stop"),
                                            ("kv", rng.choice(["none", "lock-released-before-stop"])),
                                            ("sql", "none")):
                    shutdown_restart(report, backend, rng, keys, "r%d" % i, close_mode, contention,
                                     generations=2 if tier == "quick" else 3, burst=(6, 16) if tier == "quick" else (6, 40))
    finally:
        drv.close()


def storable_cases(report, drv, rng, n):
    """kv.check_storable — the refusal at the door that keeps OK=true from being followed by an aborted write — vs the Lean
    `checkStorable` (Props/C06Storable.lean): index keys around LMDB's 511-byte bound (one-letter / expiration / delegation / unindexed
    names x values of 440 … 480 bytes, ASCII and multi-byte), created_at / kind in and out of the four-byte range, integers in tags in
    and out of msgpack's range"""
    from nostr_relay.storage import kv
    from nostr_relay.errors import StorageError
    from aionostr.event import Event
    from props.c04 import tv

    for i in range(n):
        tags = []
        for _ in range(rng.choice([0, 1, 1, 2, 3])):
            name = rng.choice(["t", "e", "d", "é", "expiration", "delegation", "client", "tt", ""])
            unit = rng.choice(["a", "a", "é", "漢", "\U0001f600"])
            target = rng.choice([0, 1, 100, 440, 460, 468, 469, 470, 471, 472, 473, 480, 600])
            value = unit * max(0, (target - len(name.encode())) // len(unit.encode()) + rng.choice([-1, 0, 0, 1]))
            tag = [name, value] + rng.choice([[], [], ["x" * 600]])
            tags.append(tag)
        strings_only = True
        if rng.random() < 0.2:
            tags.append(["n", rng.choice([2 ** 63, 2 ** 64 - 1, 2 ** 64, -2 ** 63, -2 ** 63 - 1, 7])])
            strings_only = False
        ev = Event(id=rng.randbytes(32).hex(), pubkey=rng.randbytes(32).hex(), sig=rng.randbytes(64).hex(), content="c" * rng.choice([0, 5, 40]),
                   created_at=rng.choice([0, 1700000000, 2 ** 32 - 1, 2 ** 32, -1, 2 ** 63]), kind=rng.choice([1, 1, 1, 30023, 65535, 2 ** 32 - 1, 2 ** 32, -1]),
                   tags=tags)
        try:
            kv.check_storable(ev)
            impl = True
        except StorageError:
            impl = False
        report.count("storable_cases")
        report.count("storable_refused" if not impl else "storable_admitted")
        if not strings_only:
            # non-string tag items are outside the Lean KV event (its tags are strings); the record side is covered by C04's mp.record
            continue
        mev = {"id": ev.id, "pubkey": ev.pubkey, "created_at": ev.created_at, "kind": ev.kind,
               "tags": [[x.encode("utf-8").hex() for x in t] for t in tags]}
        row = {"id": ev.id, "created": str(ev.created_at), "kind": str(ev.kind), "pubkey": ev.pubkey,
               "content": ev.content.encode("utf-8").hex(), "tags": tv(ev.tags), "sig": ev.sig}
        m = drv.call({"op": "kv.storable", "ev": mev, "row": row})
        if m != impl:
            report.correspondence_break("kv.check_storable", {"kind": "storable", "event": ev.to_json_object()}, impl, m)
        report.case(("storable", ev.created_at, ev.kind, repr([(t[0], len(t[1].encode())) for t in tags])), nontrivial=bool(tags),
                    sample={"storable": impl, "tag_value_bytes": [len(t[1].encode()) for t in tags]})


def replay(report, path):
    data = json.load(open(path))
    report.coverage["note"] = "replay re-runs the session generator with the recorded seed; sessions are deterministic per seed"
    run(report, "quick", data.get("seed", 1))
