"""
C01 — a REQ is answered only with accepted events that match one of its filters; filter contents are
pure data.  Tie: real planner/execute_one_plan (LMDB) and build_query/run_query (SQLite) vs the Lean
models; search: every returned id must be stored and satisfy the NIP-01 specification (inclusive
reading), with an adversarial value pool; the generated SQL text (SQLite and PostgreSQL branch) must
have the token skeleton of its shape twin (same filter shape, benign values).
"""
import random
import re

from lib import common, qscen

THEOREMS_TIED = ["C01_kv_sound", "C01_kv_returned_was_added", "C01_sql_sound", "C01_sql_quote_roundtrip", "C01_sql_literal_roundtrip"]


# ---- SQL token skeleton --------------------------------------------------------------------------

def sql_skeleton(text):
    out, i, n = [], 0, len(text)
    while i < n:
        c = text[i]
        if c.isspace():
            i += 1
        elif text.startswith("--", i):
            j = text.find("\n", i)
            out.append("COMMENT")
            i = n if j < 0 else j
        elif text.startswith("/*", i):
            j = text.find("*/", i + 2)
            out.append("COMMENT")
            i = n if j < 0 else j + 2
        elif c in "xX" and i + 1 < n and text[i + 1] == "'":
            j = text.find("'", i + 2)
            out.append("BLOB")
            i = n if j < 0 else j + 1
        elif c == "'":
            j = i + 1
            while True:
                k = text.find("'", j)
                if k < 0:
                    out.append("UNTERMINATED")
                    j = n
                    break
                if k + 1 < n and text[k + 1] == "'":
                    j = k + 2
                    continue
                j = k + 1
                out.append("STR")
                break
            i = j
        elif c.isalpha() or c == "_":
            j = i
            while j < n and (text[j].isalnum() or text[j] == "_"):
                j += 1
            out.append(text[i:j].upper())
            i = j
        elif c.isdigit():
            j = i
            while j < n and text[j].isdigit():
                j += 1
            out.append("NUM")
            i = j
        else:
            out.append(c)
            i += 1
    # literal lists of any length are one shape
    s = " ".join(out)
    s = re.sub(r"(STR|BLOB|NUM)( , (STR|BLOB|NUM))*", r"\1", s)
    return s


def sql_literals(text):
    """contents of the '...' literals of a statement (quote-doubling undone)"""
    out, i, n = [], 0, len(text)
    while i < n:
        c = text[i]
        if c in "xX" and i + 1 < n and text[i + 1] == "'":
            j = text.find("'", i + 2)
            i = n if j < 0 else j + 1
        elif c == "'":
            j, buf = i + 1, []
            while j < n:
                if text[j] == "'":
                    if j + 1 < n and text[j + 1] == "'":
                        buf.append("'")
                        j += 2
                        continue
                    break
                buf.append(text[j])
                j += 1
            out.append("".join(buf))
            i = j + 1
        else:
            i += 1
    return out


def expected_literals(cleaned, postgres):
    exp = set()
    for q in cleaned:
        try:
            if q.ids is not None and not q.ids:
                continue
            if q.authors is not None:
                ex = [a for a in q.authors if len(a) == 64]
                if not ex:
                    continue
            if q.kinds is not None and not q.kinds:
                continue
            if any(not any(v for v in vals) for _, vals in (q.tags or [])):
                continue
        except Exception:
            continue
        if q.authors is not None:
            exp.add("delegation")
            for a in q.authors:
                if len(a) == 64:
                    exp.add(a)
                    if postgres:
                        exp.add("\\x" + a)
        if postgres and q.ids:
            for i in q.ids:
                if len(i) == 64:
                    exp.add("\\x" + i)
        for i in (q.ids or []):
            if len(i) > 64:
                # an id of more than 64 digits is compared as a LIKE prefix of the 64-digit hex text (it matches nothing)
                exp.add(i + "%")
        for name, vals in (q.tags or []):
            exp.add(name)
            for v in vals:
                if v:
                    exp.add(v)
    return exp


def twin_req(filters):
    """same shape, benign values, for all filters of one REQ together: tag names become safe letters and tag values safe
    strings by one REQ-wide renaming (equal names / values stay equal, distinct stay distinct, empty stays empty), so
    that clauses which are textually equal in the original are equal in the twin and vice versa"""
    safe = "abcdefghijklmnopqrstuvwxyz"
    names = sorted({k for f in filters for k in f if k.startswith("#") and len(k) == 2 and isinstance(f[k], list)})
    vals = {}
    out = []
    for f in filters:
        t = {}
        for k, v in f.items():
            if k in names:
                if not all(isinstance(x, str) for x in v):
                    t[k] = v
                    continue
                t["#" + safe[names.index(k)]] = ["" if x == "" else vals.setdefault(x, "v%d" % len(vals)) for x in v]
            else:
                t[k] = v
        out.append(t)
    return out


def canon_skeleton(sk):
    """prefix, sorted OR-ed clauses, suffix (the clause order comes from a Python set)"""
    i = sk.find("WHERE ( ")
    j = sk.rfind(" ) ORDER BY")
    if i < 0 or j < 0:
        return sk
    mid = sk[i + 8:j]
    return sk[:i] + "WHERE ( " + " ) OR ( ".join(sorted(mid.split(" ) OR ( "))) + sk[j:]


def compiled_text(storage, cleaned, postgres):
    """text of the statement as handed to the driver (after SQLAlchemy's text() processing)"""
    import asyncio
    from sqlalchemy.dialects import sqlite
    from sqlalchemy.dialects.postgresql import asyncpg as pg_asyncpg

    sub = storage.subscription_class(storage, "s", list(cleaned), queue=asyncio.Queue())
    sub.is_postgres = postgres
    if not sub.prepare():
        return None
    try:
        return str(sub.query.compile(dialect=(pg_asyncpg.dialect() if postgres else sqlite.dialect())))
    except Exception as e:
        return "COMPILE-ERROR %s" % type(e).__name__


def check_text(report, scen, rec):
    from nostr_relay.storage.base import NostrQuery

    storage = scen.sql.impl.storage
    tw = []
    for f in twin_req(rec["filters"]):
        try:
            tw.append(NostrQuery.model_validate(dict(f)))
        except Exception:
            return
    if len(tw) != len(rec["cleaned"]):
        return
    # tags are sorted by name: a renamed twin may permute clauses; compare as sorted clause multisets
    for pg in (False, True):
        a = compiled_text(storage, rec["cleaned"], pg)
        b = compiled_text(storage, tw, pg)
        if a is None or b is None:
            continue
        sa_, sb_ = canon_skeleton(sql_skeleton(a)), canon_skeleton(sql_skeleton(b))
        if sa_ != sb_:
            cls = None
            report.property_failure(
                "a filter value changes the %s statement: skeleton %r vs shape twin %r" % ("postgres" if pg else "sqlite", sa_[-160:], sb_[-160:]),
                qscen.replay_payload(rec), cls)
        lits = set(sql_literals(a))
        exp = expected_literals(rec["cleaned"], pg)
        if not (lits - {"hex"}) <= exp | {"hex"} or not exp <= lits:
            odd = sorted((lits ^ exp) - {"hex"})
            cls = None
            report.property_failure(
                "the %s statement does not carry the filter's values verbatim as literals: %r" % ("postgres" if pg else "sqlite", odd[:4]),
                qscen.replay_payload(rec), cls)
        report.count("sql_text_checked_pg" if pg else "sql_text_checked_sqlite")


def oracle(report, rec):
    if rec is None or rec["ids"] is None:
        return
    bad = [i for i in rec["ids"] if i not in rec["stored"] or i not in rec["spec_incl"]]
    if bad:
        cls = None
        report.property_failure(
            "%s backend returned %d event(s) that are not stored or match no filter of %r" % (rec["backend"], len(bad), rec["filters"]),
            qscen.replay_payload(rec), cls)


def run_case(report, scen, rng, adversarial):
    evs = qscen.gen_store(rng, adversarial=adversarial)
    scen.load(evs)
    for k in range(14):
        f = qscen.gen_adv_filter(rng, evs) if adversarial else __import__("lib.gen", fromlist=["x"]).gen_filter(rng, evs)
        rec = scen.ask_kv(f)
        oracle(report, rec)
        fs = [f] + ([qscen.gen_adv_filter(rng, evs)] if rng.random() < 0.3 else [])
        rec2 = scen.ask_sql(fs)
        oracle(report, rec2)
        if rec2 is not None and rec2.get("cleaned"):
            check_text(report, scen, rec2)
        for r in (rec, rec2):
            if r is not None and r["ids"] is not None:
                report.case((r["backend"], repr(r["filters"]), len(evs)), nontrivial=len(r["ids"]) > 0,
                            sample={"backend": r["backend"], "filters": r["filters"], "returned": len(r["ids"]),
                                    "spec": len(r["spec_incl"])})
                report.count("answers_" + r["backend"])
                report.count("answers_in_model" if r["in_model"] else "answers_outside_model")
                if r["backend"] == "kv":
                    report.count("kv_index_" + str(r["index"]))


def substring_family(report, scen, rng):
    """events that reach the matcher of a single-value tag filter without carrying the requested value — through the tag
    index's prefix walk (a value that merely starts with it) or through an ids clause — and that carry, under the same name,
    a proper substring of the requested value (the empty string included)"""
    from lib import gen

    name = rng.choice(["t", "t", "d", "g"])
    want = rng.choice(["abc", "abcd", "bc", "ab"])
    subs = sorted({want[i:j] for i in range(len(want)) for j in range(i, len(want) + 1)} - {want})
    evs = []
    for i in range(rng.randint(3, 7)):
        r = rng.random()
        first = want + rng.choice(["d", "x", "\x00", "bc"]) if r < 0.6 else rng.choice(subs) if r < 0.8 else want
        tags = [[name, first], [name, rng.choice(subs)]]
        if rng.random() < 0.3:
            tags.reverse()
        evs.append({"id": gen.mkid(rng), "pubkey": rng.choice(gen.AUTHORS[:3]), "created_at": gen.T0 + i, "kind": 1, "tags": tags,
                    "content": "", "sig": "00" * 64})
    scen.load(evs)
    ids = [e["id"] for e in evs]
    for f in ({"#" + name: [want]}, {"#" + name: [want], "kinds": [1]}, {"ids": ids, "#" + name: [want]},
              {"#" + name: [want], "authors": gen.AUTHORS[:3]}, {"#" + name: [rng.choice(subs) or want]}):
        for rec in (scen.ask_kv(dict(f)), scen.ask_sql([dict(f)])):
            oracle(report, rec)
            if rec is not None and rec["ids"] is not None:
                report.case((rec["backend"], repr(rec["filters"]), len(evs)), nontrivial=True,
                            sample={"backend": rec["backend"], "filters": rec["filters"], "returned": len(rec["ids"])})
        report.count("substring_family_filters")


def long_value_family(report, scen, rng):
    """the family of long tag values that agree on a long beginning (469 … 3000 characters, lib/qscen.long_family), each member stored under
    one event, every member asked for alone and in pairs: whatever a backend does with long values — truncating, hashing, skipping the
    index entry — an answer may only hold the events that carry exactly the requested value"""
    from lib import gen

    fam = qscen.long_family(rng)
    name = rng.choice(["t", "r", "e"])
    evs = []
    for i, v in enumerate(fam):
        evs.append({"id": gen.mkid(rng), "pubkey": rng.choice(gen.AUTHORS[:2]), "created_at": gen.T0 + i, "kind": rng.choice([1, 1, 7]),
                    "tags": [[name, v]] + ([["t", "short"]] if rng.random() < 0.3 else []), "content": "", "sig": "00" * 64})
    scen.load(evs)
    asks = [[v] for v in fam] + [rng.sample(fam, 2) for _ in range(4)] + [[fam[0][:100]], [fam[5][:511]], [fam[-1] + "x"]]
    for vals in asks:
        for f in ({"#" + name: vals}, {"#" + name: vals, "kinds": [1, 7]}):
            for rec in (scen.ask_kv(dict(f)), scen.ask_sql([dict(f)])):
                oracle(report, rec)
                if rec is not None and rec["ids"] is not None:
                    report.case((rec["backend"], "long", repr([len(x) for x in vals]), repr(sorted(f))), nontrivial=len(rec["ids"]) > 0,
                                sample={"backend": rec["backend"], "value_lengths": [len(x) for x in vals], "returned": len(rec["ids"])})
        report.count("long_value_family_filters")


def replay_one(report, scen, r):
    scen.load(r["events"])
    if r["backend"] == "kv":
        oracle(report, scen.ask_kv(r["filters"][0]))
    else:
        rec = scen.ask_sql(r["filters"])
        oracle(report, rec)
        if rec is not None and rec.get("cleaned"):
            check_text(report, scen, rec)


def run(report, tier, seed):
    rng = random.Random(seed)
    drv = common.Driver()
    scen = qscen.Scenario(report, drv)
    report.coverage["rule"] = (
        "stores of 3-26 events over 4 authors, boundary kinds/timestamps/ids, prefix-related and adversarial tag "
        "names/values (quotes, backslashes, bind-shaped ':w', comments, NUL, %, _) x filters built from stored values "
        "and from the adversarial pool, 1-2 filters per REQ on SQL; every returned id must be stored and match the "
        "NIP-01 spec; SQL text (sqlite and postgres branch, after SQLAlchemy text()) must have the token skeleton of "
        "its shape twin; non-trivial = the answer is non-empty")
    report.assumptions += [
        "PostgreSQL is not available: its branch is covered at the level of generated SQL text only",
        "full-text `search` filters (whoosh) are not modelled",
    ]
    try:
        for e in report.known:
            replay_one(report, scen, common.load_finding_replay(e))
        n = (25, 25) if tier == "quick" else (400, 400)
        for i in range(n[0]):
            run_case(report, scen, rng, adversarial=False)
        for i in range(n[1]):
            run_case(report, scen, rng, adversarial=True)
        for i in range(8 if tier == "quick" else 100):
            substring_family(report, scen, rng)
        for i in range(2 if tier == "quick" else 30):
            long_value_family(report, scen, rng)
    finally:
        scen.close()
        drv.close()


def replay(report, path):
    import json

    data = json.load(open(path))
    drv = common.Driver()
    scen = qscen.Scenario(report, drv)
    try:
        for it in (data.get("violations") or []) + (data.get("correspondence_breaks") or []):
            r = it.get("replay") or it.get("input")
            if "backend" in r:
                replay_one(report, scen, r)
    finally:
        scen.close()
        drv.close()
