"""
C01 — a REQ is answered only with accepted events that match one of its filters; filter contents are
pure data.  Tie: real planner/execute_one_plan (LMDB) and build_query/run_query (SQLite) vs the Lean
models; search: every returned id must be stored and satisfy the NIP-01 specification (inclusive
reading), with an adversarial value pool; the generated SQL text (SQLite and PostgreSQL branch) must
have the token skeleton of its shape twin (same filter shape, benign values).
"""
import random
import re

from lib import common, qscen

THEOREMS_TIED = ["C01_kv_sound", "C01_kv_returned_was_added", "C01_sql_sound", "C01_sql_quote_roundtrip", "C01_sql_literal_roundtrip"]


# ---- SQL token skeleton --------------------------------------------------------------------------

def sql_skeleton(text):
    out, i, n = [], 0, len(text)
    while i < n:
        c = text[i]
        if c.isspace():
            i += 1
        elif text.startswith("--", i):
            j = text.find("\n", i)
            out.append("COMMENT")
            i = n if j < 0 else j
        elif text.startswith("/*", i):
            j = text.find("*/", i + 2)
            out.append("COMMENT")
            i = n if j < 0 else j + 2
        elif c in "xX" and i + 1 < n and text[i + 1] == "'":
            j = text.find("'", i + 2)
            out.append("BLOB")
            i = n if j < 0 else j + 1
        elif c == "'":
            j = i + 1
            while True:
                k = text.find("'", j)
                if k < 0:
                    out.append("UNTERMINATED")
                    j = n
                    break
                if k + 1 < n and text[k + 1] == "'":
                    j = k + 2
                    continue
                j = k + 1
                out.append("STR")
                break
            i = j
        elif c.isalpha() or c == "_":
            j = i
            while j < n and (text[j].isalnum() or text[j] == "_"):
                j += 1
            out.append(text[i:j].upper())
            i = j
        elif c.isdigit():
            j = i
            while j < n and text[j].isdigit():
                j += 1
            out.append("NUM")
            i = j
        else:
            out.append(c)
            i += 1
    # literal lists of any length are one shape
    s = " ".join(out)
    s = re.sub(r"(STR|BLOB|NUM)( , (STR|BLOB|NUM))*", r"\1", s)
    return s


def sql_literals(text):
    """contents of the '...' literals of a statement (quote-doubling undone)"""
    out, i, n = [], 0, len(text)
    while i < n:
        c = text[i]
        if c in "xX" and i + 1 < n and text[i + 1] == "'":
            j = text.find("'", i + 2)
            i = n if j < 0 else j + 1
        elif c == "'":
            j, buf = i + 1, []
            while j < n:
                if text[j] == "'":
                    if j + 1 < n and text[j + 1] == "'":
                        buf.append("'")
                        j += 2
                        continue
                    break
                buf.append(text[j])
                j += 1
            out.append("".join(buf))
            i = j + 1
        else:
            i += 1
    return out


def expected_literals(cleaned, postgres):
    exp = set()
    for q in cleaned:
        try:
            if q.ids is not None and not q.ids:
                continue
            if q.authors is not None:
                ex = [a for a in q.authors if len(a) == 64]
                if not ex:
                    continue
            if q.kinds is not None and not q.kinds:
                continue
            if any(not any(v for v in vals) for _, vals in (q.tags or [])):
                continue
        except Exception:
            continue
        if q.authors is not None:
            exp.add("delegation")
            for a in q.authors:
                if len(a) == 64:
                    exp.add(a)
                    if postgres:
                        exp.add("\\x" + a)
        if postgres and q.ids:
            for i in q.ids:
                if len(i) == 64:
                    exp.add("\\x" + i)
        for i in (q.ids or []):
            if len(i) > 64:
                # an id of more than 64 digits is compared as a LIKE prefix of the 64-digit hex text (it matches nothing)
                exp.add(i + "%")
        for name, vals in (q.tags or []):
            exp.add(name)
            for v in vals:
                if v:
                    exp.add(v)
    return exp


def twin_req(filters):
    """same shape, benign values, for all filters of one REQ together: tag names become safe letters and tag values safe
    strings by one REQ-wide renaming (equal names / values stay equal, distinct stay distinct, empty stays empty), so
    that clauses which are textually equal in the original are equal in the twin and vice versa"""
    safe = "abcdefghijklmnopqrstuvwxyz"
    names = sorted({k for f in filters for k in f if k.startswith("#") and len(k) == 2 and isinstance(f[k], list)})
    vals = {}
    out = []
    for f in filters:
        t = {}
        for k, v in f.items():
            if k in names:
                if not all(isinstance(x, str) for x in v):
                    t[k] = v
                    continue
                t["#" + safe[names.index(k)]] = ["" if x == "" else vals.setdefault(x, "v%d" % len(vals)) for x in v]
            else:
                t[k] = v
        out.append(t)
    return out


def canon_skeleton(sk):
    """prefix, sorted OR-ed clauses, suffix (the clause order comes from a Python set)"""
    i = sk.find("WHERE ( ")
    j = sk.rfind(" ) ORDER BY")
    if i < 0 or j < 0:
        return sk
    mid = sk[i + 8:j]
    return sk[:i] + "WHERE ( " + " ) OR ( ".join(sorted(mid.split(" ) OR ( "))) + sk[j:]


def compiled_text(storage, cleaned, postgres):
    """text of the statement as handed to the driver (after SQLAlchemy's text() processing)"""
    import asyncio
    from sqlalchemy.dialects import sqlite
    from sqlalchemy.dialects.postgresql import asyncpg as pg_asyncpg

    sub = storage.subscription_class(storage, "s", list(cleaned), queue=asyncio.Queue())
    sub.is_postgres = postgres
    if not sub.prepare():
        return None
    try:
        return str(sub.query.compile(dialect=(pg_asyncpg.dialect() if postgres else sqlite.dialect())))
    except Exception as e:
        return "COMPILE-ERROR %s" % type(e).__name__


def check_text(report, scen, rec):
    from nostr_relay.storage.base import NostrQuery

    storage = scen.sql.impl.storage
    tw = []
    for f in twin_req(rec["filters"]):
        try:
            tw.append(NostrQuery.model_validate(dict(f)))
        except Exception:
            return
    if len(tw) != len(rec["cleaned"]):
        return
    # tags are sorted by name: a renamed twin may permute clauses; compare as sorted clause multisets
    for pg in (False, True):
        a = compiled_text(storage, rec["cleaned"], pg)
        b = compiled_text(storage, tw, pg)
        if a is None or b is None:
            continue
        sa_, sb_ = canon_skeleton(sql_skeleton(a)), canon_skeleton(sql_skeleton(b))
        if sa_ != sb_:
            cls = None
            report.property_failure(
                "a filter value changes the %s statement: skeleton %r vs shape twin %r" % ("postgres" if pg else "sqlite", sa_[-160:], sb_[-160:]),
                qscen.replay_payload(rec), cls)
        lits = set(sql_literals(a))
        exp = expected_literals(rec["cleaned"], pg)
        if not (lits - {"hex"}) <= exp | {"hex"} or not exp <= lits:
            odd = sorted((lits ^ exp) - {"hex"})
            cls = None
            report.property_failure(
                "the %s statement does not carry the filter's values verbatim as literals: %r" % ("postgres" if pg else "sqlite", odd[:4]),
                qscen.replay_payload(rec), cls)
        report.count("sql_text_checked_pg" if pg else "sql_text_checked_sqlite")


# ---- NIP-01 over the filter AS THE CLIENT SENT IT -------------------------------------------------
#
# The reference answers of lib/qscen are computed from the NostrQuery object that the relay's own validation returns: a
# validation that rewrites a filter (folds, trims, normalises a value) would move the reference along with the implementation.
# The property speaks about the filter of the REQ, so for filters whose JSON has one unambiguous NIP-01 reading (`raw_plain`) the
# answer is also judged against the JSON itself: strings are compared code point for code point (Python's `==` on str), nothing else.

_HEX64 = re.compile(r"\A[0-9a-f]{64}\Z")
_RAW_KEYS = {"ids", "authors", "kinds", "since", "until", "limit"}


def _is_int(x):
    return isinstance(x, int) and not isinstance(x, bool)


def raw_plain(f):
    """the filter JSON has exactly one reading: known keys only, ids / authors of 64 lower-case hex digits (the relay may lower-case
    hex and treats longer strings in its own way: those filters are left to the reference over the validated query), integer
    kinds / bounds, tag conditions that are lists of strings under a one-character name"""
    if not isinstance(f, dict):
        return False
    for k, v in f.items():
        if k in ("ids", "authors"):
            if not isinstance(v, list) or not all(isinstance(x, str) and _HEX64.match(x) for x in v):
                return False
        elif k == "kinds":
            if not isinstance(v, list) or not all(_is_int(x) for x in v):
                return False
        elif k in ("since", "until", "limit"):
            if not _is_int(v) or v < 0:
                return False
        elif isinstance(k, str) and k.startswith("#") and len(k) == 2:
            if not isinstance(v, list) or not all(isinstance(x, str) for x in v):
                return False
        else:
            return False
    return True


def raw_matches(f, ev):
    """NIP-01, inclusive reading (bounds inclusive, a delegator counts as an author), of one raw filter on one event dict"""
    if "ids" in f and ev["id"] not in f["ids"]:
        return False
    if "authors" in f:
        if ev["pubkey"] not in f["authors"] and not any(
                isinstance(t, (list, tuple)) and len(t) > 1 and t[0] == "delegation" and t[1] in f["authors"] for t in ev["tags"]):
            return False
    if "kinds" in f and not any(_is_int(ev["kind"]) and ev["kind"] == k for k in f["kinds"]):
        return False
    if "since" in f and not ev["created_at"] >= f["since"]:
        return False
    if "until" in f and not ev["created_at"] <= f["until"]:
        return False
    for k, wanted in f.items():
        if k.startswith("#"):
            if not any(isinstance(t, (list, tuple)) and len(t) > 1 and t[0] == k[1] and isinstance(t[1], str) and t[1] in wanted
                       for t in ev["tags"]):
                return False
    return True


class _Ascii:
    """%r of a value with every non-ASCII character escaped: look-alike strings must be told apart in a message"""
    def __init__(self, v):
        self.v = v

    def __repr__(self):
        return ascii(self.v)


def _events_by_id(events):
    out = {}
    for e in events:
        try:
            out.setdefault(bytes.fromhex(e["id"]).hex(), e)
        except (ValueError, TypeError):
            pass
    return out


def oracle(report, rec):
    if rec is None or rec["ids"] is None:
        return
    bad = [i for i in rec["ids"] if i not in rec["stored"] or i not in rec["spec_incl"]]
    if bad:
        cls = None
        report.property_failure(
            "%s backend returned %d event(s) that are not stored or match no filter of %r" % (rec["backend"], len(bad), rec["filters"]),
            qscen.replay_payload(rec), cls)
    if all(raw_plain(f) for f in rec["filters"]):
        report.count("answers_judged_against_raw_filter_json")
        by_id = _events_by_id(rec["events"])
        odd = [i for i in rec["ids"] if i in by_id and _is_int(by_id[i].get("created_at"))
               and not any(raw_matches(f, by_id[i]) for f in rec["filters"])]
        if odd:
            cls = None
            report.property_failure(
                "%s backend answered the REQ %r with %d event(s) that match none of its filters as the client sent them "
                "(strings compared code point for code point), e.g. one with tags %r"
                % (rec["backend"], _Ascii(rec["filters"]), len(odd), _Ascii(by_id[odd[0]]["tags"])), qscen.replay_payload(rec), cls)


def run_case(report, scen, rng, adversarial):
    evs = qscen.gen_store(rng, adversarial=adversarial)
    scen.load(evs)
    for k in range(14):
        f = qscen.gen_adv_filter(rng, evs) if adversarial else __import__("lib.gen", fromlist=["x"]).gen_filter(rng, evs)
        rec = scen.ask_kv(f)
        oracle(report, rec)
        fs = [f] + ([qscen.gen_adv_filter(rng, evs)] if rng.random() < 0.3 else [])
        rec2 = scen.ask_sql(fs)
        oracle(report, rec2)
        if rec2 is not None and rec2.get("cleaned"):
            check_text(report, scen, rec2)
        for r in (rec, rec2):
            if r is not None and r["ids"] is not None:
                report.case((r["backend"], repr(r["filters"]), len(evs)), nontrivial=len(r["ids"]) > 0,
                            sample={"backend": r["backend"], "filters": r["filters"], "returned": len(r["ids"]),
                                    "spec": len(r["spec_incl"])})
                report.count("answers_" + r["backend"])
                report.count("answers_in_model" if r["in_model"] else "answers_outside_model")
                if r["backend"] == "kv":
                    report.count("kv_index_" + str(r["index"]))


def substring_family(report, scen, rng):
    """events that reach the matcher of a single-value tag filter without carrying the requested value — through the tag
    index's prefix walk (a value that merely starts with it) or through an ids clause — and that carry, under the same name,
    a proper substring of the requested value (the empty string included)"""
    from lib import gen

    name = rng.choice(["t", "t", "d", "g"])
    want = rng.choice(["abc", "abcd", "bc", "ab"])
    subs = sorted({want[i:j] for i in range(len(want)) for j in range(i, len(want) + 1)} - {want})
    evs = []
    for i in range(rng.randint(3, 7)):
        r = rng.random()
        first = want + rng.choice(["d", "x", "\x00", "bc"]) if r < 0.6 else rng.choice(subs) if r < 0.8 else want
        tags = [[name, first], [name, rng.choice(subs)]]
        if rng.random() < 0.3:
            tags.reverse()
        evs.append({"id": gen.mkid(rng), "pubkey": rng.choice(gen.AUTHORS[:3]), "created_at": gen.T0 + i, "kind": 1, "tags": tags,
                    "content": "", "sig": "00" * 64})
    scen.load(evs)
    ids = [e["id"] for e in evs]
    for f in ({"#" + name: [want]}, {"#" + name: [want], "kinds": [1]}, {"ids": ids, "#" + name: [want]},
              {"#" + name: [want], "authors": gen.AUTHORS[:3]}, {"#" + name: [rng.choice(subs) or want]}):
        for rec in (scen.ask_kv(dict(f)), scen.ask_sql([dict(f)])):
            oracle(report, rec)
            if rec is not None and rec["ids"] is not None:
                report.case((rec["backend"], repr(rec["filters"]), len(evs)), nontrivial=True,
                            sample={"backend": rec["backend"], "filters": rec["filters"], "returned": len(rec["ids"])})
        report.count("substring_family_filters")


def long_value_family(report, scen, rng):
    """the family of long tag values that agree on a long beginning (469 … 3000 characters, lib/qscen.long_family), each member stored under
    one event, every member asked for alone and in pairs: whatever a backend does with long values — truncating, hashing, skipping the
    index entry — an answer may only hold the events that carry exactly the requested value"""
    from lib import gen

    fam = qscen.long_family(rng)
    name = rng.choice(["t", "r", "e"])
    evs = []
    for i, v in enumerate(fam):
        evs.append({"id": gen.mkid(rng), "pubkey": rng.choice(gen.AUTHORS[:2]), "created_at": gen.T0 + i, "kind": rng.choice([1, 1, 7]),
                    "tags": [[name, v]] + ([["t", "short"]] if rng.random() < 0.3 else []), "content": "", "sig": "00" * 64})
    scen.load(evs)
    asks = [[v] for v in fam] + [rng.sample(fam, 2) for _ in range(4)] + [[fam[0][:100]], [fam[5][:511]], [fam[-1] + "x"]]
    for vals in asks:
        for f in ({"#" + name: vals}, {"#" + name: vals, "kinds": [1, 7]}):
            for rec in (scen.ask_kv(dict(f)), scen.ask_sql([dict(f)])):
                oracle(report, rec)
                if rec is not None and rec["ids"] is not None:
                    report.case((rec["backend"], "long", repr([len(x) for x in vals]), repr(sorted(f))), nontrivial=len(rec["ids"]) > 0,
                                sample={"backend": rec["backend"], "value_lengths": [len(x) for x in vals], "returned": len(rec["ids"])})
        report.count("long_value_family_filters")


# ---- look-alike strings: equivalent for some reader, different as strings ----------------------------------------------------
#
# A tag value in a filter matches only the identical code-point string.  Every text-handling layer offers a "helpful" equivalence
# that is coarser than identity — Unicode normal forms (canonical and compatibility), case mappings, width, invisible and
# trailing characters, accent stripping, transport escapings, numeric reading — and a backend (or the shared validation in front
# of both) that applies one of them to one side only answers with events that carry a *different* string.  The classes are not a
# list of known bad pairs: they are generated by applying every such mapping (and every such mapping of a normal form) to seed
# strings, some hand-picked because they are sensitive to several mappings at once, some drawn by the rng from the code points that have a
# decomposition mapping in the Unicode data of the running Python.

def _fullwidth(s):
    return "".join(chr(ord(c) + 0xFEE0) if 0x21 <= ord(c) <= 0x7E else "\u3000" if c == " " else c for c in s)


def _strip_marks(s):
    import unicodedata
    return "".join(c for c in unicodedata.normalize("NFD", s) if not unicodedata.combining(c))


def _mid(s, ins):
    k = max(1, len(s) // 2)
    return s[:k] + ins + s[k:]


def _arabic_digits(s):
    return "".join(chr(0x0660 + ord(c) - 0x30) if "0" <= c <= "9" else c for c in s)


def _lookalike_maps():
    import html
    import unicodedata
    import urllib.parse

    nf = lambda form: (lambda s: unicodedata.normalize(form, s))
    return [
        ("nfc", nf("NFC")), ("nfd", nf("NFD")), ("nfkc", nf("NFKC")), ("nfkd", nf("NFKD")),
        ("lower", str.lower), ("upper", str.upper), ("casefold", str.casefold), ("title", str.title), ("swapcase", str.swapcase),
        ("fullwidth", _fullwidth), ("strip_marks", _strip_marks),
        ("trail_space", lambda s: s + " "), ("lead_space", lambda s: " " + s), ("trail_nul", lambda s: s + "\x00"),
        ("trail_newline", lambda s: s + "\n"), ("trail_tab", lambda s: s + "\t"), ("trail_nbsp", lambda s: s + "\u00a0"),
        ("lead_bom", lambda s: "\ufeff" + s), ("trail_bom", lambda s: s + "\ufeff"), ("trail_zwsp", lambda s: s + "\u200b"),
        ("zwj", lambda s: _mid(s, "\u200d")), ("zwnj", lambda s: _mid(s, "\u200c")), ("soft_hyphen", lambda s: _mid(s, "\u00ad")),
        ("word_joiner", lambda s: _mid(s, "\u2060")), ("variation_selector", lambda s: s + "\ufe0f"),
        ("url_quote", lambda s: urllib.parse.quote(s, safe="")), ("url_quote_plus", urllib.parse.quote_plus),
        ("url_unquote", urllib.parse.unquote), ("html_escape", html.escape), ("html_unescape", html.unescape),
        ("arabic_digits", _arabic_digits), ("zero_pad", lambda s: "0" + s if s.isdigit() else s),
        ("as_float", lambda s: s + ".0" if s.isdigit() else s), ("plus_sign", lambda s: "+" + s if s.isdigit() else s),
    ]


LOOKALIKE_SEEDS = [
    "caf\u00e9",                    # \u00e9 as one code point (NFD: e + U+0301)
    "\u212bngstr\u00f6m",           # ANGSTROM SIGN: a singleton, its NFC is U+00C5
    "\ud55c\uae00",                 # Hangul syllables (NFD: conjoining jamo)
    "\ufb01n \u2460",               # fi ligature, circled digit: compatibility mappings only
    "Stra\u00dfe",                  # \u00df: upper SS, casefold ss
    "\u0130stanbul I\u0131",        # dotted / dotless i
    "\u039f\u0394\u03a5\u03a3\u03a3\u0395\u038e\u03a3",  # final sigma under lower(), accents under strip
    "\uff11\uff12\uff13",           # full-width digits
    "Tag",
    "a&b c%41",                     # transport escapings
    "17",
    "\uff76\uff9e",                 # half-width katakana + voiced sound mark (NFKC composes to one full-width letter)
    "q\u0307\u0323",                # two combining marks in non-canonical order
    "\u0344\u2126\u212a",           # singletons / deprecated forms: dialytika tonos, OHM SIGN, KELVIN SIGN
    "\u1e9b\u0323",                 # the classic normalisation test character: four different normal forms
]

# tag names that are such characters themselves: a filter key "#x" has a one-code-point name, so the classes are those whose
# members are single code points (singletons, case pairs, width pairs) plus invisible characters as names
LOOKALIKE_NAME_CLASSES = [
    ["t", "T", "\uff54"], ["\u212b", "\u00c5", "\u00e5"], ["\u212a", "K", "k"], ["\u2126", "\u03a9", "\u03c9"], ["\u00e9", "e", "\u00c9"],
    ["\u00df", "\u1e9e"], ["\u0130", "i", "I", "\u0131"], ["\ufb01"], ["\u03c3", "\u03c2", "\u03a3"], ["\u200d"], ["\ufeff"], [" ", "\u00a0"],
    ["1", "\uff11", "\u0661"], ["d"], ["e"],
]

_DECOMPOSABLE = None


def _decomposable():
    """the BMP code points that a normal form changes (canonical or compatibility decomposition, Hangul syllables included) in this
    Python's Unicode data"""
    global _DECOMPOSABLE
    if _DECOMPOSABLE is None:
        import unicodedata
        _DECOMPOSABLE = [chr(cp) for cp in range(0xA0, 0x10000)
                         if not 0xD800 <= cp <= 0xDFFF and unicodedata.normalize("NFKD", chr(cp)) != chr(cp)]
    return _DECOMPOSABLE


def lookalike_class(rng, seed_string, extra):
    """[(how, member)]: the seed, every mapping of it, and `extra` members that are a mapping of a normal form of it (None: all)"""
    import unicodedata

    maps = _lookalike_maps()
    members = {seed_string: "seed"}
    for how, fn in maps:
        members.setdefault(fn(seed_string), how)
    second = {}
    for form in ("NFC", "NFD", "NFKC", "NFKD"):
        base = unicodedata.normalize(form, seed_string)
        for how, fn in maps:
            v = fn(base)
            if v not in members:
                second.setdefault(v, how + "(" + form.lower() + ")")
    keys = sorted(second)
    if extra is not None and len(keys) > extra:
        keys = rng.sample(keys, extra)
    for v in keys:
        members[v] = second[v]
    return sorted(((how, v) for v, how in members.items() if v), key=lambda p: p[1])


def lookalike_family(report, scen, rng, seed_string, tier):
    """one member of the class per event (under every name of a class of look-alike tag names), every member asked for under every
    name on both backends, alone and inside the usual conjunctions: an answer may hold only the events whose tag IS the requested
    string under the requested name"""
    from lib import gen

    cls = lookalike_class(rng, seed_string, 4 if tier == "quick" else None)
    names = list(rng.choice(LOOKALIKE_NAME_CLASSES))
    vals = [v for _, v in cls]
    evs = []
    for name in names:
        for how, v in cls:
            tags = [[name, v], ["g", "all"]]
            if rng.random() < 0.25:
                # a second tag of the same name holding another member: reached through one value, matched on the other
                tags.insert(rng.randrange(2), [name, rng.choice(vals)])
            evs.append({"id": gen.mkid(rng), "pubkey": rng.choice(gen.AUTHORS[:3]), "created_at": gen.T0 + len(evs),
                        "kind": rng.choice([1, 1, 7]), "tags": tags, "content": "", "sig": "00" * 64})
    while len({e["id"] for e in evs}) != len(evs):
        seen = set()
        for e in evs:
            if e["id"] in seen:
                e["id"] = gen.mkid(rng)
            seen.add(e["id"])
    scen.load(evs)
    ids = [e["id"] for e in evs]
    by_id = {e["id"]: e for e in evs}

    def judge(rec, how):
        if rec is None or rec["ids"] is None:
            report.count("lookalike_filters_refused")
            return
        oracle(report, rec)
        exact = [i for i in rec["ids"] if i in by_id and any(raw_matches(f, by_id[i]) for f in rec["filters"])]
        report.case((rec["backend"], "lookalike", repr(rec["filters"])), nontrivial=len(exact) > 0,
                    sample={"backend": rec["backend"], "lookalike": how, "filters": rec["filters"], "returned": len(rec["ids"]),
                            "class_size": len(cls), "names": names})
        report.count("lookalike_answers_" + rec["backend"])
        if not exact:
            report.count("lookalike_answers_without_the_exact_member")
            # (completeness is C02's subject; at the time of writing these are exactly the SQL REQs with a NUL in a filter value,
            # which SQLite's statement text cannot carry: the whole REQ is answered with nothing)

    for name in names:
        for how, v in cls:
            key = "#" + name
            plain = {key: [v]}
            r = rng.random()
            other = rng.choice(vals)
            extra = ({key: [v], "kinds": [1, 7]} if r < 0.2 else {"ids": list(ids), key: [v]} if r < 0.4 else
                     {key: [v], "authors": gen.AUTHORS[:3]} if r < 0.55 else {key: [v], "#g": ["all"]} if r < 0.7 else
                     {key: [v, other]} if r < 0.85 else {key: [v], "since": gen.T0, "limit": 3})
            for f in (plain, extra):
                judge(scen.ask_kv(dict(f)), how)
                judge(scen.ask_sql([dict(f)]), how)
            report.count("lookalike_" + how.split("(")[0])
        # one REQ of two filters on SQL: members under this name and under another name of the class
        f2 = [{"#" + name: [rng.choice(vals)]}, {"#" + rng.choice(names): [rng.choice(vals)], "kinds": [7]}]
        judge(scen.ask_sql([dict(f) for f in f2]), "two filters")
    report.count("lookalike_classes")
    report.count("lookalike_events", len(evs))


def lookalike_seeds(rng, tier):
    """the hand-picked seeds, and seeds of 1-3 code points drawn from those that have a decomposition mapping (next to an ASCII
    letter, so that case and width mappings bite as well)"""
    out = list(LOOKALIKE_SEEDS)
    pool = _decomposable()
    for _ in range(3 if tier == "quick" else 60):
        s = "".join(rng.choice(pool) for _ in range(rng.choice([1, 2, 3])))
        out.append(rng.choice(["", "a", "Z"]) + s)
    return out


def replay_one(report, scen, r):
    scen.load(r["events"])
    if r["backend"] == "kv":
        oracle(report, scen.ask_kv(r["filters"][0]))
    else:
        rec = scen.ask_sql(r["filters"])
        oracle(report, rec)
        if rec is not None and rec.get("cleaned"):
            check_text(report, scen, rec)


def run(report, tier, seed):
    rng = random.Random(seed)
    drv = common.Driver()
    scen = qscen.Scenario(report, drv)
    report.coverage["rule"] = (
        "stores of 3-26 events over 4 authors, boundary kinds/timestamps/ids, prefix-related and adversarial tag "
        "names/values (quotes, backslashes, bind-shaped ':w', comments, NUL, %, _) x filters built from stored values "
        "and from the adversarial pool, 1-2 filters per REQ on SQL; every returned id must be stored and match the "
        "NIP-01 spec; SQL text (sqlite and postgres branch, after SQLAlchemy text()) must have the token skeleton of "
        "its shape twin; non-trivial = the answer is non-empty; "
        "look-alike classes: a seed string and its images under Unicode normal forms, case mappings, width, invisible / "
        "trailing characters, accent stripping, escapings and numeric spellings, one member per stored event under each of a "
        "class of look-alike one-character tag names, every member asked for on both backends; every answer to a filter "
        "whose JSON has one reading is also judged against that JSON (code-point equality), not only against the validated query")
    report.assumptions += [
        "PostgreSQL is not available: its branch is covered at the level of generated SQL text only",
        "full-text `search` filters (whoosh) are not modelled",
    ]
    try:
        for e in report.known:
            replay_one(report, scen, common.load_finding_replay(e))
        n = (25, 25) if tier == "quick" else (400, 400)
        for i in range(n[0]):
            run_case(report, scen, rng, adversarial=False)
        for i in range(n[1]):
            run_case(report, scen, rng, adversarial=True)
        for i in range(8 if tier == "quick" else 100):
            substring_family(report, scen, rng)
        for i in range(2 if tier == "quick" else 30):
            long_value_family(report, scen, rng)
        for s in lookalike_seeds(rng, tier):
            lookalike_family(report, scen, rng, s, tier)
    finally:
        scen.close()
        drv.close()


def replay(report, path):
    import json

    data = json.load(open(path))
    drv = common.Driver()
    scen = qscen.Scenario(report, drv)
    try:
        for it in (data.get("violations") or []) + (data.get("correspondence_breaks") or []):
            r = it.get("replay") or it.get("input")
            if "backend" in r:
                replay_one(report, scen, r)
    finally:
        scen.close()
        drv.close()
