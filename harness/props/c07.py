"""
C07 — all effects of an event are applied atomically, even across crashes.
Fault enumeration against the real code (the theorems only fix what is compared):
 (a) engine error at the k-th put/delete/commit of the LMDB writer task (hook in the lmdb stand-in, which
     sits *below* kv.py) and at the k-th SQL statement of DBStorage.add_event (SQLAlchemy
     before_cursor_execute listener), for every k of every event of generated histories — the store must then
     be exactly the state before that event, and the remaining events must produce the same final state as
     the history without it;
 (b) process kill: a child process runs a history on file-backed LMDB / SQLite and os._exit()s at the k-th
     mutation; the parent reopens the files — the store must be the state before or after that event.
Correspondence: the before/after states are also those of the Lean models.
"""
import json
import os
import random
import subprocess
import sys
import shutil

from lib import common, gen
from lib import hist
from lib.hist import KVStore, SQLStore
from lib.kvimpl import model_event

THEOREMS_TIED = ["C07_kv_all_or_nothing", "C07_kv_later_tasks_proceed", "C07_kv_coherent_after_failure",
                 "C07_sql_all_or_nothing", "C07_sql_later_events_proceed"]

AUTH = gen.AUTHORS[2:4]
T0 = gen.T0


def gen_history(rng, n):
    evs = []
    for i in range(n):
        r = rng.random()
        if r < 0.4 or not evs:
            kind, tags = rng.choice([1, 1, 7]), [["t", rng.choice(["a", "b"])], ["p", rng.choice(AUTH)]][:rng.choice([0, 1, 2])]
        elif r < 0.7:
            kind = rng.choice([10002, 30000, 0])
            tags = [["d", rng.choice(["x", "y"])]] if kind == 30000 else []
        else:
            kind = 5
            tgt = [e for e in evs if e["kind"] != 5]
            tags = [["e", rng.choice(tgt)["id"]] for _ in range(rng.choice([1, 2]))] if tgt else []
        a = rng.choice(AUTH) if rng.random() < 0.3 else AUTH[0]
        evs.append({"id": "%02x" % i + rng.randbytes(31).hex(), "pubkey": a, "created_at": T0 + i * 10 + rng.choice([0, 1]),
                    "kind": kind, "tags": tags, "content": "e%d" % i, "sig": "00" * 64})
    return evs


def gen_multi_victim_history(rng, shape):
    """Histories in which ONE event removes SEVERAL stored events inside its own transaction.  gen_history gives every event
    a later timestamp than its predecessors and a kind-5 one or two references drawn from all authors, so almost every event
    there has at most one victim; but the removal of the victims is a loop, and a loop has states that a single pass does not
    have (after the first victim is gone completely, between two victims, inside the last one).  Three shapes:
      delete : 3-5 own events of different kinds and tag counts (different numbers of index entries each), a foreign event and
               an own event that is not named; then a kind-5 naming all the victims, the foreign event (must survive) and an
               unknown id, in shuffled order;
      replace: 2-4 versions of one replaceable / parameterised-replaceable / kind-0 / kind-3 address that arrived newest
               first (each is older than everything stored, so all of them stay), for kind 30000 also a version with another
               d value (must survive); then a version newer than all of them, which supersedes them all at once;
      both   : such versions and own notes; a kind-5 naming the notes, the oldest version and a foreign event; then the newest
               version superseding the remaining ones.
    Every history ends with an ordinary note so that 'later events proceed' has something to apply.  Which events really have
    several victims is not taken from here: enumerate_faults(min_victims=2) observes it in the fault-free reference run."""
    me, other = AUTH[0], AUTH[1]
    evs = []

    def ev(kind, pubkey, ts, tags):
        e = {"id": "%02x" % len(evs) + rng.randbytes(31).hex(), "pubkey": pubkey, "created_at": ts, "kind": kind, "tags": tags,
             "content": "m%d" % len(evs), "sig": "00" * 64}
        evs.append(e)
        return e

    def note(pubkey, ts):
        tags = [["t", rng.choice(["a", "b"])], ["p", rng.choice(AUTH)], ["t", "c"]][:rng.choice([0, 1, 2, 3])]
        return ev(rng.choice([1, 1, 7]), pubkey, ts, tags)

    def versions(kind, d, n, newest_ts):
        out = []
        for j in range(n):                       # newest first: nothing stored is older, so every version stays
            if kind == 30000 and j == 1:
                ev(kind, me, newest_ts - 5, [["d", d + "-other"]])
            tags = ([["d", d]] if kind == 30000 else []) + [["t", "a"]][:rng.choice([0, 1])]
            out.append(ev(kind, me, newest_ts - 10 * j, tags))
        return out

    rkind = rng.choice([10002, 30000, 0, 3])
    d = rng.choice(["x", "y"])
    if shape == "delete":
        stored = [("note", me)] * rng.randint(2, 4) + [("repl", me), ("note", other), ("keep", me)]
        rng.shuffle(stored)
        named = []
        for j, (what, who) in enumerate(stored):
            e = ev(rkind, who, T0 + 10 * j, [["d", d]] if rkind == 30000 else []) if what == "repl" else note(who, T0 + 10 * j + rng.choice([0, 1]))
            if what != "keep":
                named.append(e["id"])
        named.append(rng.randbytes(32).hex())
        rng.shuffle(named)
        ev(5, me, T0 + 500, [["e", x] for x in named])
    elif shape == "replace":
        note(rng.choice(AUTH), T0 + 1)
        versions(rkind, d, rng.randint(2, 4), T0 + 300)
        ev(rkind, me, T0 + 500, ([["d", d]] if rkind == 30000 else []) + [["t", "b"], ["p", other]][:rng.choice([0, 1, 2])])
    else:
        foreign = note(other, T0 + 1)
        vs = versions(rkind, d, rng.randint(3, 4), T0 + 300)
        notes = [note(me, T0 + 310 + j) for j in range(rng.randint(2, 3))]
        named = [e["id"] for e in notes] + [vs[-1]["id"], foreign["id"]]
        rng.shuffle(named)
        ev(5, me, T0 + 400, [["e", x] for x in named])
        ev(rkind, me, T0 + 500, [["d", d]] if rkind == 30000 else [])
    note(me, T0 + 600)
    return evs


def stored_ids(backend, dump):
    """the ids of the stored events, read off a dump (LMDB: the keys of the primary records, 0x00 + id)"""
    return {k[2:] for k in dump if k.startswith("00") and len(k) == 66} if backend == "kv" else set(dump["events"])


# ---- (a) injected engine errors ------------------------------------------------------------------------

class SqlFault:
    """raise at the k-th statement executed while armed"""

    def __init__(self, store):
        import sqlalchemy as sa

        self.store = store
        self.count = 0
        self.k = None
        self.seen = []
        sa.event.listen(store.storage.db.sync_engine, "before_cursor_execute", self._hook)

    def _hook(self, conn, cursor, statement, parameters, context, executemany):
        if self.k is None:
            return
        s = statement.strip().split()[0].upper() if statement.strip() else ""
        if s in ("PRAGMA", "BEGIN", "COMMIT", "ROLLBACK"):
            return
        self.count += 1
        self.seen.append(s)
        if self.count == self.k:
            self.k = -1
            raise RuntimeError("injected fault at statement %d (%s)" % (self.count, s))

    def arm(self, k):
        self.count, self.k, self.seen = 0, k, []

    def disarm(self):
        fired = self.k == -1
        self.k = None
        return fired, self.count


def kv_fault_run(store, ev, k, exc_name):
    lmdb = store.kv.lmdb
    exc = {"mapfull": lmdb.MapFullError, "generic": lmdb.Error, "runtime": RuntimeError}[exc_name]
    lmdb.MUTATION_LOG = []
    lmdb.FAULT = {"countdown": k, "exc": exc} if k else None
    try:
        res = store.add(ev)
    finally:
        fired = bool(lmdb.FAULT) and lmdb.FAULT["countdown"] <= 0
        n = len(lmdb.MUTATION_LOG)
        lmdb.FAULT, lmdb.MUTATION_LOG = None, None
    return res, fired, n


def enumerate_faults(report, drv, rng, backend, evs, tag, max_points, min_victims=0):
    """min_victims: only the events whose fault-free application removes at least that many stored events are faulted (the
    others are applied as the history around them)"""
    store = KVStore() if backend == "kv" else SQLStore()
    sqlf = SqlFault(store) if backend == "sql" else None
    points = 0
    try:
        # reference dumps: prefix states with every event applied
        ref = []
        store.reset()
        for e in evs:
            store.add(e)
            ref.append(store.dump())
        for i, ev in enumerate(evs):
            # how many mutation points does this event have?
            store.reset()
            for e in evs[:i]:
                store.add(e)
            before = store.dump()
            if backend == "kv":
                _, _, nmut = kv_fault_run(store, ev, 0, "generic")
            else:
                sqlf.arm(10 ** 9)
                store.add(ev)
                _, nmut = sqlf.disarm()
            after = store.dump()
            victims = len(stored_ids(backend, before) - stored_ids(backend, after))
            if victims < min_victims:
                continue
            if victims >= 2:
                report.count("multi_victim_events_" + backend)
            expected = None      # the state of the history without event i: the same for every k
            ks = list(range(1, nmut + 1))
            if len(ks) > max_points:
                ks = sorted(rng.sample(ks, max_points))
            for k in ks:
                store.reset()
                for e in evs[:i]:
                    store.add(e)
                exc_name = rng.choice(["mapfull", "generic", "runtime"])
                if backend == "kv":
                    try:
                        res, fired, _ = kv_fault_run(store, ev, k, exc_name)
                    except hist.WriterDied as ex:
                        report.property_failure(
                            "kv: a fault at mutation %d of event %d (kind %d) killed the writer loop (%s): every later event is "
                            "acknowledged but never written" % (k, i, ev["kind"], ex),
                            {"backend": "kv", "events": evs, "index": i, "fault_at": k, "exc": exc_name}, None)
                        store.close()
                        store = KVStore()
                        continue
                else:
                    sqlf.arm(k)
                    res = store.add(ev)
                    fired, _ = sqlf.disarm()
                mid = store.dump()
                payload = {"backend": backend, "events": evs, "faulty_event": i, "fault_at": k, "exception": exc_name}
                if not fired:
                    continue
                points += 1
                if mid != before and mid != after:
                    report.property_failure(
                        "%s: a fault at mutation %d of event %d (kind %d) left the store in between: %s"
                        % (backend, k, i, ev["kind"], diff(before, mid, after)), payload, None)
                elif mid == after and mid != before:
                    report.property_failure("%s: the event was applied although the engine failed at mutation %d" % (backend, k), payload, None)
                if backend == "sql" and res["ok"]:
                    report.property_failure("sql: add_event reported success although a statement failed", payload, None)
                # later events proceed, and the end state is that of the history without the failed event
                for e in evs[i + 1:]:
                    store.add(e)
                final = store.dump()
                if expected is None:
                    store.reset()
                    for j, e in enumerate(evs):
                        if j != i:
                            store.add(e)
                    expected = store.dump()
                if mid == before and final != expected:
                    report.property_failure("%s: after a failed event the later events did not produce the state of the history "
                                            "without it" % backend, payload, None)
                report.case((backend, tag, i, k), nontrivial=True,
                            sample={"backend": backend, "event_kind": ev["kind"], "fault_at": k, "of": nmut, "exception": exc_name,
                                    "victims": victims})
                if victims >= 2:
                    report.count("multi_victim_fault_points_" + backend)
        # model correspondence of the reference (fault-free) run
        lines = [{"op": "kv.reset" if backend == "kv" else "sql.reset"}]
        for e in evs:
            me = model_event(e)
            lines.append({"op": "kv.task", "task": {"t": "add", "ev": me}} if backend == "kv" else {"op": "sql.add", "ev": me})
            lines.append({"op": "kv.dump" if backend == "kv" else "sql.dump"})
        got = drv.batch(lines)
        dumps = [g for g, l in zip(got, lines) if l["op"].endswith("dump")]
        if dumps != ref:
            report.correspondence_break("%s write path (reference run)" % backend, {"backend": backend, "events": evs}, None, None)
    finally:
        store.close()
    report.count("fault_points_" + backend, points)


def diff(before, mid, after):
    def keys(d):
        return set(d) if isinstance(d, list) else set(d["events"]) | set(d["tags"])
    b, m, a = keys(before), keys(mid), keys(after)
    return "vs before +%d -%d, vs after +%d -%d" % (len(m - b), len(b - m), len(m - a), len(a - m))


# ---- (b) process kill ----------------------------------------------------------------------------------

CHILD = r'''
import sys, os, json
sys.path.insert(0, %(harness)r)
from lib import common
common.setup_paths()
backend, path, k = sys.argv[1], sys.argv[2], int(sys.argv[3])
evs = json.load(open(sys.argv[4]))
from lib import hist
if backend == "kv":
    import lmdb
    from lib.hist import KVStore
    orig = common.scratch_dir
    common.scratch_dir = lambda prefix="": path
    st = KVStore()
    for e in evs[:-1]:
        st.add(e)
    lmdb.FAULT = {"countdown": k, "exit": 0}
    st.add(evs[-1])
else:
    from lib.hist import SQLStore
    import sqlalchemy as sa
    st = SQLStore(url="sqlite+aiosqlite:///" + path)
    for e in evs[:-1]:
        st.add(e)
    state = {"n": 0}
    def hook(conn, cursor, statement, parameters, context, executemany):
        s = statement.strip().split()[0].upper() if statement.strip() else ""
        if s in ("PRAGMA", "BEGIN", "COMMIT", "ROLLBACK"):
            return
        state["n"] += 1
        if state["n"] == k:
            os._exit(0)
    sa.event.listen(st.storage.db.sync_engine, "before_cursor_execute", hook)
    st.add(evs[-1])
os._exit(3)   # the kill point was not reached
'''


def kill_case(report, rng, backend, evs, k, tag):
    base = common.scratch_dir("nrkill-")
    try:
        path = os.path.join(base, "db") if backend == "kv" else os.path.join(base, "relay.sqlite3")
        if backend == "kv":
            os.makedirs(path)
        evfile = os.path.join(base, "evs.json")
        json.dump(evs, open(evfile, "w"))
        script = os.path.join(base, "child.py")
        open(script, "w").write(CHILD % {"harness": common.HARNESS})
        env = dict(os.environ, VERIF_REPO=common.REPO)
        p = subprocess.run([sys.executable, script, backend, path, str(k), evfile], env=env, stdout=subprocess.PIPE,
                           stderr=subprocess.PIPE, timeout=120)
        if p.returncode == 3:
            return False
        if p.returncode != 0:
            raise common.MachineryBroken("kill child failed: %s" % p.stderr.decode()[-500:])
        # reference states in this process
        ref = KVStore() if backend == "kv" else SQLStore()
        try:
            for e in evs[:-1]:
                ref.add(e)
            before = ref.dump()
            ref.add(evs[-1])
            after = ref.dump()
        finally:
            ref.close()
        # reopen what the killed process left
        if backend == "kv":
            import lmdb
            env_ = lmdb.open(path=path, map_size=64 << 20)
            with env_.begin() as txn:
                found = [bytes(x).hex() for x in txn.cursor().iternext(values=False)]
            env_.close()
        else:
            import sqlite3
            con = sqlite3.connect(path)
            ev_ = sorted(bytes(r[0]).hex() for r in con.execute("SELECT id FROM events"))

            def h(x):
                return bytes(x).hex() if isinstance(x, (bytes, memoryview)) else str(x).encode().hex()
            tg = sorted("%s|%s|%s" % (bytes(r[0]).hex(), h(r[1]), h(r[2])) for r in con.execute("SELECT id, name, value FROM tags"))
            con.close()
            found = {"events": ev_, "tags": tg}
        if found != before and found != after:
            report.property_failure("%s: killed at mutation %d of the last event, the reopened store is neither the state before nor after it (%s)"
                                    % (backend, k, diff(before, found, after)),
                                    {"backend": backend, "events": evs, "kill_at": k}, None)
        report.case((backend, "kill", tag, k), nontrivial=True, sample={"backend": backend, "kill_at": k, "kind": evs[-1]["kind"],
                                                                        "state": "before" if found == before else "after"})
        report.count("kill_points_" + backend)
        return True
    finally:
        shutil.rmtree(base, ignore_errors=True)


def burst_fault_case(report, rng, evs, tag):
    """LMDB: several events are acknowledged and queued before the writer gets to run (a burst, or the writer waiting for the
    write lock); the engine fails at the k-th mutation of the whole batch.  Whatever the writer does with its queue, the fault
    may cost exactly the event whose transaction it hit: the store afterwards is the state of the history without one event, or
    of the whole history — never less, never a mixture."""
    store = KVStore()
    lmdb = store.kv.lmdb
    try:
        # how many mutations does the whole batch take?
        lmdb.MUTATION_LOG = []
        for e in evs:
            store.submit(e)
        store.quiesce()
        nmut = len(lmdb.MUTATION_LOG)
        lmdb.MUTATION_LOG = None
        full = store.dump()
        # the states of the history without one of its events
        without = {}
        for j in range(len(evs)):
            ref = KVStore()
            try:
                for e in evs[:j] + evs[j + 1:]:
                    ref.add(e)
                without[j] = ref.dump()
            finally:
                ref.close()
        ks = sorted(rng.sample(range(1, nmut + 1), min(nmut, 5)))
        for k in ks:
            store.reset()
            lmdb = store.kv.lmdb
            for e in evs:
                store.submit(e)
            exc_name = rng.choice(["mapfull", "generic", "runtime"])
            exc = {"mapfull": lmdb.MapFullError, "generic": lmdb.Error, "runtime": RuntimeError}[exc_name]
            lmdb.FAULT = {"countdown": k, "exc": exc}
            payload = {"backend": "kv", "case": "burst-fault", "events": evs, "fault_at": k, "exc": exc_name}
            try:
                store.quiesce()
                died = None
            except hist.WriterDied as ex:
                died = ex
            finally:
                lmdb.FAULT = None
            if died is not None:
                report.property_failure("kv: a fault at mutation %d of a burst of %d queued events killed the writer loop (%s)"
                                        % (k, len(evs), died), payload, None)
                store.close()
                store = KVStore()
                continue
            got = store.dump()
            if got != full and got not in without.values():
                lost = len(set(full) - set(got))
                report.property_failure(
                    "kv: a fault at mutation %d of a burst of %d acknowledged events left a store that is neither the whole history "
                    "nor the history without one event (%d keys of the full state are missing, %d are extra)"
                    % (k, len(evs), lost, len(set(got) - set(full))), payload, None)
            report.case(("kv", "burst-fault", tag, k), nontrivial=True, sample={"backend": "kv", "case": "burst-fault", "events": len(evs), "k": k})
            report.count("burst_fault_points_kv")
    finally:
        lmdb.FAULT, lmdb.MUTATION_LOG = None, None
        store.close()


def begin_fault_case(report, rng, evs, tag, after_missing_delete):
    """LMDB: the engine refuses to *begin* the write transaction of a task (map full, I/O error, too many readers) — on the
    very first task of a freshly started writer, or right after a deletion that found nothing.  That task is lost as a whole;
    every later event must still be applied."""
    store = KVStore()
    lmdb = store.kv.lmdb
    payload = {"backend": "kv", "case": "begin-fault", "events": evs, "after_missing_delete": after_missing_delete}
    try:
        if after_missing_delete:
            store.delete("ab" * 32)
            store.quiesce()
        exc = rng.choice([lmdb.MapFullError, lmdb.Error, RuntimeError])
        lmdb.BEGIN_FAULT = {"countdown": 1, "exc": exc}
        died = None
        try:
            try:
                store.add(evs[0])
            finally:
                lmdb.BEGIN_FAULT = None
            for e in evs[1:]:
                store.add(e)
        except Exception as ex:      # the writer loop itself raised: in the relay the writer thread is dead from here on
            died = ex
        final = store.dump()
        if died is not None:
            report.property_failure("kv: a fault at the begin of a write transaction killed the writer loop (%s: %s): every later "
                                    "event is acknowledged but never written" % (type(died).__name__, died), payload, None)
        else:
            ref = KVStore()
            try:
                for e in evs[1:]:
                    ref.add(e)
                expected = ref.dump()
            finally:
                ref.close()
            if final != expected:
                report.property_failure("kv: after a task whose write transaction could not begin, the later events did not produce the "
                                        "state of the history without it (%d keys vs %d)" % (len(final), len(expected)), payload, None)
        report.case(("kv", "begin-fault", tag, after_missing_delete), nontrivial=True,
                    sample={"backend": "kv", "case": "begin-fault", "events": len(evs)})
        report.count("begin_faults_kv")
    finally:
        lmdb.BEGIN_FAULT = None
        store.close()


def run(report, tier, seed):
    rng = random.Random(seed)
    drv = common.Driver()
    report.level = "proof"
    report.coverage["rule"] = (
        "histories of 3-6 events (regular, replaceable, parameterised replaceable, kind-0, kind-5 with one or two "
        "references); for every event and every (quick: up to 6 sampled) mutation point k: an engine exception (MapFullError / "
        "lmdb.Error / RuntimeError below kv.py; RuntimeError at the k-th SQL statement) — state must equal 'before', later "
        "events must give the state of the history without the event; directed histories with multi-victim events (a kind-5 naming "
        "3-5 own events of different kinds plus a foreign and an unknown id; a replaceable / parameterised / kind-0 / kind-3 version "
        "superseding 2-4 older versions that arrived newest-first; both in one history): EVERY mutation point of every event that "
        "removes two or more stored events in the fault-free run, both backends, same oracle; LMDB also: the engine refuses to begin the write transaction of "
        "the first task of a fresh writer (or of the task after a deletion that found nothing) — later "
        "events must give the state of the history without the event; LMDB bursts: 2-5 events acknowledged and queued before the writer runs, a fault at a sampled mutation of the whole batch must cost at most the one event it hit; process kills (os._exit) at sampled mutation points on "
        "file-backed LMDB and SQLite, store reopened by the parent; non-trivial = every fault point")
    report.assumptions += ["engine atomicity/durability (LMDB, SQLite WAL) is trusted: torn pages and fsync behaviour are not reachable",
                           "the LMDB writer loop body runs synchronously in the harness thread"]
    try:
        n_hist = 4 if tier == "quick" else 60
        max_points = 6 if tier == "quick" else 100
        for hidx in range(n_hist):
            evs = gen_history(rng, rng.randint(3, 6))
            for backend in ("kv", "sql"):
                enumerate_faults(report, drv, rng, backend, evs, hidx, max_points)
        # events with SEVERAL victims (a kind-5 naming 3+ own events, a replaceable version superseding 2+ older ones, both in
        # one history): EVERY mutation point of such an event on both backends, never a sample — the interesting positions
        # (after the first victim is gone, between victims, inside the last one) are a minority of a transaction of 20-50
        # mutations and a sample of six mostly lands in the puts of the new event; victim counts up to 5 on general grounds
        # (first / middle / last victim are all distinct positions from three victims on)
        shapes = ["delete", "replace", "both"] * (2 if tier == "quick" else 12)
        for hidx, shape in enumerate(shapes):
            evs = gen_multi_victim_history(rng, shape)
            for backend in ("kv", "sql"):
                enumerate_faults(report, drv, rng, backend, evs, "mv-%s-%d" % (shape, hidx), 10 ** 6, min_victims=2)
        for hidx in range(4 if tier == "quick" else 60):
            evs = gen_history(rng, rng.randint(2, 5))
            begin_fault_case(report, rng, evs, hidx, after_missing_delete=bool(hidx % 2))
        for hidx in range(3 if tier == "quick" else 40):
            burst_fault_case(report, rng, gen_history(rng, rng.randint(2, 5)), hidx)
        kills = 3 if tier == "quick" else 40
        for backend in ("kv", "sql"):
            done = 0
            attempts = 0
            while done < kills and attempts < kills * 4:
                attempts += 1
                evs = gen_history(rng, rng.randint(2, 5))
                k = rng.randint(1, 8)
                if kill_case(report, rng, backend, evs, k, attempts):
                    done += 1
    finally:
        drv.close()


def replay(report, path):
    data = json.load(open(path))
    drv = common.Driver()
    rng = random.Random(0)
    seen = []
    try:
        for it in (data.get("violations") or []):
            r = it.get("replay") or {}
            if "fault_at" in r:
                if (r["backend"], r["events"]) in seen:      # the enumeration covers every fault position of the history
                    continue
                seen.append((r["backend"], r["events"]))
                enumerate_faults(report, drv, rng, r["backend"], r["events"], "replay", 10 ** 6)
            elif "kill_at" in r:
                kill_case(report, rng, r["backend"], r["events"], r["kill_at"], "replay")
            elif r.get("case") == "begin-fault":
                begin_fault_case(report, rng, r["events"], "replay", r["after_missing_delete"])
    finally:
        drv.close()
