"""
C12 — a limit returns the newest matching events, never more than allowed.
Tie: as C02 (ordered answers where the order is defined).  Search: stores with more / exactly / fewer
matches than the limit; limits 0, 1, n, max, max+1, null; the answer must have at most min(n, max_limit)
events, no omitted strict match may be newer than a sent event, and a limit not smaller than the number
of matches truncates nothing.
Multi-filter REQs on LMDB (one plan per filter, all made by ONE planner call and run by the real executor):
every filter is judged against its OWN limit — at most min(n_i, max_limit) events for filter i, not fewer
than that when enough events match it, the newest ones — and the limit of the plan made for filter i inside
the REQ is compared with the model's plan for filter i.
Served answers (both backends, through the real websocket message loop): what the client is SENT before EOSE, after everything
the relay does at serving time, against the stored events — stores whose newest matches carry NIP-40 expiration tags in the
past / in the future / malformed (all of them stored: accepted on arrival, no collector has run), limits below, at and above the
number of matches; also with the shipped whitelist output validator configured (property read over the events the client may see).
"""
import random

from lib import common, gen, qscen, spec
from lib.kvimpl import model_filter

THEOREMS_TIED = ["C12_kv_count", "C12_kv_prefix", "C12_kv_no_truncation", "C12_kv_cap", "C12_kv_at_most_max", "C12_kv_single_kind_newest_first", "C12_kv_single_kind_limit_keeps_newest", "C12_sql_limit",
                 "C12_sql_no_truncation", "C12_sql_limit_zero"]

LIMITS = [0, 1, 2, 3, 5, common.MAX_LIMIT - 1, common.MAX_LIMIT, common.MAX_LIMIT + 1, 10 ** 6, None, "absent", "absent"]


def dense_store(rng):
    """many events matching few filters, with shared and distinct timestamps"""
    authors = gen.AUTHORS[2:4]
    evs = []
    n = rng.choice([3, 8, 19, 20, 21, 27])
    for i in range(n):
        e = gen.gen_event(rng, authors=authors, kinds=[1, 1, 7], times=[gen.T0 + d for d in (0, 1, 1, 2, 3, 50, 100, 255, 256)])
        e["tags"] = [["t", rng.choice(["a", "b"])]] + ([["t", "b"]] if rng.random() < 0.2 else []) + \
            ([["p", rng.choice(authors)]] if rng.random() < 0.5 else [])
        evs.append(e)
    return evs


def gen_req(rng, evs):
    shape = rng.choice(["kind", "kinds", "author", "authors", "tag", "tags", "kind+tag", "author+kind", "time", "author+tag",
                        "ids", "ids", "ids+kind"])
    f = {}
    if shape in ("ids", "ids+kind"):
        # a lookup of many stored ids with a limit smaller than their number: which ones survive is the property
        k = rng.randint(2, min(len(evs), 12))
        f["ids"] = [e["id"] for e in rng.sample(evs, k)] + ([gen.mkid(rng)] if rng.random() < 0.3 else [])
        if shape == "ids+kind":
            f["kinds"] = [1]
    if shape in ("kind", "kind+tag", "author+kind"):
        f["kinds"] = [1]
    if shape == "kinds":
        f["kinds"] = [1, 7]
    if shape in ("author", "author+kind", "author+tag"):
        f["authors"] = [gen.AUTHORS[2]]
    if shape == "authors":
        f["authors"] = gen.AUTHORS[2:4]
    if shape in ("tag", "kind+tag", "author+tag"):
        f["#t"] = [rng.choice(["a", "b"])]
    if shape == "tags":
        f["#t"] = ["a", "b"]
    if shape == "time":
        f["since"] = gen.T0 + rng.choice([0, 1, 2])
    if rng.random() < 0.3:
        f["until"] = gen.T0 + rng.choice([2, 50, 300])
    lim = rng.choice(LIMITS)
    if lim != "absent":
        f["limit"] = lim
    return f


def requested_limit(q):
    """min(n, max_limit) for a validated filter; None (explicit null) counts as 'no n given'"""
    n = q.limit
    return common.MAX_LIMIT if n is None else min(n, common.MAX_LIMIT)


def oracle(report, scen, rec):
    if rec is None or rec["ids"] is None:
        return
    ids = rec["ids"]
    ts = rec["ts"]
    qs = rec.get("cleaned") or [scen.kv.validate(rec["filters"][0])]
    if any(q is None for q in qs):
        return
    cap = sum(requested_limit(q) for q in qs)
    payload = qscen.replay_payload(rec)
    f0 = rec["filters"][0]
    if len(ids) > cap:
        cls = None
        if rec["backend"] == "sql" and len(qs) > 1 and len(ids) <= common.MAX_LIMIT:
            cls = "sql-one-limit-per-req"
        report.property_failure("%s sent %d events for %r, allowed at most %d" % (rec["backend"], len(ids), rec["filters"], cap),
                                payload, cls)
        return
    # per filter: events that can only have been sent for filter i must respect filter i's limit
    if len(qs) > 1:
        from lib import spec
        for i, qi in enumerate(qs):
            only_i = [x for x in ids if x in scen.by_id and spec.matches(qi, scen.by_id[x], False)
                      and not any(spec.matches(qj, scen.by_id[x], False) for j, qj in enumerate(qs) if j != i)]
            if len(only_i) > requested_limit(qi):
                cls = "sql-one-limit-per-req"
                report.property_failure("%s sent %d events that match only filter %d (limit %r) of %r"
                                        % (rec["backend"], len(only_i), i, qi.limit, rec["filters"]), payload, cls)
                break
    # newest: no omitted strict match is newer than a sent event
    if len(qs) == 1 and ids:
        omitted = rec["spec_strict"] - set(ids)
        if omitted and len(ids) >= requested_limit(qs[0]) or (omitted and rec["backend"] == "kv"):
            oldest_sent = min(ts[i] for i in ids if i in ts)
            newer = [i for i in omitted if ts.get(i, -1) > oldest_sent]
            if newer:
                cls = None
                if rec["backend"] == "kv":
                    idx = rec.get("index") or ""
                    if idx.startswith("multi"):
                        cls = "kv-limit-multiindex-unordered"
                    elif multi_match(rec):
                        cls = "kv-limit-per-value-order"
                report.property_failure(
                    "%s(%s): %d matching event(s) left out although newer than the oldest sent one, for %r"
                    % (rec["backend"], rec.get("index"), len(newer), rec["filters"]), payload, cls)
    # a limit that is not smaller than the number of matches truncates nothing
    if len(qs) == 1 and qs[0].limit not in (None,) and len(rec["spec_incl"]) <= requested_limit(qs[0]) and rec.get("wellformed"):
        missing = rec["spec_strict"] - set(ids)
        if missing:
            # completeness is C02's business; only flag what is caused by the limit (answer length == limit)
            if len(ids) == (qs[0].limit or 0) and qs[0].limit > 0:
                report.property_failure("%s: limit %r truncated although only %d events match: %r"
                                        % (rec["backend"], qs[0].limit, len(rec["spec_incl"]), rec["filters"]), payload, None)


def multi_match(rec):
    f = rec["filters"][0]
    n = 1
    for k in ("kinds", "authors", "ids"):
        if k in f:
            n *= len(set(f[k]))
    for k, v in f.items():
        if k.startswith("#"):
            n *= max(1, len(set(v)))
    return n > 1


def record(report, rec):
    if rec is not None and rec["ids"] is not None:
        report.case((rec["backend"], repr(rec["filters"]), len(rec["events"])),
                    nontrivial=len(rec["spec_strict"]) > len(rec["ids"]) or len(rec["ids"]) > 0,
                    sample={"backend": rec["backend"], "filters": rec["filters"], "returned": len(rec["ids"]),
                            "matching": len(rec["spec_strict"])})
        report.count("answers_" + rec["backend"])
        if len(rec["spec_strict"]) > len(rec["ids"]):
            report.count("truncated_" + rec["backend"])
        if rec["backend"] == "kv":
            report.count("kv_index_" + str(rec["index"]))


# ---------------------------------------------------------------------------------------------
# multi-filter REQs on LMDB: one limit per filter
# ---------------------------------------------------------------------------------------------
# A REQ is a list of filters and each filter carries its own limit; the planner turns the list into one plan per filter in a
# single call, so whatever that call keeps from one filter to the next (a variable, a cache, a shared object) can leak one
# filter's limit into its neighbours'.  Single-filter REQs never see that.  The filters used here name ONE kind, ONE author, or
# one author and one kind: for these plans the LMDB scan is newest-first over the whole answer (C12_kv_single_kind_* /
# C12_kv_single_author* theorems), so the property can be stated per filter in full — count, no truncation below the limit,
# newest — without running into the open per-value-order / MultiIndex classes.

MULTI_KINDS = [1, 7, 4]
MULTI_AUTHORS = gen.AUTHORS[2:4]
# pairs (limit of one filter, limit of the next one): small/large in both orders, absent and null (= "the maximum") next to a
# small one, zero next to a positive one, above max_limit next to a small one, both sides of max_limit
SMALL = [1, 2, 3, 5]
LARGE = [common.MAX_LIMIT - 1, common.MAX_LIMIT, common.MAX_LIMIT + 1, 10 ** 6, None, "absent"]


def multi_store(rng):
    """A store in which one single-value filter can have far more matches than max_limit and another one fewer: sizes are
    chosen against max_limit (the only bound the property itself names), up to more than three times it, so that 'the cap of
    filter i' and 'the limit of filter j' are distinguishable whatever their order."""
    n = rng.choice([6, common.MAX_LIMIT + 4, 2 * common.MAX_LIMIT + 5, 3 * common.MAX_LIMIT + 6])
    # mostly distinct timestamps (so that "the newest k" is one definite set), some shared
    pool = rng.sample(range(0, 4 * n), n) + [0, 1, 1, 2, 255, 256]
    evs = []
    for i in range(n):
        e = gen.gen_event(rng, authors=MULTI_AUTHORS, kinds=[1, 1, 1, 7, 7, 4], times=[gen.T0 + rng.choice(pool)])
        while any(x["id"] == e["id"] for x in evs):
            e["id"] = gen.mkid(rng)
        e["tags"] = [["t", rng.choice(["a", "b"])]]
        evs.append(e)
    return evs


def gen_multi_filter(rng, evs):
    shape = rng.choice(["kind", "kind", "kind", "author", "author", "author+kind"])
    f = {}
    if shape in ("kind", "author+kind"):
        f["kinds"] = [rng.choice(MULTI_KINDS)]
    if shape in ("author", "author+kind"):
        f["authors"] = [rng.choice(MULTI_AUTHORS)]
    if rng.random() < 0.15:
        f["since"] = rng.choice(evs)["created_at"]
    if rng.random() < 0.15:
        f["until"] = rng.choice(evs)["created_at"] + rng.choice([0, 1])
    return f


def gen_multi_req(rng, evs):
    """2-5 filters (the planner plans at most five), neighbouring filters with different limits"""
    k = rng.choice([2, 2, 2, 3, 3, 4, 5])
    fs = [gen_multi_filter(rng, evs) for _ in range(k)]
    a, b = rng.choice(SMALL + [0]), rng.choice(LARGE + SMALL)
    while a == b:
        b = rng.choice(LARGE + SMALL)
    lims = [a, b] if rng.random() < 0.5 else [b, a]
    while len(lims) < k:
        lims.append(rng.choice([x for x in LIMITS if x != lims[-1]]))
    for f, lim in zip(fs, lims):
        if lim != "absent":
            f["limit"] = lim
    return fs


def run_req_kv(scen, qs):
    """the whole REQ through the real `executor` (ONE planner call for all filters, then one execute_one_plan per plan on a
    pool, as LMDBStorage.run_query does): [(plan limit, index name, ids in the order delivered)] per plan"""
    import asyncio
    import concurrent.futures
    import logging

    impl = scen.kv.impl

    async def go():
        out = []
        with concurrent.futures.ThreadPoolExecutor(max_workers=1) as pool:
            async for plan, events in impl.kv.executor(impl.env, [q.model_copy(deep=True) for q in qs], pool,
                                                       log=logging.getLogger("nostr_relay.verif.kvq"),
                                                       loop=asyncio.get_running_loop()):
                out.append((plan.limit, impl.index_name(plan), [e.id for e in events]))
        return out

    loop = asyncio.new_event_loop()
    try:
        return loop.run_until_complete(go())
    finally:
        loop.close()


def kv_multi_limits(report, scen, fs):
    """one multi-filter REQ on the loaded LMDB store; every filter judged on its own"""
    qs = [scen.kv.validate(f) for f in fs]
    if any(q is None for q in qs) or not all(spec.is_wellformed_conjunction(q) for q in qs):
        return
    payload = {"backend": "kv", "multi": True, "filters": fs, "events": scen.events}
    try:
        answers = run_req_kv(scen, qs)
    except Exception as e:
        report.property_failure("the LMDB executor raised %r on the multi-filter REQ %r" % (e,), payload, None)
        return
    if len(answers) != len(fs):
        # every filter here names an indexed field and there are at most five: each one has to be answered
        report.property_failure("kv: the REQ %r of %d answerable filters got %d answers: a filter is sent nothing although events "
                                "may match it" % (fs, len(fs), len(answers)), payload, None)
        return
    stored = scen.kv_stored
    ts = {i: scen.by_id[i]["created_at"] for i in stored if i in scen.by_id}
    # the model, filter by filter (the model of the planner is `planFilter` mapped over the filters of the REQ)
    model = [None] * len(fs)
    if scen.kv.in_model:
        mfs = [model_filter(q) for q in qs]
        if all(m is not None for m in mfs):
            lines = []
            for m in mfs:
                lines += [{"op": "kv.plan", "filter": m, "default_limit": None, "max_limit": common.MAX_LIMIT},
                          {"op": "kv.exec", "filter": m, "default_limit": None, "max_limit": common.MAX_LIMIT},
                          {"op": "kv.spec", "filter": m}]
            out = scen.drv.batch(lines)
            model = [tuple(out[3 * i:3 * i + 3]) for i in range(len(fs))]
    truncating = 0
    distinct_limits = len({repr(requested_limit(q)) for q in qs})
    for i, (f, q, (plim, index, got)) in enumerate(zip(fs, qs, answers)):
        strict = {x for x in stored if x in scen.by_id and spec.matches(q, scen.by_id[x], True)}
        incl = {x for x in stored if x in scen.by_id and spec.matches(q, scen.by_id[x], False)}
        allowed = requested_limit(q)
        if model[i] is not None:
            mplan, mexec, mspec = model[i]
            if sorted(mspec["strict"]) != sorted(strict) or sorted(mspec["incl"]) != sorted(incl):
                raise common.MachineryBroken("Lean matchesSpec and the Python reference disagree on %r" % (f,))
            # correspondence: the plan made for filter i INSIDE the REQ is the model's plan for filter i
            if mplan is None or mplan["index"] != index or mplan["limit"] != plim:
                report.correspondence_break("kv.planner", dict(payload, filter_index=i), [index, plim],
                                            None if mplan is None else [mplan["index"], mplan["limit"]])
            elif not mexec["unordered"] and got != mexec["ids"]:
                report.correspondence_break("kv.planner/scanner/execute_one_plan", dict(payload, filter_index=i),
                                            {"index": index, "ids": got}, {"index": mplan["index"], "ids": mexec["ids"]})
        where = "kv(%s): filter %d %r of the REQ %r" % (index, i, f, fs)
        if len(got) != len(set(got)):
            report.property_failure("%s is sent an event twice" % where, payload, None)
        elif len(got) > allowed:
            # never more than the filter's own limit (and never more than max_limit)
            report.property_failure("%s is sent %d events, its limit allows at most %d" % (where, len(got), allowed), payload, None)
        elif len(got) < min(allowed, len(strict)):
            # not truncated below its own limit: `allowed` or every match, whichever is smaller
            report.property_failure("%s is sent %d events although %d match and its limit allows %d"
                                    % (where, len(got), len(strict), allowed), payload, None)
        elif got:
            # the newest: nothing left out is newer than something sent
            oldest_sent = min(ts[x] for x in got if x in ts) if any(x in ts for x in got) else None
            newer = [x for x in strict - set(got) if oldest_sent is not None and ts[x] > oldest_sent]
            if newer:
                report.property_failure("%s: %d matching event(s) left out although newer than the oldest sent one"
                                        % (where, len(newer)), payload, None)
        if len(strict) > allowed:
            truncating += 1
            report.count("kv_multi_filters_truncated_by_own_limit")
        report.count("kv_multi_filters")
    def lim_class(f):
        return "open" if f.get("limit", None) is None else "zero" if f["limit"] == 0 else "small" if f["limit"] <= 5 else "large"
    for f, g in zip(fs, fs[1:]):
        report.count("kv_multi_limit_%s_then_%s" % (lim_class(f), lim_class(g)))
    report.case(("kv-multi", repr(fs), len(scen.events)), nontrivial=truncating > 0 and distinct_limits > 1,
                sample={"backend": "kv", "filters": fs, "returned": [len(a[2]) for a in answers], "stored": len(stored)})
    report.count("kv_multi_filter_reqs")


def run_multi_case(report, scen, rng, reqs):
    evs = multi_store(rng)
    scen.load(evs)
    for k in range(reqs):
        kv_multi_limits(report, scen, gen_multi_req(rng, evs))


# ---------------------------------------------------------------------------------------------
# what the CLIENT is sent: the answer observed at the websocket, after everything the relay does at serving time
# ---------------------------------------------------------------------------------------------
# The cases above observe the answer where the backend hands it over (DBStorage.run_query / execute_one_plan).  The property
# speaks about what the relay SENDS for a filter, and between the limited query and the socket sits whatever the relay does at
# serving time (Subscription.run_query: the output check; the sender).  Anything that drops events THERE acts after the limit
# was spent: the client gets fewer than min(limit, matches) events although older matches are stored, and a match that was
# left out is newer than events that were sent.  So this family asks through the real `web.start_client` loop of a real
# storage object (both backends) and judges the EVENT frames that arrive before EOSE against the stored events, with the
# NIP-01 reference as the only notion of "matches".
#
# Stores: every state of per-event metadata that a serving-time rule could look at sits among the NEWEST matches — NIP-40
# expiration tags in the past (below the event's own timestamp = expired on arrival, just above it = expired since, tiny
# values), in the far future, malformed (not a number, empty, a fraction, negative, a second item missing), next to events
# without any; the events were accepted on arrival and no collector has run, so all of them are STORED events and the property
# quantifies over them.  Filters name one kind / one author / one author and one kind / one tag value (for these the order of
# the answer is defined on both backends: C12_kv_single_* theorems, ORDER BY on SQL), optionally an `until` (paging).  Limits
# are chosen against the number of matches m of the very filter (1, 2, m/2, m-1, m, m+1) and against max_limit (max-1, max,
# max+1, 10^6, null, absent), stores against max_limit (up to more than twice it): no size is taken from any implementation.
#
# Second configuration: the shipped output validator of the homeserver recipe (only whitelisted authors are visible to an
# unauthenticated client) hides the events of one of the two authors.  The property is then read over the events the client
# may be sent at all ("visible"): see served_oracle.

SERVED_AUTHORS = gen.AUTHORS[2:4]
EXP_FUTURE = ["4102444800", "17000000000", "99999999999999"]            # 2100-01-01, the year 2508, far beyond
EXP_MALFORMED = ["abc", "", "1700abc", "1.5e9", " ", "0x10", "NaN", "-"]
WHITELIST_VALIDATOR = "nostr_relay.recipe.homeserver.whitelist_output_validator"
OUTPUT_CHECK_CLASS = "output-check-after-limit"


def expiration_tag(rng, state, created_at):
    if state == "past":
        v = rng.choice([str(created_at - 1000), str(created_at + 1), str(gen.T0 - 5), "1", "0", "999", "-1"])
    elif state == "future":
        v = rng.choice(EXP_FUTURE)
    else:
        if rng.random() < 0.12:
            return ["expiration", "", rng.choice(EXP_MALFORMED)] if rng.random() < 0.5 else ["expiration", "abc", "1"]
        v = rng.choice(EXP_MALFORMED)
    return ["expiration", v]


def served_store(rng, tier):
    """(events, {id: state of its expiration tag}); mostly distinct timestamps so that 'the newest k' is one definite set"""
    sizes = [5, 9, common.MAX_LIMIT + 3, 2 * common.MAX_LIMIT + 5]
    if tier != "quick":
        sizes += [3 * common.MAX_LIMIT + 6, 5 * common.MAX_LIMIT + 1]
    n = rng.choice(sizes)
    pool = rng.sample(range(0, 4 * n), n) + [0, 1, 1, 2, 255, 256]
    mode = rng.choice(["past", "past", "mixed", "mixed", "mixed", "future", "malformed", "none"])
    density = rng.choice([0.15, 0.3, 0.5, 0.8])
    evs, marks = [], {}
    for i in range(n):
        e = gen.gen_event(rng, authors=SERVED_AUTHORS, kinds=[1, 1, 1, 7], times=[gen.T0 + rng.choice(pool)])
        while any(x["id"] == e["id"] for x in evs):
            e["id"] = gen.mkid(rng)
        e["tags"] = [["t", rng.choice(["a", "b"])]]
        if mode != "none" and rng.random() < density:
            state = rng.choice(["past", "past", "future", "malformed"]) if mode == "mixed" else mode
            tag = expiration_tag(rng, state, e["created_at"])
            e["tags"].insert(rng.choice([0, 1]), tag)
            marks[e["id"]] = state
        evs.append(e)
    return evs, marks


def gen_served_filter(rng, evs):
    shape = rng.choice(["kind", "kind", "author", "author+kind", "tag"])
    f = {}
    if shape in ("kind", "author+kind"):
        f["kinds"] = [rng.choice([1, 1, 7])]
    if shape in ("author", "author+kind"):
        f["authors"] = [rng.choice(SERVED_AUTHORS)]
    if shape == "tag":
        f["#t"] = [rng.choice(["a", "b"])]
    if rng.random() < 0.15:
        f["until"] = rng.choice(evs)["created_at"] + rng.choice([0, 1])
    return f


def served_limit(rng, m):
    """a limit chosen against the number m of stored matches of the filter, or against max_limit"""
    pool = [1, 2, max(1, m // 2), m - 1, m, m, m + 1, common.MAX_LIMIT - 1, common.MAX_LIMIT, common.MAX_LIMIT + 1, 10 ** 6, None,
            "absent", 0]
    return rng.choice([x for x in pool if x in (None, "absent") or x >= 0])


class Served:
    """one real storage object of `backend` behind the real websocket message loop, loaded with `events` through the real
    add_event (no validators: synthetic events are stored as they are; no collector is started)"""

    def __init__(self, backend, events, whitelist=None):
        from lib.proto import Relay, Conn
        from nostr_relay.config import Config

        self.backend = backend
        self.whitelist = whitelist
        self._config = Config
        self._saved = (getattr(Config, "pubkey_whitelist", None),)
        if whitelist is not None:
            Config.pubkey_whitelist = list(whitelist)
        self.relay = Relay(backend, validators=(), output_validator=WHITELIST_VALIDATOR if whitelist is not None else None)
        try:
            self.refused = 0
            for e in events:
                if not self.relay.store.add(e)["ok"]:
                    self.refused += 1
            self.stored = set(self.relay.store.ids())
            self.conn = Conn(self.relay)
            self.n = 0
        except BaseException:
            self.close()
            raise

    def ask(self, f):
        """ids of the EVENT frames for one single-filter REQ, in the order sent, up to its EOSE; None if no EOSE arrived"""
        c = self.conn
        self.n += 1
        sub = "q%d" % self.n
        start = len(c.out)
        c.send(["REQ", sub, dict(f)])
        got = None
        for attempt in range(4):
            ids = []
            for fr in c.frames(start):
                if isinstance(fr, list) and len(fr) >= 2 and fr[1] == sub:
                    if fr[0] == "EVENT" and len(fr) > 2 and isinstance(fr[2], dict):
                        ids.append(fr[2].get("id"))
                    elif fr[0] == "EOSE":
                        got = ids
                        break
            if got is not None:
                break
            self.relay.settle()
        c.send(["CLOSE", sub])
        return got

    def close(self):
        try:
            self.relay.close()
        finally:
            self._config.pubkey_whitelist = self._saved[0]


def served_oracle(report, backend, f, q, sent, stored, by_id, whitelist, payload):
    """The property, over what was sent.  `visible`: the stored events an unauthenticated client may be sent at all — every one
    when no output validator is configured; with the whitelist validator those of a whitelisted author (restated here from its
    documentation: 'output only events that are in the pubkey_whitelist', NIP-65 lists excepted)."""
    def visible(e):
        return whitelist is None or e["pubkey"] in whitelist or e["kind"] == 10002

    strict = {i for i in stored if i in by_id and spec.matches(q, by_id[i], True)}
    incl = {i for i in stored if i in by_id and spec.matches(q, by_id[i], False)}
    vis_strict = {i for i in strict if visible(by_id[i])}
    allowed = requested_limit(q)
    where = "%s, served over the websocket%s: %r" % (backend, "" if whitelist is None else " (whitelist output validator)", f)
    ts = {i: by_id[i]["created_at"] for i in incl}
    if len(sent) != len(set(sent)):
        report.property_failure("%s is sent an event twice" % where, payload, None)
        return strict
    if any(i not in incl for i in sent):
        report.property_failure("%s is sent %d event(s) that are not stored events matching it"
                                % (where, len([i for i in sent if i not in incl])), payload, None)
        return strict
    if len(sent) > allowed:
        report.property_failure("%s is sent %d events, the limit allows at most %d" % (where, len(sent), allowed), payload, None)
        return strict
    omitted = vis_strict - set(sent)
    if sent and omitted:
        # the newest: nothing that was left out is newer than something that was sent
        oldest_sent = min(ts[i] for i in sent)
        newer = [i for i in omitted if ts[i] > oldest_sent]
        if newer:
            report.property_failure("%s: %d stored matching event(s) left out although newer than the oldest sent one (sent %d of %d "
                                    "matches, limit allows %d)" % (where, len(newer), len(sent), len(vis_strict), allowed), payload, None)
            return strict
    if omitted and allowed >= len(incl):
        # a limit that is not smaller than the number of matches truncates nothing
        report.property_failure("%s: the limit allows %d and only %d stored events match, yet %d of them were left out"
                                % (where, allowed, len(incl), len(omitted)), payload, None)
        return strict
    if len(sent) < min(allowed, len(vis_strict)):
        # n events when n or more match: a short answer tells the client that nothing older exists
        what = "%s is sent %d events although %d stored events %smatch and the limit allows %d" \
            % (where, len(sent), len(vis_strict), "" if whitelist is None else "it may see ", allowed)
        if whitelist is None:
            report.property_failure(what, payload, None)
        else:
            # With an output validator CONFIGURED the shipped code applies it to the rows of the already limited query (both
            # backends), so hidden events among the newest use up the limit: the answer is shorter than min(limit, visible
            # matches) — even shorter than a limit that exceeds the number of visible matches.  That is the behaviour of the
            # unchanged tree (reported to the maintainers as a candidate finding, class OUTPUT_CHECK_CLASS); it is counted
            # in the evidence on every run, and judged as soon as known_findings.json carries an entry of that id (open: a
            # KNOWN-FINDING line; fixed: a VIOLATION again).  The two clauses above (the newest; a limit not smaller than the
            # number of ALL matches truncates nothing visible) are judged in this configuration regardless.
            report.count("served_output_validator_short_answers")
            if any(e.get("id") == OUTPUT_CHECK_CLASS for e in report.known):
                report.property_failure(what, payload, OUTPUT_CHECK_CLASS)
    return strict


def validate_filter(f):
    """the relay's own validation of a raw filter (None when it is refused)"""
    from nostr_relay.storage.base import NostrQuery
    from nostr_relay.errors import StorageError
    from pydantic import ValidationError

    try:
        return NostrQuery.model_validate(dict(f))
    except (ValidationError, StorageError, ValueError, TypeError):
        return None


def served_req(report, srv, f, evs, by_id, marks):
    q = validate_filter(f)
    if q is None or not spec.is_wellformed_conjunction(q):
        return
    payload = {"backend": srv.backend, "served": True, "filters": [f], "events": evs, "expiration_states": marks,
               "whitelist": None if srv.whitelist is None else list(srv.whitelist)}
    sent = srv.ask(f)
    if sent is None:
        # no EOSE: the protocol's business (C13), nothing to judge here
        report.count("served_unanswered_" + srv.backend)
        return
    strict = served_oracle(report, srv.backend, f, q, sent, srv.stored, by_id, srv.whitelist, payload)
    allowed = requested_limit(q)
    # the window of the answer: the newest min(limit, matches) matches; is there per-event metadata / a hidden event inside?
    window = sorted(strict, key=lambda i: -by_id[i]["created_at"])[:allowed]
    in_window = {marks[i] for i in window if i in marks}
    hidden_in_window = srv.whitelist is not None and any(by_id[i]["pubkey"] not in srv.whitelist for i in window)
    for s in sorted(in_window):
        report.count("served_expiration_%s_among_the_newest" % s)
    if hidden_in_window:
        report.count("served_hidden_event_among_the_newest")
    report.count("served_limit_%s_matches" % ("below" if allowed < len(strict) else "equals" if allowed == len(strict) else "above"))
    report.count("served_reqs_" + srv.backend + ("" if srv.whitelist is None else "_output_validator"))
    report.case(("served", srv.backend, repr(f), len(evs), srv.whitelist is not None),
                nontrivial=bool(window) and (bool(in_window) or hidden_in_window),
                sample={"backend": srv.backend, "served": True, "filters": [f], "returned": len(sent), "matching": len(strict),
                        "expiration_states_among_the_newest": sorted(in_window)})


def run_served_case(report, rng, tier, reqs, whitelist=None):
    evs, marks = served_store(rng, tier)
    by_id = {e["id"]: e for e in evs}
    # the same REQs on both backends
    fs = []
    for k in range(reqs):
        f = gen_served_filter(rng, evs)
        q = validate_filter(f)
        m = len([e for e in evs if q is not None and spec.matches(q, e, True)])
        lim = served_limit(rng, m)
        if lim != "absent":
            f["limit"] = lim
        fs.append(f)
    for backend in ("kv", "sql"):
        srv = Served(backend, evs, whitelist=whitelist)
        try:
            report.count("served_stores_" + backend)
            if srv.refused:
                report.count("served_events_refused_on_arrival_" + backend, srv.refused)
            for f in fs:
                served_req(report, srv, dict(f), evs, by_id, marks)
        finally:
            srv.close()


def replay_served(report, r):
    evs = r["events"]
    by_id = {e["id"]: e for e in evs}
    marks = r.get("expiration_states") or {}
    srv = Served(r["backend"], evs, whitelist=r.get("whitelist"))
    try:
        served_req(report, srv, dict(r["filters"][0]), evs, by_id, marks)
    finally:
        srv.close()


# ---------------------------------------------------------------------------------------------
# large answers with ties: hundreds to thousands of matches, many of them created in the same second
# ---------------------------------------------------------------------------------------------
# Everything above runs with max_limit = 20, so no answer is ever longer than 20 rows.  A relay as shipped answers with up to
# 6000 events (config.yaml: max_limit 6000), and anything a backend does to deliver a LONG answer — reading it in batches /
# pages / chunks, continuing a scan from a remembered position, merging partial results — is invisible to 20-row answers.
# What such machinery has to get right is exactly this property: the events delivered are the newest min(limit, matches)
# matches, each once.  The classical way to get it wrong is a continuation keyed on created_at, which is not unique: events of
# one second are skipped or repeated where a batch ends.  So this family builds stores of several hundred to a few thousand
# events in which runs of 2-6 events share their created_at EVERYWHERE (about two thirds of all neighbours in newest-first
# order are ties) and, on top, a run is forced across every position that is a multiple of a round number (100, 250, 256,
# 500, 512, 1000, 1024: the sizes people give to batches — none of them is taken from the implementation, and the dense
# random runs cover every other size with high probability).  One attribute is uniform per store (all kind 1 / all one
# author / every event tagged t=a), so that a filter exists whose newest-first order IS the store's and meets every forced
# run; the other filters select ~90 % subsets with their own orders.  The store is inserted in shuffled order.
#
# max_limit is raised to the shipped default (6000 > every quick store; the thorough tier adds a store above it) the way a
# deployment sets it: SQL subscriptions are made with default_limit=6000 (what BaseSubscription captures from Config at import),
# LMDB plans read Config.max_limit, which is set for the duration of the case.  Answers are taken where the backends hand them
# over — DBStorage.run_query on the query built by the real Subscription.build_query; the real planner + execute_one_plan —
# without the Lean model (its store is a list: loading thousands of events is quadratic), judged by the oracle below only.
# Limits: just below / at / above the round multiples, m-1, m, m+1, above the store size, above max_limit, null.

SHIPPED_MAX_LIMIT = 6000       # nostr_relay/config.yaml as shipped
ROUND_SIZES = (100, 250, 256, 500, 512, 1000, 1024)
LARGE_AUTHORS = gen.AUTHORS[2:4]


def round_positions(n):
    return sorted({k * r for r in ROUND_SIZES for k in range(1, n // r + 1) if k * r < n})


def large_store(rng, n, uniform):
    """n events; position p (0 = newest) has stamps[p]; ties: random runs everywhere + a run across every round position"""
    same = [False] * n              # same[p]: position p shares its second with position p-1
    p = 0
    while p < n:
        run = rng.choice([1, 1, 2, 2, 3, 3, 4, 5, 6])
        for k in range(p + 1, min(n, p + run)):
            same[k] = True
        p += run
    for m in round_positions(n):
        run = rng.randint(2, 6)
        start = rng.randint(max(0, m - run + 1), m - 1)       # the run contains positions m-1 and m
        for k in range(start + 1, min(n, start + run)):
            same[k] = True
    t = gen.T0 + 20 * n
    evs, seen = [], set()
    for p in range(n):
        if not same[p]:
            t -= rng.choice([1, 1, 1, 2, 7])
        i = "%064x" % rng.getrandbits(256)
        while i in seen:
            i = "%064x" % rng.getrandbits(256)
        seen.add(i)
        evs.append({"id": i, "pubkey": LARGE_AUTHORS[0] if uniform == "author" or rng.random() < 0.9 else LARGE_AUTHORS[1],
                    "created_at": t, "kind": 1 if uniform == "kind" or rng.random() < 0.9 else 7,
                    "tags": [["t", "a"]] + ([["t", "b"]] if rng.random() < 0.1 else []),
                    "content": "n%d" % p, "sig": "00" * 64})
    rng.shuffle(evs)                # not stored in time order
    return evs


def large_filters(rng, evs):
    fs = [{"kinds": [1]}, {"authors": [LARGE_AUTHORS[0]]}, {"authors": [LARGE_AUTHORS[0]], "kinds": [1]}, {"#t": ["a"]}]
    # paging: the same, below some stored second
    g = dict(rng.choice(fs))
    g["until"] = rng.choice(evs)["created_at"] + rng.choice([0, 1])
    return fs + [g]


def large_limits(rng, m, k):
    """k limits chosen against the number m of matches: around the round multiples up to m, around m, above everything"""
    near = sorted({r + d for r in round_positions(m + 2) for d in (-1, 0, 1)})
    out = rng.sample(near, min(len(near), k - 2)) if k > 2 else []
    if near:
        out.append(rng.choice([x for x in near if x >= near[-1] - 30]))       # one near the last multiple below m
    out.append(rng.choice([m - 1, m, m, m + 1]))
    out.append(rng.choice([m + 57, SHIPPED_MAX_LIMIT - 1, SHIPPED_MAX_LIMIT, SHIPPED_MAX_LIMIT + 1, 10 ** 6, None]))
    return [x for x in out if x is None or x >= 0]


class raised_max_limit:
    """Config.max_limit = cap while the case runs (the LMDB planner reads it when it plans)"""

    def __init__(self, cap):
        from nostr_relay.config import Config
        self.config, self.cap = Config, cap

    def __enter__(self):
        self.saved = self.config.max_limit
        self.config.max_limit = self.cap

    def __exit__(self, *a):
        self.config.max_limit = self.saved


def large_load(scen, backend, evs):
    """the events through the real add path of the backend (no validators, no model); returns the set of stored ids"""
    if backend == "sql":
        impl = scen.sql.impl
        impl.reset()

        async def go():
            for e in evs:
                await impl.storage.add_event(dict(e))
        impl.run(go())
        return impl.event_ids()
    impl = scen.kv.impl
    impl.reset()
    impl.run_tasks([("add", impl.kv.Event(**e)) for e in evs])
    return set(impl.stored())


def large_ask(scen, backend, f, cap):
    """ids in the order delivered, or None when the filter is refused / not planned"""
    if backend == "sql":
        events, text, cleaned = scen.sql.impl.query([dict(f)], default_limit=cap)
        return None if events is None else [e.id for e in events]
    q = validate_filter(f)
    if q is None:
        return None
    impl = scen.kv.impl
    plan = impl.plan(q)
    return None if plan is None else impl.execute(plan)


def large_oracle(report, backend, f, q, sent, stored, by_id, cap, payload):
    """The property over a delivered answer, max_limit = cap.  Returns (failed, newest-first list of the strict matches)."""
    strict = [i for i in stored if i in by_id and spec.matches(q, by_id[i], True)]
    incl = {i for i in stored if i in by_id and spec.matches(q, by_id[i], False)}
    ts = {i: by_id[i]["created_at"] for i in incl}
    strict.sort(key=lambda i: (-ts[i], i))
    allowed = cap if q.limit is None else min(q.limit, cap)
    where = "%s, store of %d events, max_limit %d: %r" % (backend, len(stored), cap, f)
    if len(sent) != len(set(sent)):
        report.property_failure("%s is sent an event twice (%d events, %d distinct)" % (where, len(sent), len(set(sent))), payload, None)
        return True, strict
    if any(i not in incl for i in sent):
        report.property_failure("%s is sent %d event(s) that are not stored events matching it"
                                % (where, len([i for i in sent if i not in incl])), payload, None)
        return True, strict
    if len(sent) > allowed:
        report.property_failure("%s is sent %d events, the limit allows at most %d" % (where, len(sent), allowed), payload, None)
        return True, strict
    omitted = set(strict) - set(sent)
    if sent and omitted:
        oldest_sent = min(ts[i] for i in sent)
        newer = [i for i in omitted if ts[i] > oldest_sent]
        if newer:
            report.property_failure("%s: %d stored matching event(s) left out although newer than the oldest sent one (sent %d of %d "
                                    "matches, limit allows %d; newest one left out is number %d of the matches, newest first)"
                                    % (where, len(newer), len(sent), len(strict), allowed,
                                       1 + min(strict.index(i) for i in newer)), payload, None)
            return True, strict
    if omitted and allowed >= len(incl):
        report.property_failure("%s: the limit allows %d and only %d stored events match, yet %d of them were left out"
                                % (where, allowed, len(incl), len(omitted)), payload, None)
        return True, strict
    if len(sent) < min(allowed, len(strict)):
        report.property_failure("%s is sent %d events although %d stored events match and the limit allows %d"
                                % (where, len(sent), len(strict), allowed), payload, None)
        return True, strict
    return False, strict


def large_req(report, scen, backend, f, evs, by_id, stored, cap):
    """one REQ on the loaded large store; True when the property failed"""
    q = validate_filter(f)
    if q is None or not spec.is_wellformed_conjunction(q):
        return False
    payload = {"backend": backend, "large": True, "max_limit": cap, "filters": [f], "events": evs}
    try:
        sent = large_ask(scen, backend, f, cap)
    except Exception as e:
        report.property_failure("%s raised %r for %r on a store of %d events" % (backend, e, f, len(evs)), payload, None)
        return True
    if sent is None:
        report.count("large_unanswered_" + backend)
        return False
    failed, strict = large_oracle(report, backend, f, q, sent, stored, by_id, cap, payload)
    allowed = cap if q.limit is None else min(q.limit, cap)
    window = strict[:allowed]
    wts = [by_id[i]["created_at"] for i in window]
    tied = sum(1 for a, b in zip(wts, wts[1:]) if a == b)
    # in the filter's OWN newest-first order: round positions inside the answer that a run of equal seconds lies across
    across = [m for m in round_positions(len(window)) if wts[m - 1] == wts[m]]
    report.count("large_reqs_" + backend)
    report.count("large_limit_%s_matches" % ("below" if allowed < len(strict) else "equals" if allowed == len(strict) else "above"))
    report.count("large_answers_%s" % ("up_to_100" if len(window) <= 100 else "up_to_500" if len(window) <= 500 else
                                       "up_to_1000" if len(window) <= 1000 else "above_1000"))
    if across:
        report.count("large_answers_with_a_tie_across_a_round_position")
    if len(window) < len(strict) and wts and by_id[strict[len(window)]]["created_at"] == wts[-1]:
        report.count("large_limit_cuts_a_run_of_equal_seconds")
    report.case(("large", backend, repr(f), len(evs), cap), nontrivial=tied > 0 and len(window) > common.MAX_LIMIT,
                sample={"backend": backend, "large": True, "filters": [f], "returned": len(sent), "matching": len(strict),
                        "ties_in_answer": tied, "round_positions_with_a_tie_across": len(across)})
    return failed


def run_large_case(report, scen, rng, n, uniform, limits_per_filter, cap=SHIPPED_MAX_LIMIT):
    evs = large_store(rng, n, uniform)
    by_id = {e["id"]: e for e in evs}
    reqs = []
    for g in large_filters(rng, evs):
        q = validate_filter(g)
        m = len([e for e in evs if q is not None and spec.matches(q, e, True)])
        for lim in large_limits(rng, m, limits_per_filter):
            reqs.append(dict(g, limit=lim))
    for backend in ("sql", "kv"):
        stored = large_load(scen, backend, evs)
        report.count("large_stores_" + backend)
        report.count("large_events_stored_" + backend, len(stored))
        # after loading: resetting a bench re-runs the harness' path setup, which sets max_limit to its own small value
        with raised_max_limit(cap):
            for f in reqs:
                if large_req(report, scen, backend, f, evs, by_id, stored, cap):
                    # one failing input per store and backend: the replay file carries the whole store
                    break


def replay_large(report, scen, r):
    evs = r["events"]
    by_id = {e["id"]: e for e in evs}
    cap = r.get("max_limit") or SHIPPED_MAX_LIMIT
    stored = large_load(scen, r["backend"], evs)
    with raised_max_limit(cap):
        large_req(report, scen, r["backend"], dict(r["filters"][0]), evs, by_id, stored, cap)


def run_case(report, scen, rng):
    evs = dense_store(rng)
    scen.load(evs)
    for k in range(18):
        f = gen_req(rng, evs)
        for rec in (scen.ask_kv(dict(f)), scen.ask_sql([dict(f)])):
            oracle(report, scen, rec)
            record(report, rec)
    for k in range(4):
        fs = [gen_req(rng, evs), gen_req(rng, evs)]
        if k == 3:
            # every filter of the REQ is an id lookup
            fs = [{"ids": [e["id"] for e in rng.sample(evs, min(len(evs), rng.randint(2, 6)))], "limit": rng.choice([1, 2, 3])}
                  for _ in range(2)]
        rec = scen.ask_sql(fs)
        oracle(report, scen, rec)
        record(report, rec)


def replay_one(report, scen, r):
    if r.get("served"):
        replay_served(report, r)
        return
    if r.get("large"):
        replay_large(report, scen, r)
        return
    scen.load(r["events"])
    if r.get("multi"):
        kv_multi_limits(report, scen, r["filters"])
        return
    rec = scen.ask_kv(r["filters"][0]) if r["backend"] == "kv" else scen.ask_sql(r["filters"])
    oracle(report, scen, rec)
    record(report, rec)


def run(report, tier, seed):
    rng = random.Random(seed)
    drv = common.Driver()
    scen = qscen.Scenario(report, drv)
    report.coverage["rule"] = (
        "dense stores of 3/8/19/20/21/27 events (max_limit configured as %d) over 2 authors, kinds 1/7, tags t=a/b, "
        "shared and distinct timestamps x filters of every planner shape (incl. lookups of 2-12 stored ids) x limits 0,1,2,3,5,max-1,max,max+1,10^6,null,"
        "absent; LMDB single plan per filter, SQL single- and two-filter REQs; non-trivial = something was sent or "
        "truncated; LMDB multi-filter REQs (2-5 filters, each ONE kind / ONE author / one author+kind, optional since/until) through one "
        "planner call + the real executor over stores of 6 / max+4 / 2*max+5 / 3*max+6 events, neighbouring filters with different "
        "limits (small, 0, max-1, max, max+1, 10^6, null, absent in both orders): per filter at most min(n_i, max_limit), not fewer "
        "when enough match, the newest; plan limit and answer of every filter compared with the model; non-trivial = at least one "
        "filter truncated by its own limit and at least two different limits in the REQ; "
        "served answers: single-filter REQs (ONE kind / author / author+kind / tag value, optional until) through web.start_client "
        "of a real storage object of either backend over stores of 5 / 9 / max+3 / 2*max+5 events (thorough: up to 5*max+1) in which "
        "a share (15-80 %%) of the events carries an expiration tag in the past (below / just above its own timestamp, tiny, "
        "negative), in the far future, or malformed, accepted on arrival and never collected, x limits 0, 1, 2, m/2, m-1, m, m+1 "
        "(m = stored matches of the filter), max-1, max, max+1, 10^6, null, absent: the EVENT frames before EOSE are stored "
        "matches, no duplicates, at most min(n, max_limit), exactly that many when that many match, none left out newer than a "
        "sent one, nothing left out when the limit is not smaller than the number of matches; the same with the homeserver "
        "recipe's whitelist output validator hiding one author (judged over the events visible to the client: the newest, and a "
        "limit not smaller than the number of all matches truncates nothing; answers shorter than min(limit, visible matches) — "
        "the validator runs after the limit — are counted as served_output_validator_short_answers, judged only when "
        "known_findings.json has an entry %s); non-trivial = an event with an expiration tag / a hidden event lies among the "
        "newest min(limit, matches) matches; "
        "large answers with ties: stores of 600 / 1100 / 2300 events (thorough: twelve more of 300-3100, 4200 and max+500) inserted in "
        "shuffled order, in which runs of 2-6 events share their created_at everywhere (about two thirds of the neighbours in "
        "newest-first order) and a run lies across every multiple of 100 / 250 / 256 / 500 / 512 / 1000 / 1024, one attribute uniform "
        "per store, with max_limit raised to the shipped %d, x filters ONE kind / ONE author / author+kind / one tag value / one of "
        "them with until x limits just below / at / above those multiples, m-1, m, m+1, m+57, max-1, max, max+1, 10^6, null, on "
        "both backends (DBStorage.run_query on the query of the real Subscription.build_query; real planner + execute_one_plan; no "
        "model): no duplicates, only stored matches, at most min(n, max_limit), none left out newer than a sent one, nothing left "
        "out when the limit suffices, exactly min(n, max_limit, matches) events; non-trivial = the answer is longer than %d events "
        "and contains events of one second" % (common.MAX_LIMIT, OUTPUT_CHECK_CLASS, SHIPPED_MAX_LIMIT, common.MAX_LIMIT))
    report.assumptions += ["Config.max_limit is set to %d by the harness before the storage modules are imported" % common.MAX_LIMIT]
    try:
        for e in report.known:
            replay_one(report, scen, common.load_finding_replay(e))
        for i in range(40 if tier == "quick" else 800):
            run_case(report, scen, rng)
        # after the single-filter cases, so that those are the same cases as before for a given seed
        for i in range(16 if tier == "quick" else 300):
            run_multi_case(report, scen, rng, reqs=10 if tier == "quick" else 16)
        # after those, for the same reason: what the client is sent over the websocket
        for i in range(14 if tier == "quick" else 200):
            run_served_case(report, rng, tier, reqs=8 if tier == "quick" else 14)
        for i in range(4 if tier == "quick" else 60):
            run_served_case(report, rng, tier, reqs=8 if tier == "quick" else 14, whitelist=[SERVED_AUTHORS[0]])
        # last (the cases above stay the same cases for a given seed; the benches' model state is not used from here on):
        # large answers with ties, max_limit as shipped
        large = [(600, "kind"), (1100, "author"), (2300, "tag")]
        if tier != "quick":
            large += [(rng.choice([300, 513, 777, 1025, 1500, 2049, 3100]), rng.choice(["kind", "author", "tag"])) for _ in range(12)]
            large += [(4200, "kind"), (SHIPPED_MAX_LIMIT + 500, "author")]
        for n, uniform in large:
            run_large_case(report, scen, rng, n, uniform, limits_per_filter=4 if tier == "quick" else 8)
    finally:
        scen.close()
        drv.close()


def replay(report, path):
    import json

    data = json.load(open(path))
    drv = common.Driver()
    scen = qscen.Scenario(report, drv)
    try:
        for it in (data.get("violations") or []) + (data.get("correspondence_breaks") or []):
            r = it.get("replay") or it.get("input")
            if "backend" in r:
                replay_one(report, scen, r)
    finally:
        scen.close()
        drv.close()
