"""
C12 — a limit returns the newest matching events, never more than allowed.
Tie: as C02 (ordered answers where the order is defined).  Search: stores with more / exactly / fewer
matches than the limit; limits 0, 1, n, max, max+1, null; the answer must have at most min(n, max_limit)
events, no omitted strict match may be newer than a sent event, and a limit not smaller than the number
of matches truncates nothing.
Multi-filter REQs on LMDB (one plan per filter, all made by ONE planner call and run by the real executor):
every filter is judged against its OWN limit — at most min(n_i, max_limit) events for filter i, not fewer
than that when enough events match it, the newest ones — and the limit of the plan made for filter i inside
the REQ is compared with the model's plan for filter i.
"""
import random

from lib import common, gen, qscen, spec
from lib.kvimpl import model_filter

THEOREMS_TIED = ["C12_kv_count", "C12_kv_prefix", "C12_kv_no_truncation", "C12_kv_cap", "C12_kv_at_most_max", "C12_kv_single_kind_newest_first", "C12_kv_single_kind_limit_keeps_newest", "C12_sql_limit",
                 "C12_sql_no_truncation", "C12_sql_limit_zero"]

LIMITS = [0, 1, 2, 3, 5, common.MAX_LIMIT - 1, common.MAX_LIMIT, common.MAX_LIMIT + 1, 10 ** 6, None, "absent", "absent"]


def dense_store(rng):
    """many events matching few filters, with shared and distinct timestamps"""
    authors = gen.AUTHORS[2:4]
    evs = []
    n = rng.choice([3, 8, 19, 20, 21, 27])
    for i in range(n):
        e = gen.gen_event(rng, authors=authors, kinds=[1, 1, 7], times=[gen.T0 + d for d in (0, 1, 1, 2, 3, 50, 100, 255, 256)])
        e["tags"] = [["t", rng.choice(["a", "b"])]] + ([["t", "b"]] if rng.random() < 0.2 else []) + \
            ([["p", rng.choice(authors)]] if rng.random() < 0.5 else [])
        evs.append(e)
    return evs


def gen_req(rng, evs):
    shape = rng.choice(["kind", "kinds", "author", "authors", "tag", "tags", "kind+tag", "author+kind", "time", "author+tag",
                        "ids", "ids", "ids+kind"])
    f = {}
    if shape in ("ids", "ids+kind"):
        # a lookup of many stored ids with a limit smaller than their number: which ones survive is the property
        k = rng.randint(2, min(len(evs), 12))
        f["ids"] = [e["id"] for e in rng.sample(evs, k)] + ([gen.mkid(rng)] if rng.random() < 0.3 else [])
        if shape == "ids+kind":
            f["kinds"] = [1]
    if shape in ("kind", "kind+tag", "author+kind"):
        f["kinds"] = [1]
    if shape == "kinds":
        f["kinds"] = [1, 7]
    if shape in ("author", "author+kind", "author+tag"):
        f["authors"] = [gen.AUTHORS[2]]
    if shape == "authors":
        f["authors"] = gen.AUTHORS[2:4]
    if shape in ("tag", "kind+tag", "author+tag"):
        f["#t"] = [rng.choice(["a", "b"])]
    if shape == "tags":
        f["#t"] = ["a", "b"]
    if shape == "time":
        f["since"] = gen.T0 + rng.choice([0, 1, 2])
    if rng.random() < 0.3:
        f["until"] = gen.T0 + rng.choice([2, 50, 300])
    lim = rng.choice(LIMITS)
    if lim != "absent":
        f["limit"] = lim
    return f


def requested_limit(q):
    """min(n, max_limit) for a validated filter; None (explicit null) counts as 'no n given'"""
    n = q.limit
    return common.MAX_LIMIT if n is None else min(n, common.MAX_LIMIT)


def oracle(report, scen, rec):
    if rec is None or rec["ids"] is None:
        return
    ids = rec["ids"]
    ts = rec["ts"]
    qs = rec.get("cleaned") or [scen.kv.validate(rec["filters"][0])]
    if any(q is None for q in qs):
        return
    cap = sum(requested_limit(q) for q in qs)
    payload = qscen.replay_payload(rec)
    f0 = rec["filters"][0]
    if len(ids) > cap:
        cls = None
        if rec["backend"] == "sql" and len(qs) > 1 and len(ids) <= common.MAX_LIMIT:
            cls = "sql-one-limit-per-req"
        report.property_failure("%s sent %d events for %r, allowed at most %d" % (rec["backend"], len(ids), rec["filters"], cap),
                                payload, cls)
        return
    # per filter: events that can only have been sent for filter i must respect filter i's limit
    if len(qs) > 1:
        from lib import spec
        for i, qi in enumerate(qs):
            only_i = [x for x in ids if x in scen.by_id and spec.matches(qi, scen.by_id[x], False)
                      and not any(spec.matches(qj, scen.by_id[x], False) for j, qj in enumerate(qs) if j != i)]
            if len(only_i) > requested_limit(qi):
                cls = "sql-one-limit-per-req"
                report.property_failure("%s sent %d events that match only filter %d (limit %r) of %r"
                                        % (rec["backend"], len(only_i), i, qi.limit, rec["filters"]), payload, cls)
                break
    # newest: no omitted strict match is newer than a sent event
    if len(qs) == 1 and ids:
        omitted = rec["spec_strict"] - set(ids)
        if omitted and len(ids) >= requested_limit(qs[0]) or (omitted and rec["backend"] == "kv"):
            oldest_sent = min(ts[i] for i in ids if i in ts)
            newer = [i for i in omitted if ts.get(i, -1) > oldest_sent]
            if newer:
                cls = None
                if rec["backend"] == "kv":
                    idx = rec.get("index") or ""
                    if idx.startswith("multi"):
                        cls = "kv-limit-multiindex-unordered"
                    elif multi_match(rec):
                        cls = "kv-limit-per-value-order"
                report.property_failure(
                    "%s(%s): %d matching event(s) left out although newer than the oldest sent one, for %r"
                    % (rec["backend"], rec.get("index"), len(newer), rec["filters"]), payload, cls)
    # a limit that is not smaller than the number of matches truncates nothing
    if len(qs) == 1 and qs[0].limit not in (None,) and len(rec["spec_incl"]) <= requested_limit(qs[0]) and rec.get("wellformed"):
        missing = rec["spec_strict"] - set(ids)
        if missing:
            # completeness is C02's business; only flag what is caused by the limit (answer length == limit)
            if len(ids) == (qs[0].limit or 0) and qs[0].limit > 0:
                report.property_failure("%s: limit %r truncated although only %d events match: %r"
                                        % (rec["backend"], qs[0].limit, len(rec["spec_incl"]), rec["filters"]), payload, None)


def multi_match(rec):
    f = rec["filters"][0]
    n = 1
    for k in ("kinds", "authors", "ids"):
        if k in f:
            n *= len(set(f[k]))
    for k, v in f.items():
        if k.startswith("#"):
            n *= max(1, len(set(v)))
    return n > 1


def record(report, rec):
    if rec is not None and rec["ids"] is not None:
        report.case((rec["backend"], repr(rec["filters"]), len(rec["events"])),
                    nontrivial=len(rec["spec_strict"]) > len(rec["ids"]) or len(rec["ids"]) > 0,
                    sample={"backend": rec["backend"], "filters": rec["filters"], "returned": len(rec["ids"]),
                            "matching": len(rec["spec_strict"])})
        report.count("answers_" + rec["backend"])
        if len(rec["spec_strict"]) > len(rec["ids"]):
            report.count("truncated_" + rec["backend"])
        if rec["backend"] == "kv":
            report.count("kv_index_" + str(rec["index"]))


# ---------------------------------------------------------------------------------------------
# multi-filter REQs on LMDB: one limit per filter
# ---------------------------------------------------------------------------------------------
# A REQ is a list of filters and each filter carries its own limit; the planner turns the list into one plan per filter in a
# single call, so whatever that call keeps from one filter to the next (a variable, a cache, a shared object) can leak one
# filter's limit into its neighbours'.  Single-filter REQs never see that.  The filters used here name ONE kind, ONE author, or
# one author and one kind: for these plans the LMDB scan is newest-first over the whole answer (C12_kv_single_kind_* /
# C12_kv_single_author* theorems), so the property can be stated per filter in full — count, no truncation below the limit,
# newest — without running into the open per-value-order / MultiIndex classes.

MULTI_KINDS = [1, 7, 4]
MULTI_AUTHORS = gen.AUTHORS[2:4]
# pairs (limit of one filter, limit of the next one): small/large in both orders, absent and null (= "the maximum") next to a
# small one, zero next to a positive one, above max_limit next to a small one, both sides of max_limit
SMALL = [1, 2, 3, 5]
LARGE = [common.MAX_LIMIT - 1, common.MAX_LIMIT, common.MAX_LIMIT + 1, 10 ** 6, None, "absent"]


def multi_store(rng):
    """A store in which one single-value filter can have far more matches than max_limit and another one fewer: sizes are
    chosen against max_limit (the only bound the property itself names), up to more than three times it, so that 'the cap of
    filter i' and 'the limit of filter j' are distinguishable whatever their order."""
    n = rng.choice([6, common.MAX_LIMIT + 4, 2 * common.MAX_LIMIT + 5, 3 * common.MAX_LIMIT + 6])
    # mostly distinct timestamps (so that "the newest k" is one definite set), some shared
    pool = rng.sample(range(0, 4 * n), n) + [0, 1, 1, 2, 255, 256]
    evs = []
    for i in range(n):
        e = gen.gen_event(rng, authors=MULTI_AUTHORS, kinds=[1, 1, 1, 7, 7, 4], times=[gen.T0 + rng.choice(pool)])
        while any(x["id"] == e["id"] for x in evs):
            e["id"] = gen.mkid(rng)
        e["tags"] = [["t", rng.choice(["a", "b"])]]
        evs.append(e)
    return evs


def gen_multi_filter(rng, evs):
    shape = rng.choice(["kind", "kind", "kind", "author", "author", "author+kind"])
    f = {}
    if shape in ("kind", "author+kind"):
        f["kinds"] = [rng.choice(MULTI_KINDS)]
    if shape in ("author", "author+kind"):
        f["authors"] = [rng.choice(MULTI_AUTHORS)]
    if rng.random() < 0.15:
        f["since"] = rng.choice(evs)["created_at"]
    if rng.random() < 0.15:
        f["until"] = rng.choice(evs)["created_at"] + rng.choice([0, 1])
    return f


def gen_multi_req(rng, evs):
    """2-5 filters (the planner plans at most five), neighbouring filters with different limits"""
    k = rng.choice([2, 2, 2, 3, 3, 4, 5])
    fs = [gen_multi_filter(rng, evs) for _ in range(k)]
    a, b = rng.choice(SMALL + [0]), rng.choice(LARGE + SMALL)
    while a == b:
        b = rng.choice(LARGE + SMALL)
    lims = [a, b] if rng.random() < 0.5 else [b, a]
    while len(lims) < k:
        lims.append(rng.choice([x for x in LIMITS if x != lims[-1]]))
    for f, lim in zip(fs, lims):
        if lim != "absent":
            f["limit"] = lim
    return fs


def run_req_kv(scen, qs):
    """the whole REQ through the real `executor` (ONE planner call for all filters, then one execute_one_plan per plan on a
    pool, as LMDBStorage.run_query does): [(plan limit, index name, ids in the order delivered)] per plan"""
    import asyncio
    import concurrent.futures
    import logging

    impl = scen.kv.impl

    async def go():
        out = []
        with concurrent.futures.ThreadPoolExecutor(max_workers=1) as pool:
            async for plan, events in impl.kv.executor(impl.env, [q.model_copy(deep=True) for q in qs], pool,
                                                       log=logging.getLogger("nostr_relay.verif.kvq"),
                                                       loop=asyncio.get_running_loop()):
                out.append((plan.limit, impl.index_name(plan), [e.id for e in events]))
        return out

    loop = asyncio.new_event_loop()
    try:
        return loop.run_until_complete(go())
    finally:
        loop.close()


def kv_multi_limits(report, scen, fs):
    """one multi-filter REQ on the loaded LMDB store; every filter judged on its own"""
    qs = [scen.kv.validate(f) for f in fs]
    if any(q is None for q in qs) or not all(spec.is_wellformed_conjunction(q) for q in qs):
        return
    payload = {"backend": "kv", "multi": True, "filters": fs, "events": scen.events}
    try:
        answers = run_req_kv(scen, qs)
    except Exception as e:
        report.property_failure("the LMDB executor raised %r on the multi-filter REQ %r" % (e,), payload, None)
        return
    if len(answers) != len(fs):
        # every filter here names an indexed field and there are at most five: each one has to be answered
        report.property_failure("kv: the REQ %r of %d answerable filters got %d answers: a filter is sent nothing although events "
                                "may match it" % (fs, len(fs), len(answers)), payload, None)
        return
    stored = scen.kv_stored
    ts = {i: scen.by_id[i]["created_at"] for i in stored if i in scen.by_id}
    # the model, filter by filter (the model of the planner is `planFilter` mapped over the filters of the REQ)
    model = [None] * len(fs)
    if scen.kv.in_model:
        mfs = [model_filter(q) for q in qs]
        if all(m is not None for m in mfs):
            lines = []
            for m in mfs:
                lines += [{"op": "kv.plan", "filter": m, "default_limit": None, "max_limit": common.MAX_LIMIT},
                          {"op": "kv.exec", "filter": m, "default_limit": None, "max_limit": common.MAX_LIMIT},
                          {"op": "kv.spec", "filter": m}]
            out = scen.drv.batch(lines)
            model = [tuple(out[3 * i:3 * i + 3]) for i in range(len(fs))]
    truncating = 0
    distinct_limits = len({repr(requested_limit(q)) for q in qs})
    for i, (f, q, (plim, index, got)) in enumerate(zip(fs, qs, answers)):
        strict = {x for x in stored if x in scen.by_id and spec.matches(q, scen.by_id[x], True)}
        incl = {x for x in stored if x in scen.by_id and spec.matches(q, scen.by_id[x], False)}
        allowed = requested_limit(q)
        if model[i] is not None:
            mplan, mexec, mspec = model[i]
            if sorted(mspec["strict"]) != sorted(strict) or sorted(mspec["incl"]) != sorted(incl):
                raise common.MachineryBroken("Lean matchesSpec and the Python reference disagree on %r" % (f,))
            # correspondence: the plan made for filter i INSIDE the REQ is the model's plan for filter i
            if mplan is None or mplan["index"] != index or mplan["limit"] != plim:
                report.correspondence_break("kv.planner", dict(payload, filter_index=i), [index, plim],
                                            None if mplan is None else [mplan["index"], mplan["limit"]])
            elif not mexec["unordered"] and got != mexec["ids"]:
                report.correspondence_break("kv.planner/scanner/execute_one_plan", dict(payload, filter_index=i),
                                            {"index": index, "ids": got}, {"index": mplan["index"], "ids": mexec["ids"]})
        where = "kv(%s): filter %d %r of the REQ %r" % (index, i, f, fs)
        if len(got) != len(set(got)):
            report.property_failure("%s is sent an event twice" % where, payload, None)
        elif len(got) > allowed:
            # never more than the filter's own limit (and never more than max_limit)
            report.property_failure("%s is sent %d events, its limit allows at most %d" % (where, len(got), allowed), payload, None)
        elif len(got) < min(allowed, len(strict)):
            # not truncated below its own limit: `allowed` or every match, whichever is smaller
            report.property_failure("%s is sent %d events although %d match and its limit allows %d"
                                    % (where, len(got), len(strict), allowed), payload, None)
        elif got:
            # the newest: nothing left out is newer than something sent
            oldest_sent = min(ts[x] for x in got if x in ts) if any(x in ts for x in got) else None
            newer = [x for x in strict - set(got) if oldest_sent is not None and ts[x] > oldest_sent]
            if newer:
                report.property_failure("%s: %d matching event(s) left out although newer than the oldest sent one"
                                        % (where, len(newer)), payload, None)
        if len(strict) > allowed:
            truncating += 1
            report.count("kv_multi_filters_truncated_by_own_limit")
        report.count("kv_multi_filters")
    def lim_class(f):
        return "open" if f.get("limit", None) is None else "zero" if f["limit"] == 0 else "small" if f["limit"] <= 5 else "large"
    for f, g in zip(fs, fs[1:]):
        report.count("kv_multi_limit_%s_then_%s" % (lim_class(f), lim_class(g)))
    report.case(("kv-multi", repr(fs), len(scen.events)), nontrivial=truncating > 0 and distinct_limits > 1,
                sample={"backend": "kv", "filters": fs, "returned": [len(a[2]) for a in answers], "stored": len(stored)})
    report.count("kv_multi_filter_reqs")


def run_multi_case(report, scen, rng, reqs):
    evs = multi_store(rng)
    scen.load(evs)
    for k in range(reqs):
        kv_multi_limits(report, scen, gen_multi_req(rng, evs))


def run_case(report, scen, rng):
    evs = dense_store(rng)
    scen.load(evs)
    for k in range(18):
        f = gen_req(rng, evs)
        for rec in (scen.ask_kv(dict(f)), scen.ask_sql([dict(f)])):
            oracle(report, scen, rec)
            record(report, rec)
    for k in range(4):
        fs = [gen_req(rng, evs), gen_req(rng, evs)]
        if k == 3:
            # every filter of the REQ is an id lookup
            fs = [{"ids": [e["id"] for e in rng.sample(evs, min(len(evs), rng.randint(2, 6)))], "limit": rng.choice([1, 2, 3])}
                  for _ in range(2)]
        rec = scen.ask_sql(fs)
        oracle(report, scen, rec)
        record(report, rec)


def replay_one(report, scen, r):
    scen.load(r["events"])
    if r.get("multi"):
        kv_multi_limits(report, scen, r["filters"])
        return
    rec = scen.ask_kv(r["filters"][0]) if r["backend"] == "kv" else scen.ask_sql(r["filters"])
    oracle(report, scen, rec)
    record(report, rec)


def run(report, tier, seed):
    rng = random.Random(seed)
    drv = common.Driver()
    scen = qscen.Scenario(report, drv)
    report.coverage["rule"] = (
        "dense stores of 3/8/19/20/21/27 events (max_limit configured as %d) over 2 authors, kinds 1/7, tags t=a/b, "
        "shared and distinct timestamps x filters of every planner shape (incl. lookups of 2-12 stored ids) x limits 0,1,2,3,5,max-1,max,max+1,10^6,null,"
        "absent; LMDB single plan per filter, SQL single- and two-filter REQs; non-trivial = something was sent or "
        "truncated; LMDB multi-filter REQs (2-5 filters, each ONE kind / ONE author / one author+kind, optional since/until) through one "
        "planner call + the real executor over stores of 6 / max+4 / 2*max+5 / 3*max+6 events, neighbouring filters with different "
        "limits (small, 0, max-1, max, max+1, 10^6, null, absent in both orders): per filter at most min(n_i, max_limit), not fewer "
        "when enough match, the newest; plan limit and answer of every filter compared with the model; non-trivial = at least one "
        "filter truncated by its own limit and at least two different limits in the REQ" % common.MAX_LIMIT)
    report.assumptions += ["Config.max_limit is set to %d by the harness before the storage modules are imported" % common.MAX_LIMIT]
    try:
        for e in report.known:
            replay_one(report, scen, common.load_finding_replay(e))
        for i in range(40 if tier == "quick" else 800):
            run_case(report, scen, rng)
        # after the single-filter cases, so that those are the same cases as before for a given seed
        for i in range(16 if tier == "quick" else 300):
            run_multi_case(report, scen, rng, reqs=10 if tier == "quick" else 16)
    finally:
        scen.close()
        drv.close()


def replay(report, path):
    import json

    data = json.load(open(path))
    drv = common.Driver()
    scen = qscen.Scenario(report, drv)
    try:
        for it in (data.get("violations") or []) + (data.get("correspondence_breaks") or []):
            r = it.get("replay") or it.get("input")
            if "backend" in r:
                replay_one(report, scen, r)
    finally:
        scen.close()
        drv.close()
