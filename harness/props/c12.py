"""
C12 — a limit returns the newest matching events, never more than allowed.
Tie: as C02 (ordered answers where the order is defined).  Search: stores with more / exactly / fewer
matches than the limit; limits 0, 1, n, max, max+1, null; the answer must have at most min(n, max_limit)
events, no omitted strict match may be newer than a sent event, and a limit not smaller than the number
of matches truncates nothing.
"""
import random

from lib import common, gen, qscen

THEOREMS_TIED = ["C12_kv_count", "C12_kv_prefix", "C12_kv_no_truncation", "C12_kv_cap", "C12_kv_at_most_max", "C12_kv_single_kind_newest_first", "C12_kv_single_kind_limit_keeps_newest", "C12_sql_limit",
                 "C12_sql_no_truncation", "C12_sql_limit_zero"]

LIMITS = [0, 1, 2, 3, 5, common.MAX_LIMIT - 1, common.MAX_LIMIT, common.MAX_LIMIT + 1, 10 ** 6, None, "absent", "absent"]


def dense_store(rng):
    """many events matching few filters, with shared and distinct timestamps"""
    authors = gen.AUTHORS[2:4]
    evs = []
    n = rng.choice([3, 8, 19, 20, 21, 27])
    for i in range(n):
        e = gen.gen_event(rng, authors=authors, kinds=[1, 1, 7], times=[gen.T0 + d for d in (0, 1, 1, 2, 3, 50, 100, 255, 256)])
        e["tags"] = [["t", rng.choice(["a", "b"])]] + ([["t", "b"]] if rng.random() < 0.2 else []) + \
            ([["p", rng.choice(authors)]] if rng.random() < 0.5 else [])
        evs.append(e)
    return evs


def gen_req(rng, evs):
    shape = rng.choice(["kind", "kinds", "author", "authors", "tag", "tags", "kind+tag", "author+kind", "time", "author+tag",
                        "ids", "ids", "ids+kind"])
    f = {}
    if shape in ("ids", "ids+kind"):
        # a lookup of many stored ids with a limit smaller than their number: which ones survive is the property
        k = rng.randint(2, min(len(evs), 12))
        f["ids"] = [e["id"] for e in rng.sample(evs, k)] + ([gen.mkid(rng)] if rng.random() < 0.3 else [])
        if shape == "ids+kind":
            f["kinds"] = [1]
    if shape in ("kind", "kind+tag", "author+kind"):
        f["kinds"] = [1]
    if shape == "kinds":
        f["kinds"] = [1, 7]
    if shape in ("author", "author+kind", "author+tag"):
        f["authors"] = [gen.AUTHORS[2]]
    if shape == "authors":
        f["authors"] = gen.AUTHORS[2:4]
    if shape in ("tag", "kind+tag", "author+tag"):
        f["#t"] = [rng.choice(["a", "b"])]
    if shape == "tags":
        f["#t"] = ["a", "b"]
    if shape == "time":
        f["since"] = gen.T0 + rng.choice([0, 1, 2])
    if rng.random() < 0.3:
        f["until"] = gen.T0 + rng.choice([2, 50, 300])
    lim = rng.choice(LIMITS)
    if lim != "absent":
        f["limit"] = lim
    return f


def requested_limit(q):
    """min(n, max_limit) for a validated filter; None (explicit null) counts as 'no n given'"""
    n = q.limit
    return common.MAX_LIMIT if n is None else min(n, common.MAX_LIMIT)


def oracle(report, scen, rec):
    if rec is None or rec["ids"] is None:
        return
    ids = rec["ids"]
    ts = rec["ts"]
    qs = rec.get("cleaned") or [scen.kv.validate(rec["filters"][0])]
    if any(q is None for q in qs):
        return
    cap = sum(requested_limit(q) for q in qs)
    payload = qscen.replay_payload(rec)
    f0 = rec["filters"][0]
    if len(ids) > cap:
        cls = None
        if rec["backend"] == "sql" and len(qs) > 1 and len(ids) <= common.MAX_LIMIT:
            cls = "sql-one-limit-per-req"
        report.property_failure("%s sent %d events for %r, allowed at most %d" % (rec["backend"], len(ids), rec["filters"], cap),
                                payload, cls)
        return
    # per filter: events that can only have been sent for filter i must respect filter i's limit
    if len(qs) > 1:
        from lib import spec
        for i, qi in enumerate(qs):
            only_i = [x for x in ids if x in scen.by_id and spec.matches(qi, scen.by_id[x], False)
                      and not any(spec.matches(qj, scen.by_id[x], False) for j, qj in enumerate(qs) if j != i)]
            if len(only_i) > requested_limit(qi):
                cls = "sql-one-limit-per-req"
                report.property_failure("%s sent %d events that match only filter %d (limit %r) of %r"
                                        % (rec["backend"], len(only_i), i, qi.limit, rec["filters"]), payload, cls)
                break
    # newest: no omitted strict match is newer than a sent event
    if len(qs) == 1 and ids:
        omitted = rec["spec_strict"] - set(ids)
        if omitted and len(ids) >= requested_limit(qs[0]) or (omitted and rec["backend"] == "kv"):
            oldest_sent = min(ts[i] for i in ids if i in ts)
            newer = [i for i in omitted if ts.get(i, -1) > oldest_sent]
            if newer:
                cls = None
                if rec["backend"] == "kv":
                    idx = rec.get("index") or ""
                    if idx.startswith("multi"):
                        cls = "kv-limit-multiindex-unordered"
                    elif multi_match(rec):
                        cls = "kv-limit-per-value-order"
                report.property_failure(
                    "%s(%s): %d matching event(s) left out although newer than the oldest sent one, for %r"
                    % (rec["backend"], rec.get("index"), len(newer), rec["filters"]), payload, cls)
    # a limit that is not smaller than the number of matches truncates nothing
    if len(qs) == 1 and qs[0].limit not in (None,) and len(rec["spec_incl"]) <= requested_limit(qs[0]) and rec.get("wellformed"):
        missing = rec["spec_strict"] - set(ids)
        if missing:
            # completeness is C02's business; only flag what is caused by the limit (answer length == limit)
            if len(ids) == (qs[0].limit or 0) and qs[0].limit > 0:
                report.property_failure("%s: limit %r truncated although only %d events match: %r"
                                        % (rec["backend"], qs[0].limit, len(rec["spec_incl"]), rec["filters"]), payload, None)


def multi_match(rec):
    f = rec["filters"][0]
    n = 1
    for k in ("kinds", "authors", "ids"):
        if k in f:
            n *= len(set(f[k]))
    for k, v in f.items():
        if k.startswith("#"):
            n *= max(1, len(set(v)))
    return n > 1


def record(report, rec):
    if rec is not None and rec["ids"] is not None:
        report.case((rec["backend"], repr(rec["filters"]), len(rec["events"])),
                    nontrivial=len(rec["spec_strict"]) > len(rec["ids"]) or len(rec["ids"]) > 0,
                    sample={"backend": rec["backend"], "filters": rec["filters"], "returned": len(rec["ids"]),
                            "matching": len(rec["spec_strict"])})
        report.count("answers_" + rec["backend"])
        if len(rec["spec_strict"]) > len(rec["ids"]):
            report.count("truncated_" + rec["backend"])
        if rec["backend"] == "kv":
            report.count("kv_index_" + str(rec["index"]))


def run_case(report, scen, rng):
    evs = dense_store(rng)
    scen.load(evs)
    for k in range(18):
        f = gen_req(rng, evs)
        for rec in (scen.ask_kv(dict(f)), scen.ask_sql([dict(f)])):
            oracle(report, scen, rec)
            record(report, rec)
    for k in range(4):
        fs = [gen_req(rng, evs), gen_req(rng, evs)]
        if k == 3:
            # every filter of the REQ is an id lookup
            fs = [{"ids": [e["id"] for e in rng.sample(evs, min(len(evs), rng.randint(2, 6)))], "limit": rng.choice([1, 2, 3])}
                  for _ in range(2)]
        rec = scen.ask_sql(fs)
        oracle(report, scen, rec)
        record(report, rec)


def replay_one(report, scen, r):
    scen.load(r["events"])
    rec = scen.ask_kv(r["filters"][0]) if r["backend"] == "kv" else scen.ask_sql(r["filters"])
    oracle(report, scen, rec)
    record(report, rec)


def run(report, tier, seed):
    rng = random.Random(seed)
    drv = common.Driver()
    scen = qscen.Scenario(report, drv)
    report.coverage["rule"] = (
        "dense stores of 3/8/19/20/21/27 events (max_limit configured as %d) over 2 authors, kinds 1/7, tags t=a/b, "
        "shared and distinct timestamps x filters of every planner shape (incl. lookups of 2-12 stored ids) x limits 0,1,2,3,5,max-1,max,max+1,10^6,null,"
        "absent; LMDB single plan per filter, SQL single- and two-filter REQs; non-trivial = something was sent or "
        "truncated" % common.MAX_LIMIT)
    report.assumptions += ["Config.max_limit is set to %d by the harness before the storage modules are imported" % common.MAX_LIMIT]
    try:
        for e in report.known:
            replay_one(report, scen, common.load_finding_replay(e))
        for i in range(40 if tier == "quick" else 800):
            run_case(report, scen, rng)
    finally:
        scen.close()
        drv.close()


def replay(report, path):
    import json

    data = json.load(open(path))
    drv = common.Driver()
    scen = qscen.Scenario(report, drv)
    try:
        for it in (data.get("violations") or []) + (data.get("correspondence_breaks") or []):
            r = it.get("replay") or it.get("input")
            if "backend" in r:
                replay_one(report, scen, r)
    finally:
        scen.close()
        drv.close()
